"""c09_badarg.py -- stage 2 of C09: the finite product  public entry point x bad argument class.

Every case is ONE public call from a fixed start state (built through the API by script commands), run in a forked
ASan child by harness/c09_driver.cpp (mode badarg) with a dump of every entity before and after.
Expected for a bad argument: the call returns false / null / an issue, changes nothing, never crashes.
  classes: null | free (never added to anything) | orphan (its owner was destroyed) | oob (one past the end, SIZE_MAX)
           | unknown (a name / id nothing has)
  policy of a parameter:
    L  looked up in the receiver (remove, replace-old, contains, has, ids of an equivalence, services that need the
       entity's model): every class must be refused and change nothing
    A  added / inserted (add*, replace-new): null must be refused; free/orphan are the normal use (must not crash)
    S  stored as is (setUnits, setVariable, setImportSource, setModel...): null clears, any entity is accepted; must not crash
The table of object-model commands mirrors harness/common/script.hpp; the service commands are those of
harness/c09_badarg.hpp.  tools/c09_api.py enumerates the public headers so that an entry point nobody covers is seen.
"""
import json
import os
import subprocess
import sys

from script_gen import S

sys.path.insert(0, os.path.join(os.path.dirname(os.path.dirname(os.path.abspath(__file__))), "tools"))
import c09_api  # noqa: E402

MATH1 = ('<math xmlns="http://www.w3.org/1998/Math/MathML" xmlns:cellml="http://www.cellml.org/cellml/2.0#"><apply><eq/>'
         '<apply><diff/><bvar><ci>t</ci></bvar><ci>x</ci></apply><cn cellml:units="dimensionless">1</cn></apply></math>')
MATH2 = ('<math xmlns="http://www.w3.org/1998/Math/MathML" xmlns:cellml="http://www.cellml.org/cellml/2.0#"><apply><eq/>'
         '<ci>y</ci><cn cellml:units="dimensionless">2</cn></apply></math>')

MATH3 = MATH2.replace('cellml:units="dimensionless"', 'cellml:units="myunits"')

# slots of the start state
M, C1, C2, T1, X, T2, Y, U1, R, IS = 0, 1, 2, 3, 4, 5, 6, 7, 8, 9
FREE = {"c": 10, "v": 11, "u": 12, "r": 13, "i": 14, "m": 15}
ORPH = {"c": 16, "v": 17, "u": 18, "r": 19}

BASE = [
    "model 0 %s" % S("m"), "setid 0 %s" % S("mid"),
    "component 1 %s" % S("c1"), "setid 1 %s" % S("c1id"), "component 2 %s" % S("c2"), "setid 2 %s" % S("c2id"),
    "addcomponent 0 1", "addcomponent 0 2",
    "variable 3 %s" % S("t"), "setid 3 %s" % S("tid"), "variable 4 %s" % S("x"), "setid 4 %s" % S("xid"),
    "variable 5 %s" % S("t"), "setid 5 %s" % S("t2id"), "variable 6 %s" % S("y"), "setid 6 %s" % S("yid"),
    "addvariable 1 3", "addvariable 1 4", "addvariable 2 5", "addvariable 2 6",
    "units 7 %s" % S("u1"), "setid 7 %s" % S("uid"), "addunit_ref 7 %s" % S("second"), "setunitid 7 0 %s" % S("unitid"), "addunits 0 7",
    "setunits_p 3 7", "setunits_p 5 7", "setunits_n 4 %s" % S("dimensionless"), "setunits_n 6 %s" % S("dimensionless"),
    "setinitialvalue_s 4 %s" % S("0"),
    "setinterfacetype_s 3 %s" % S("public"), "setinterfacetype_s 5 %s" % S("public"),
    "setmath 1 %s" % S(MATH1), "setmath 2 %s" % S(MATH2),
    "addequivalence_ids 3 5 %s %s" % (S("mapid"), S("connid")),
    "reset 8 1", "importsource 9", "seturl 9 %s" % S("other.cellml"),
    # never added to anything
    "component 10 %s" % S("free_c"), "variable 11 %s" % S("free_v"), "units 12 %s" % S("free_u"), "reset 13", "importsource 14",
    "model 15 %s" % S("free_m"),
    # owner destroyed: created, added, the owner dropped, the child kept
    "component 16 %s" % S("orphan_c"), "variable 17 %s" % S("orphan_v"), "units 18 %s" % S("orphan_u"), "reset 19",
    "model 20", "component 21", "model 22", "component 23",
    "addcomponent 20 16", "addvariable 21 17", "addunits 22 18", "addreset 23 19",
    "release 20", "release 21", "release 22", "release 23",
]
# the reset lives in a second, small model so that model 0 stays analysable
WITH_RESET = BASE + ["model 24 %s" % S("rm"), "component 25 %s" % S("rc"), "addcomponent 24 25", "variable 26 %s" % S("rv"),
                     "addvariable 25 26", "addreset 25 8", "setvariable 8 26", "settestvariable 8 26"]
# the residues a history leaves behind (the same classes the stage-1 state classes are made of), produced by calls:
RESIDUES = [
    # expired equivalence entries: the partner was destroyed, no equivalence edit since (on t, x and the free variable)
    "variable 27", "addequivalence 3 27", "release 27",
    "variable 28", "addequivalence 4 28", "addequivalence 11 28", "release 28",
    # import sources whose model expired
    "model 29", "setmodel 14 29", "setmodel 9 29", "release 29",
    # emptied containers after removeAll*
    "component 30", "variable 31", "addvariable 30 31", "removeallvariables 30",
    "units 32 %s" % S("tmp_u"), "addunits 24 32", "removeallunits 24",
    # an entity moved between parents
    "component 33 %s" % S("moved_c"), "addcomponent 24 33", "addcomponent 25 33",
    # a reset whose variable's owner was destroyed
    "reset 34 2", "addreset 25 34", "variable 35 %s" % S("lost_v"), "component 36", "addvariable 36 35",
    "setvariable 34 35", "settestvariable 34 35", "release 36",
    # a variable whose units object's model was destroyed
    "units 37 %s" % S("gone_u"), "model 38", "addunits 38 37", "variable 39 %s" % S("w"), "addvariable 25 39",
    "setunits_p 39 37", "release 38",
]
SERVICES = WITH_RESET + ["svc", "ann_setmodel 0", "ev_create 6", "ev_adddep 5", "an_addext", "an_analyse 0", "val_validate 0",
                         "imp_addimportsource 9", "imp_addmodel 15 %s" % S("lib.cellml")]
# the annotator's model has been destroyed
DEAD_MODEL = ["model 0 %s" % S("m"), "component 1 %s" % S("c"), "setid 1 %s" % S("cid"), "addcomponent 0 1", "variable 2 %s" % S("v"),
              "addvariable 1 2", "svc", "ann_setmodel 0", "release 0"]

SERVICE_SETUP = SERVICES[len(WITH_RESET):]
# residues on the SERVICE side: what the services refer to (the analyser's external variable y and its dependency t, the
# annotator's model and cached items, the importer's library model and import source) changes AFTER it was registered
SERVICE_RESIDUES = {
    "referent-lost-its-owner": ["removevariable_p 2 6", "removevariable_p 2 5", "removecomponent_p 0 1 false"],
    "referent-moved-to-another-model": ["addvariable 25 6", "addvariable 25 5", "addcomponent 24 1"],
    "referent-model-destroyed": ["release 0"],
    "referent-renamed": ["setname 6 %s" % S("y2"), "setname 2 %s" % S("c2x"), "setname 5 %s" % S("t2x"), "setid 1 %s" % S("c1idx"),
                         "setid 4 %s" % S("xidx"), "setname 15 %s" % S("free_m2"), "seturl 9 %s" % S("elsewhere.cellml")],
    "referent-destroyed": ["removecomponent_p 0 1 true", "release 1", "release 3", "release 4", "removemodel 9"],
}
STATES = {"objects": WITH_RESET, "services": SERVICES, "deadmodel": DEAD_MODEL,
          "objects_residues": WITH_RESET + RESIDUES, "services_residues": WITH_RESET + RESIDUES + SERVICE_SETUP}
for _n, _ops in SERVICE_RESIDUES.items():
    STATES["services:" + _n] = SERVICES + _ops
RESIDUE_OF_STATE = {"objects": "none", "services": "none", "deadmodel": "referent-destroyed", "objects_residues": "entity-side residues",
                    "services_residues": "entity-side residues"}
RESIDUE_OF_STATE.update({"services:" + n: n for n in SERVICE_RESIDUES})

COUNTS = {  # one past the end, per (receiver slot, list)
    ("comp", 0): 2, ("comp", 1): 0, ("var", 1): 2, ("reset", 25): 1, ("reset", 1): 0, ("units", 0): 1, ("unit", 7): 1,
    ("eq", 3): 1, ("eq", 4): 0,
}

# ---- object model: command, return kind (b bool / p pointer / o other), parameter specs.
#  receivers are fixed slots; spec '<t><policy>' t in c v u r i m x(any entity) ; 'idx:<list>' ; 'name' (looked up) ;
#  anything else is a literal token
OBJ = """
equals 1 o xS
hasancestor 1 b xL
addcomponent 0 b cA | addcomponent 1 b cA
removecomponent_i 0 b idx:comp | removecomponent_i 1 b idx:comp
removecomponent_n 0 b name true | removecomponent_n 1 b name false
removecomponent_p 0 b cL true | removecomponent_p 1 b cL false
containscomponent_n 0 b name true | containscomponent_p 0 b cL true | containscomponent_p 1 b cL false
component_i 0 p idx:comp | component_n 0 p name true | component_n 1 p name false
takecomponent_i 0 p idx:comp | takecomponent_n 0 p name true
replacecomponent_i 0 b idx:comp 10 | replacecomponent_i 0 b 0 cA | replacecomponent_i 1 b idx:comp 10
replacecomponent_n 0 b name 10 true | replacecomponent_n 0 b %(c1)s cA true
replacecomponent_p 0 b cL 10 true | replacecomponent_p 0 b 1 cA true | replacecomponent_p 1 b cL 10 false
setsourcecomponent 10 o iS %(nm)s
addvariable 1 b vA | removevariable_i 1 b idx:var | removevariable_n 1 b name | removevariable_p 1 b vL
variable_i 1 p idx:var | variable_n 1 p name | takevariable_i 1 p idx:var | takevariable_n 1 p name
hasvariable_n 1 b name | hasvariable_p 1 b vL
addreset 1 b rA | takereset 25 p idx:reset | removereset_i 25 b idx:reset | removereset_p 25 b rL | reset_i 25 p idx:reset | hasreset 25 b rL
takereset 1 p idx:reset | removereset_i 1 b idx:reset
addunits 0 b uA | removeunits_i 0 b idx:units | removeunits_n 0 b name | removeunits_p 0 b uL
hasunits_n 0 b name | hasunits_p 0 b uL | units_i 0 p idx:units | units_n 0 p name | takeunits_i 0 p idx:units | takeunits_n 0 p name
replaceunits_i 0 b idx:units 12 | replaceunits_i 0 b 0 uA | replaceunits_n 0 b name 12 | replaceunits_n 0 b %(u1)s uA
replaceunits_p 0 b uL 12 | replaceunits_p 0 b 7 uA
addequivalence 4 b vA | addequivalence vA b 4
addequivalence_ids 4 b vA %(nm)s %(nm)s | addequivalence_ids vA b 4 %(nm)s %(nm)s
removeequivalence 3 b vL | removeequivalence vL b 3
setequivalencemappingid 3 o vL %(nm)s | setequivalencemappingid vL o 3 %(nm)s
setequivalenceconnectionid 3 o vL %(nm)s | setequivalenceconnectionid vL o 3 %(nm)s
equivalencemappingid 3 o vL | equivalencemappingid vL o 3 | equivalenceconnectionid 3 o vL | equivalenceconnectionid vL o 3
removeequivalencemappingid 3 o vL | removeequivalencemappingid vL o 3
removeequivalenceconnectionid 3 o vL | removeequivalenceconnectionid vL o 3
equivalentvariable 3 p idx:eq | equivalentvariable 4 p idx:eq
hasequivalentvariable 3 b vL false | hasequivalentvariable 3 b vL true
setunits_p 4 o uS | setinitialvalue_v 4 o vS
unitattributes_i 7 o idx:unit | unitattributereference 7 o idx:unit | setunitattributereference 7 o idx:unit %(nm)s
unitattributeprefix 7 o idx:unit | unitattributeexponent 7 o idx:unit | unitattributemultiplier 7 o idx:unit
removeunit_i 7 b idx:unit | removeunit_n 7 b name | unitattributes_n 7 o name | setunitid 7 b idx:unit %(nm)s | unitid 7 o idx:unit
setsourceunits 12 o iS %(nm)s
scalingfactor 7 o uL | scalingfactor uL o 7 | compatible 7 b uL | compatible uL b 7 | equivalent 7 b uL | equivalent uL b 7
setvariable 8 o vS | settestvariable 8 o vS
setmodel 9 o mS | setimportsource 10 o iS | setimportsource 12 o iS
""" % {"nm": S("nm"), "c1": S("c1"), "u1": S("u1")}

# calls on an entity that is itself "never added" / "owner destroyed" (the receiver is the bad argument), DESIGN rows 18 / 27
RECEIVER_CASES = [
    # Component::isDefined() on a component outside any model whose math has a cn with units
    ("objects", ["setmath 10 %s" % S(MATH2)], "isdefined 10", "b", "nocrash", "Component::isDefined", "free"),
    ("objects", ["setmath 16 %s" % S(MATH2)], "isdefined 16", "b", "nocrash", "Component::isDefined", "orphan"),
    ("objects", ["setmath 10 %s" % S(MATH3)], "isdefined 10", "b", "nocrash", "Component::isDefined", "free"),
    ("objects", ["setmath 16 %s" % S(MATH3)], "isdefined 16", "b", "nocrash", "Component::isDefined", "orphan"),
    ("objects", ["setmath 1 %s" % S(MATH3)], "isdefined 0", "b", "nocrash", "Model::isDefined", "unknown"),
    ("objects", [], "requiresimports 10", "b", "nocrash", "Component::requiresImports", "free"),
    # an external variable made from nothing / from a variable outside the model, then the analysis
    ("services", ["ev_create null", "an_addext"], "an_analyse 0", "o", "nocrash", "Analyser::analyseModel", "null"),
    ("services", ["an_addext_null"], "an_analyse 0", "o", "nocrash", "Analyser::analyseModel", "null"),
    ("services", ["ev_create 11", "an_addext"], "an_analyse 0", "o", "nocrash", "Analyser::analyseModel", "free"),
    ("services", ["ev_create 17", "an_addext"], "an_analyse 0", "o", "nocrash", "Analyser::analyseModel", "orphan"),
    ("services", ["ev_create 4", "ev_adddep 3", "an_addext", "release 0"], "an_analyse 15", "o", "nocrash", "Analyser::analyseModel", "orphan"),
    ("objects", [], "isdefined 12", "b", "nocrash", "Units::isDefined", "free"),
    ("objects", [], "isdefined 18", "b", "nocrash", "Units::isDefined", "orphan"),
    ("objects", [], "requiresimports 18", "b", "nocrash", "Units::requiresImports", "orphan"),
    ("objects", [], "isbaseunit 18", "b", "nocrash", "Units::isBaseUnit", "orphan"),
    ("objects", [], "parent 16", "p", "refuse", "ParentedEntity::parent", "orphan"),
    ("objects", [], "hasparent 17", "b", "refuse", "ParentedEntity::hasParent", "orphan"),
    ("objects", [], "hasancestor 17 0", "b", "refuse", "ParentedEntity::hasAncestor", "orphan"),
    ("objects", [], "clone 16 30", "o", "nocrash", "Component::clone", "orphan"),
    ("objects", [], "clone 17 30", "o", "nocrash", "Variable::clone", "orphan"),
    # Model::clone() with an equivalence to a parent-less variable
    ("objects", ["addequivalence 4 11"], "clone 0 30", "o", "nocrash", "Model::clone", "free"),
    ("objects", ["addequivalence 4 17"], "clone 0 30", "o", "nocrash", "Model::clone", "orphan"),
    ("objects", ["addequivalence 4 11"], "fixvariableinterfaces 0", "b", "nocrash", "Model::fixVariableInterfaces", "free"),
    ("objects", ["addequivalence 4 11"], "print 0", "o", "nocrash", "Printer::printModel", "free"),
    ("objects", ["addequivalence 4 11"], "validate 0", "o", "nocrash", "Validator::validateModel", "free"),
    # Validator::validateModel with a reset whose variable has no parent component
    ("objects", ["setvariable 8 11", "settestvariable 8 11"], "validate 24", "o", "nocrash", "Validator::validateModel", "free"),
    ("objects", ["setvariable 8 17", "settestvariable 8 17"], "validate 24", "o", "nocrash", "Validator::validateModel", "orphan"),
    ("objects", ["setvariable 8 11"], "clone 24 30", "o", "nocrash", "Model::clone", "free"),
    ("objects", ["setunits_p 4 12"], "validate 0", "o", "nocrash", "Validator::validateModel", "free"),
    ("objects", ["setunits_p 4 18"], "linkunits 0", "b", "nocrash", "Model::linkUnits", "orphan"),
    ("objects", ["setunits_p 4 18"], "hasunlinkedunits 0", "b", "nocrash", "Model::hasUnlinkedUnits", "orphan"),
    ("objects", ["setunits_p 4 18"], "clean 0", "o", "nocrash", "Model::clean", "orphan"),
    ("objects", ["setimportsource 10 14"], "hasimports 0", "b", "nocrash", "Model::hasImports", "free"),
]
# an entity added twice to its container and removed once stays listed with parent() == nullptr (the re-add is outside the
# ownership claim; "no call crashes" still holds for what is called on that state) -- C19-readded-units-lose-parent
READDED = {"units": ["addunits 0 7", "removeunits_i 0 0"], "component": ["addcomponent 0 1", "removecomponent_i 0 0"],
           "variable": ["addvariable 1 3", "removevariable_i 1 0"], "reset": ["addreset 25 8", "removereset_i 25 0"]}
for _k, _ops in READDED.items():
    _m = "24" if _k == "reset" else "0"
    for _call, _ep in (("validate " + _m, "Validator::validateModel"), ("print " + _m, "Printer::printModel"), ("clone %s 40" % _m, "Model::clone"),
                       ("isdefined " + _m, "Model::isDefined"), ("linkunits " + _m, "Model::linkUnits"),
                       ("fixvariableinterfaces " + _m, "Model::fixVariableInterfaces"), ("hasimports " + _m, "Model::hasImports"),
                       ("hasunresolvedimports " + _m, "Model::hasUnresolvedImports"), ("clean " + _m, "Model::clean"),
                       ("an_analyse " + _m, "Analyser::analyseModel"), ("ann_assignallids " + _m, "Annotator::assignAllIds"),
                       ("imp_flatten " + _m, "Importer::flattenModel"), ("ann_setmodel " + _m, "Annotator::setModel")):
        RECEIVER_CASES.append(("objects", ["svc"] + _ops, _call, "o", "nocrash", _ep, "readded-" + _k))

# ---- services: command template, return kind, policy per slot-typed parameter as for OBJ
SVC = """
ann_setmodel o mS
ann_item p name | ann_item p name 0 | ann_item p %(cid)s idx1 | ann_component p name | ann_component p %(cid)s idx1
ann_componentencapsulation p name | ann_componentencapsulation p %(cid)s idx1 | ann_encapsulation p name | ann_encapsulation p name 0
ann_variable p name | ann_variable p %(xid)s idx1 | ann_reset p name | ann_reset p name 0 | ann_model p name | ann_model p %(mid)s idx1
ann_importsource p name | ann_importsource p name 0 | ann_units p name | ann_units p %(uid)s idx1
ann_mapvariables p name | ann_mapvariables p %(mapid)s idx1 | ann_connection p name | ann_connection p %(connid)s idx1
ann_unitsitem p name | ann_unitsitem p %(unitid)s idx1 | ann_testvalue p name | ann_testvalue p name 0
ann_resetvalue p name | ann_resetvalue p name 0
ann_assignallids b mN | ann_clearallids o mN | ann_isunique b name | ann_items o name | ann_itemcount o name
ann_assignid_model s mF 7 | ann_assignid_component s cL 0 | ann_assignid_component s cL 1 | ann_assignid_importsource s iL
ann_assignid_reset s rL 8 | ann_assignid_reset s rL 9 | ann_assignid_units s uL | ann_assignid_unitsitem s uL 0
ann_assignid_unitsitem s 7 idx:unit | ann_assignid_unitsitem_null s | ann_assignid_variable s vL
ann_assignid_pair s vL 3 5 | ann_assignid_pair s 3 vL 5 | ann_assignid_pair s vL 3 2 | ann_assignid_pair_null s 5
ann_assignid_vv s vL 3 5 | ann_assignid_vv s 3 vL 2 | ann_assignid_unit s uL 0 | ann_assignid_unit s 7 idx:unit
ann_assignid_any_null s | ann_assignid_any_item s name
imp_flatten p mN | imp_resolve b mN %(nm)s | imp_library_n p name | imp_library_i p idx:lib | imp_key s idx:lib
imp_addmodel b mN %(nm)s | imp_replacemodel b mN %(lib)s | imp_replacemodel b 15 name | imp_clearimports o mN
imp_addimportsource b iA | imp_importsource p idx:is | imp_removeimportsource_i b idx:is | imp_removeimportsource_p b iL
imp_hasimportsource b iL
an_analyse o mN
an_addext_null b | an_addext_v b vS | an_removeext_i b idx:ext | an_removeext_m b mF %(c2)s %(y)s | an_removeext_m b 0 name %(y)s
an_removeext_m b 0 %(c2)s name | an_removeext_p b vL | an_containsext_m b mF %(c2)s %(y)s | an_containsext_m b 0 name %(y)s
an_containsext_p b vL | an_ext_i p idx:ext | an_ext_m p mF %(c2)s %(y)s | an_ext_m p 0 %(c2)s name
ev_create_tmp p vS | ev_adddep b vL | ev_removedep_i b idx:dep | ev_removedep_m b mF %(c2)s %(y)s | ev_removedep_m b 0 name %(y)s
ev_removedep_p b vL | ev_containsdep_m b mF %(c2)s %(y)s | ev_containsdep_p b vL | ev_dep_i p idx:dep | ev_dep_m p mF %(c2)s %(y)s
ev_dep_m p 0 %(c2)s name
am_state p idx:state | am_variable p idx:amvar | am_equation p idx:ameq | am_areequivalent b vL 3 | am_areequivalent b 3 vL
aeq_dependency p idx:big | aeq_nlasibling p idx:big | aeq_variable p idx:big | avar_equation p idx:big
gen_setprofile_null o | gen_setmodel_null o | gen_equationcode_null s | gen_equationcode_null2 s
unitsitem_create_null b 0 | unitsitem_create b uL 0 | unitsitem_create b 7 idx:unit | variablepair_create b vS 3 | variablepair_create b 3 vS
ast_setleft_null p | ast_setright_null p | ast_setparent_null p | ast_setvariable p vS | ast_swap_null o
val_validate o mN | pr_print s mN | log_issue p idx:big | log_error p idx:big | log_warning p idx:big | log_message p idx:big
""" % {"nm": S("nm"), "cid": S("c1id"), "xid": S("xid"), "mid": S("mid"), "uid": S("uid"), "mapid": S("mapid"),
       "connid": S("connid"), "unitid": S("unitid"), "lib": S("lib.cellml"), "c2": S("c2"), "y": S("y")}

SVC_COUNTS = {"lib": 1, "is": 1, "ext": 1, "dep": 1, "state": 1, "amvar": 1, "ameq": 2, "big": 99, "unit": 1}

# after the annotator's model died: every annotator entry point (no argument needed to go wrong)
DEAD_CALLS = ["ann_ids", "ann_duplicateids", "ann_item %s" % S("cid"), "ann_component %s" % S("cid"), "ann_isunique %s" % S("cid"),
              "ann_itemcount %s" % S("cid"), "ann_items %s" % S("cid"), "ann_assignid_component 1 0", "ann_assignid_variable 2",
              "ann_variable %s" % S("cid"), "ann_assignid_any_item %s" % S("cid")]


def bad_values(t, policy):
    """[(class, token)] for a pointer parameter of type t"""
    out = [("null", "null")]
    if t in FREE and policy in "LASF":
        out.append(("free", str(FREE[t])))
    if t in ORPH and policy in "LAS":
        out.append(("orphan", str(ORPH[t])))
    if t == "x":
        out += [("free", str(FREE["c"])), ("orphan", str(ORPH["v"]))]
    return out


def expect(policy, cls):
    """'refuse' (false/null + unchanged) | 'nocrash'"""
    if policy == "L":
        return "refuse"
    if policy == "A":
        return "refuse" if cls == "null" else "nocrash"
    if policy == "N":                      # model parameter of a service: null must be refused
        return "refuse"
    if policy == "F":                      # model parameter used as a key: null and a foreign model must be refused
        return "refuse"
    return "nocrash"


def expand(table, state, svc):
    """-> list of case dicts"""
    cases = []
    for entry in [e.strip() for line in table.strip().split("\n") for e in line.split("|") if e.strip()]:
        tok = entry.split()
        if svc:
            cmd, rk, params, recv = tok[0], tok[1], tok[2:], []
        else:
            # the return kind is the first one-letter token among b p o after the leading literals
            cmd = tok[0]
            k = next(i for i in range(1, len(tok)) if tok[i] in ("b", "p", "o"))
            recv, rk, params = tok[1:k], tok[k], tok[k + 1:]
        specs = recv + params

        def special(sp):
            return (len(sp) == 2 and sp[0] in "cvurimx" and sp[1] in "LASNF") or sp.startswith("idx:") or sp in ("idx1", "name")
        if not any(special(sp) for sp in specs):
            # a call whose bad argument is built into the command (…_null)
            cases.append({"state": state, "extra": [], "call": " ".join([cmd] + specs), "ret": rk,
                          "expect": "refuse" if rk in "bps" else "nocrash", "cmd": cmd, "cls": "null", "param": -1})
            continue
        # one case per bad value of each special parameter, the others stay as written
        for pi, sp in enumerate(specs):
            vals = None
            if len(sp) == 2 and sp[0] in "cvurimx" and sp[1] in "LASNF":
                vals = [(c, t, expect(sp[1], c)) for c, t in bad_values(sp[0], sp[1])]
            elif sp.startswith("idx:"):
                key = sp[4:]
                n = SVC_COUNTS[key] if svc else COUNTS[(key, int(specs[0]))]
                vals = [("oob", str(n), "refuse"), ("oob", "-1", "refuse")]
            elif sp == "idx1":
                vals = [("oob", "1", "refuse"), ("oob", "-1", "refuse")]
            elif sp == "name":
                vals = [("unknown", S("nope"), "refuse")]
            if vals is None:
                continue
            for cls, token, exp in vals:
                args = []
                for pj, sq in enumerate(specs):
                    if pj == pi:
                        args.append(token)
                    elif len(sq) == 2 and sq[0] in "cvurimx" and sq[1] in "LASNF":
                        args.append("null")          # never two special parameters in one entry
                    elif sq.startswith("idx:") or sq == "idx1":
                        args.append("0")
                    elif sq == "name":
                        args.append(S("c1"))
                    else:
                        args.append(sq)
                cases.append({"state": state, "extra": [], "call": cmd + " " + " ".join(args), "ret": rk, "expect": exp,
                              "cmd": cmd, "cls": cls, "param": pi})
    return cases


def all_cases():
    cases = expand(OBJ, "objects", False) + expand(SVC, "services", True)
    # the same product from the state full of residues (component 25 holds one more reset there)
    COUNTS[("reset", 25)] = 2
    cases += expand(OBJ, "objects_residues", False) + expand(SVC, "services_residues", True)
    COUNTS[("reset", 25)] = 1
    # the service product from every service-side residue state (calls that name a slot the residue released cannot be written)
    for n, ops in SERVICE_RESIDUES.items():
        gone = {o.split()[1] for o in ops if o.startswith("release ")}
        cases += [c for c in expand(SVC, "services:" + n, True) if not (set(c["call"].split()[1:]) & gone)]
    for c in cases:
        # once the caller has dropped the model, the analyser's previous AnalyserModel is its last owner: analysing anything
        # else (here: null) destroys it, and the components the caller still holds lose their parent -- not a change made
        # to the entities by the call
        if c["state"] == "services:referent-model-destroyed" and c["cmd"] == "an_analyse":
            c["expect"] = "nocrash"
    for st, extra, call, rk, exp, ep, cls in RECEIVER_CASES:
        cases.append({"state": st, "extra": extra, "call": call, "ret": rk, "expect": exp, "cmd": call.split()[0], "cls": cls,
                      "param": -1, "entry_point": ep})
    for call in DEAD_CALLS:
        cases.append({"state": "deadmodel", "extra": [], "call": call, "ret": "o", "expect": "nocrash", "cmd": call.split()[0],
                      "cls": "orphan", "param": -1})
    return cases


# ---- which public entry point a command exercises (for the coverage report)
CMD_API = {
    "equals": "Entity::equals", "hasancestor": "ParentedEntity::hasAncestor", "addcomponent": "ComponentEntity::addComponent",
    "removecomponent_i": "ComponentEntity::removeComponent(size_t)", "removecomponent_n": "ComponentEntity::removeComponent(const std::string &, bool)",
    "removecomponent_p": "ComponentEntity::removeComponent(const ComponentPtr &, bool)",
    "containscomponent_n": "ComponentEntity::containsComponent(const std::string &, bool)",
    "containscomponent_p": "ComponentEntity::containsComponent(const ComponentPtr &, bool)",
    "component_i": "ComponentEntity::component(size_t)", "component_n": "ComponentEntity::component(const std::string &, bool)",
    "takecomponent_i": "ComponentEntity::takeComponent(size_t)", "takecomponent_n": "ComponentEntity::takeComponent(const std::string &, bool)",
    "replacecomponent_i": "ComponentEntity::replaceComponent(size_t, const ComponentPtr &)",
    "replacecomponent_n": "ComponentEntity::replaceComponent(const std::string &, const ComponentPtr &, bool)",
    "replacecomponent_p": "ComponentEntity::replaceComponent(const ComponentPtr &, const ComponentPtr &, bool)",
    "setsourcecomponent": "Component::setSourceComponent", "addvariable": "Component::addVariable",
    "removevariable_i": "Component::removeVariable(size_t)", "removevariable_n": "Component::removeVariable(const std::string &)",
    "removevariable_p": "Component::removeVariable(const VariablePtr &)", "variable_i": "Component::variable(size_t)",
    "variable_n": "Component::variable(const std::string &)", "takevariable_i": "Component::takeVariable(size_t)",
    "takevariable_n": "Component::takeVariable(const std::string &)", "hasvariable_n": "Component::hasVariable(const std::string &)",
    "hasvariable_p": "Component::hasVariable(const VariablePtr &)", "addreset": "Component::addReset", "takereset": "Component::takeReset",
    "removereset_i": "Component::removeReset(size_t)", "removereset_p": "Component::removeReset(const ResetPtr &)", "reset_i": "Component::reset",
    "hasreset": "Component::hasReset", "addunits": "Model::addUnits", "removeunits_i": "Model::removeUnits(size_t)",
    "removeunits_n": "Model::removeUnits(const std::string &)", "removeunits_p": "Model::removeUnits(const UnitsPtr &)",
    "hasunits_n": "Model::hasUnits(const std::string &)", "hasunits_p": "Model::hasUnits(const UnitsPtr &)", "units_i": "Model::units(size_t)",
    "units_n": "Model::units(const std::string &)", "takeunits_i": "Model::takeUnits(size_t)", "takeunits_n": "Model::takeUnits(const std::string &)",
    "replaceunits_i": "Model::replaceUnits(size_t, const UnitsPtr &)", "replaceunits_n": "Model::replaceUnits(const std::string &, const UnitsPtr &)",
    "replaceunits_p": "Model::replaceUnits(const UnitsPtr &, const UnitsPtr &)",
    "addequivalence": "Variable::addEquivalence(const VariablePtr &, const VariablePtr &)",
    "addequivalence_ids": "Variable::addEquivalence(const VariablePtr &, const VariablePtr &, const std::string &, const std::string &)",
    "removeequivalence": "Variable::removeEquivalence", "setequivalencemappingid": "Variable::setEquivalenceMappingId",
    "setequivalenceconnectionid": "Variable::setEquivalenceConnectionId", "equivalencemappingid": "Variable::equivalenceMappingId",
    "equivalenceconnectionid": "Variable::equivalenceConnectionId", "removeequivalencemappingid": "Variable::removeEquivalenceMappingId",
    "removeequivalenceconnectionid": "Variable::removeEquivalenceConnectionId", "equivalentvariable": "Variable::equivalentVariable",
    "hasequivalentvariable": "Variable::hasEquivalentVariable", "setunits_p": "Variable::setUnits(const UnitsPtr &)",
    "setinitialvalue_v": "Variable::setInitialValue(const VariablePtr &)", "unitattributes_i": "Units::unitAttributes(size_t, ...)",
    "unitattributereference": "Units::unitAttributeReference", "setunitattributereference": "Units::setUnitAttributeReference",
    "unitattributeprefix": "Units::unitAttributePrefix", "unitattributeexponent": "Units::unitAttributeExponent",
    "unitattributemultiplier": "Units::unitAttributeMultiplier", "removeunit_i": "Units::removeUnit(size_t)",
    "removeunit_n": "Units::removeUnit(const std::string &)", "unitattributes_n": "Units::unitAttributes(const std::string &, ...)",
    "setunitid": "Units::setUnitId", "unitid": "Units::unitId", "setsourceunits": "Units::setSourceUnits", "scalingfactor": "Units::scalingFactor",
    "compatible": "Units::compatible", "equivalent": "Units::equivalent", "setvariable": "Reset::setVariable",
    "settestvariable": "Reset::setTestVariable", "setmodel": "ImportSource::setModel", "setimportsource": "ImportedEntity::setImportSource",
}


def api_method_of(cmd, entry_point=None):
    """'Class::method' exercised by a command"""
    if entry_point:
        return entry_point.split("(")[0].strip()
    if cmd in CMD_API:
        return CMD_API[cmd].split("(")[0]
    pre, _, rest = cmd.partition("_")
    cls = {"ann": "Annotator", "imp": "Importer", "an": "Analyser", "ev": "AnalyserExternalVariable", "am": "AnalyserModel",
           "aeq": "AnalyserEquation", "avar": "AnalyserVariable", "gen": "Generator", "val": "Validator", "pr": "Printer", "log": "Logger"}.get(pre)
    names = {"setmodel": "setModel", "componentencapsulation": "componentEncapsulation", "importsource": "importSource",
             "mapvariables": "mapVariables", "unitsitem": "unitsItem", "testvalue": "testValue", "resetvalue": "resetValue",
             "assignallids": "assignAllIds", "clearallids": "clearAllIds", "isunique": "isUnique", "itemcount": "itemCount",
             "flatten": "flattenModel", "resolve": "resolveImports", "library": "library", "addmodel": "addModel", "replacemodel": "replaceModel",
             "clearimports": "clearImports", "addimportsource": "addImportSource", "removeimportsource": "removeImportSource",
             "hasimportsource": "hasImportSource", "analyse": "analyseModel", "addext": "addExternalVariable", "removeext": "removeExternalVariable",
             "containsext": "containsExternalVariable", "ext": "externalVariable", "create": "create", "adddep": "addDependency",
             "removedep": "removeDependency", "containsdep": "containsDependency", "dep": "dependency", "areequivalent": "areEquivalentVariables",
             "nlasibling": "nlaSibling", "setprofile": "setProfile", "equationcode": "equationCode", "validate": "validateModel", "print": "printModel",
             "duplicateids": "duplicateIds"}
    base = rest.split("_")[0]
    if base == "assignid":
        return "Annotator::assignId"
    if cmd.startswith("unitsitem_create"):
        return "UnitsItem::create"
    if cmd.startswith("variablepair_create"):
        return "VariablePair::create"
    if pre == "ast":
        return "AnalyserEquationAst::" + {"setleft": "setLeftChild", "setright": "setRightChild", "setparent": "setParent",
                                          "setvariable": "setVariable", "swap": "swapLeftAndRightChildren"}[base]
    return "%s::%s" % (cls, names.get(base, base))


import re
VALUE_ONLY = re.compile(r"^(create|set(Id|Name|EncapsulationId|Url|ImportReference|ResetValueId|TestValueId|\w*String)|addUnit)$")

RET_OK = {"b": ("false",), "p": ("null",), "s": ("s",)}


def judge(case, line):
    """-> (verdict, text): verdict in ok | crash | changed | accepted"""
    t = line.split()
    if not t or t[0].startswith(("CRASH", "TIMEOUT", "THROW")) or line == "<missing>":
        return "crash", line
    if t[0].startswith("ERR"):
        return "error", line
    ret, same = t[0], t[1] if len(t) > 1 else "?"
    issues = t[2][7:] if len(t) > 2 else "-"
    if case["expect"] == "refuse":
        if same != "same":
            return "changed", line
        ok = RET_OK.get(case["ret"])
        if ok is not None and ret not in ok and not (issues not in ("-", "0")):
            return "accepted", line
    return "ok", line


def stage2(ctx, drv):
    import vf
    cases = sorted(all_cases(), key=lambda c: (c["state"], c["extra"]))     # cases sharing a set-up are neighbours
    lines = []
    for c in cases:
        lines.append(";".join(STATES[c["state"]] + c["extra"]) + "|" + c["call"])
    # shard
    nsh = vf.NCPU
    procs, out = [], [None] * len(lines)
    env = dict(os.environ)
    env.update({"ASAN_OPTIONS": "detect_leaks=0:abort_on_error=0:exitcode=99", "UBSAN_OPTIONS": "halt_on_error=1:exitcode=98"})
    size = (len(lines) + nsh - 1) // nsh
    for k in range(nsh):
        part = lines[k * size:(k + 1) * size]          # contiguous: the driver runs a shared set-up once per group
        if not part:
            continue
        p = os.path.join(ctx.workdir, "bad.%d.cases" % k)
        open(p, "w").write("\n".join(part) + "\n")
        of = open(p + ".out", "wb")
        procs.append((k, len(part), subprocess.Popen([drv, "badarg", p], stdout=of, stderr=subprocess.DEVNULL, env=env), of))
    for k, n, pr, of in procs:
        pr.wait()
        of.close()
        res = open(of.name, "rb").read().decode("utf-8", "replace").split("\n")
        for i in range(n):
            out[k * size + i] = res[i] if i < len(res) and res[i] != "" else "<missing>"
    hist = {"ok": 0, "crash": 0, "changed": 0, "accepted": 0, "error": 0}
    by_class = {}
    covered = {}
    nviol = 0
    for c, l in zip(cases, out):
        v, text = judge(c, l)
        hist[v] += 1
        by_class[c["cls"]] = by_class.get(c["cls"], 0) + 1
        ep = api_method_of(c["cmd"], c.get("entry_point"))
        covered.setdefault(ep, set()).add(c["cls"])
        if v == "ok":
            continue
        fid = "C09-badarg:%s[%s]:%s" % (ep, c["cmd"], c["cls"])
        msg = "%s with a %s argument: %s -> %s" % (ep, c["cls"], c["call"], text)
        if v == "error":
            ctx.violation("C09 stage 2: the driver could not make the call %r: %s" % (c["call"], text), "badarg_error.json",
                          {"mode": "badarg", "case": c, "line": ";".join(STATES[c["state"]] + c["extra"]) + "|" + c["call"], "output": text})
            continue
        if ctx.known_finding(fid, msg):
            continue
        nviol += 1
        if nviol <= 6:
            ctx.violation("C09 bad argument: " + msg, "badarg_%d.json" % nviol,
                          {"mode": "badarg", "entry_point": ep, "class": c["cls"], "verdict": v, "case": c,
                           "line": ";".join(STATES[c["state"]] + c["extra"]) + "|" + c["call"], "output": text, "finding_id_if_listed": fid})
    ctx.cov["evaluations"] += len(cases)
    # coverage of the public headers
    api = c09_api.parse_headers(vf.REPO)
    sel = sorted({"%s::%s" % (a["class"], a["method"]) for a in api if any(a["kinds"])})
    cov = sorted(m for m in sel if m in covered or any("::" in e and m.split("::")[1] == e.split("::")[1] and _related(m, e) for e in covered))
    matrix = service_matrix(api, cases)
    notcov = [m for m in sel if m not in cov]
    value_only = [m for m in notcov if VALUE_ONLY.match(m.split("::")[1])]
    notcov = [m for m in notcov if m not in value_only]
    ctx.log("stage 2: %d calls (%s); %d of the %d public methods that take an entity / index / name are exercised" %
            (len(cases), hist, len(cov), len(sel)))
    return {"nontrivial": len(cases) - hist["error"], "samples": [lines[0].split("|")[1], lines[len(lines) // 2].split("|")[1]],
            "dist": {"calls": len(cases), "verdicts": hist, "by_class": by_class, "start_states": sorted(STATES)},
            "entry_points": {"taking_entity_index_or_name": len(sel), "covered": cov, "not_covered": notcov,
                             "not_covered_value_only": value_only, "service_residue_matrix": matrix,
                             "note": "value_only: the string parameter is a value to store (a name, id, url, reference to set; a factory's "
                                     "initial name), nothing is looked up, so no bad argument class applies"}}


SERVICE_CLASSES = ("Annotator", "Importer", "Analyser", "AnalyserExternalVariable", "AnalyserModel", "AnalyserEquation",
                   "AnalyserVariable", "Generator", "Validator", "Printer")


def service_matrix(api, cases):
    """(service entry point) x (residue class of what the service refers to) x (bad argument class): expected from the
    public headers, covered from the cases of this run"""
    residues = ["none", "entity-side residues"] + sorted(SERVICE_RESIDUES)
    expected = set()
    for a in api:
        if a["class"] not in SERVICE_CLASSES or not any(a["kinds"]):
            continue
        m = "%s::%s" % (a["class"], a["method"])
        args = set()
        for k in a["kinds"]:
            if k is None:
                continue
            args |= {"entity": {"null", "foreign"}, "index": {"oob"}, "name": {"unknown"}}[k.split(":")[0]]
        for r in residues:
            for x in args:
                expected.add((m, r, x))
    covered = set()
    for c in cases:
        ep = api_method_of(c["cmd"], c.get("entry_point"))
        if "::" not in ep or ep.split("::")[0] not in SERVICE_CLASSES:
            continue
        r = RESIDUE_OF_STATE.get(c["state"])
        x = {"free": "foreign", "orphan": "foreign"}.get(c["cls"], c["cls"])
        covered.add((ep, r, x))
    missing = sorted(expected - covered)
    by_method = {}
    for m, r, x in missing:
        by_method.setdefault(m, []).append("%s@%s" % (x, r))
    return {"residue_classes": residues, "cells_expected_from_headers": len(expected), "cells_covered": len(expected & covered),
            "uncovered_cells": {m: v for m, v in sorted(by_method.items())},
            "note": "foreign = never added / owner destroyed / belonging to another model; a model parameter has no 'foreign' value "
                    "for the services that accept any model (analyseModel, validateModel, printModel, flattenModel, setModel ...): those "
                    "cells are listed as uncovered on purpose"}


def _related(m, e):
    """a method of a base class exercised through a derived class (ComponentEntity through Model/Component, ...)"""
    fam = [{"ComponentEntity", "Model", "Component"}, {"Entity", "NamedEntity", "ParentedEntity", "Model", "Component", "Variable", "Units", "Reset"},
           {"ImportedEntity", "Component", "Units"}, {"Logger", "Validator", "Analyser", "Annotator", "Importer", "Parser", "Printer"}]
    a, b = m.split("::")[0], e.split("::")[0]
    return any(a in f and b in f for f in fam)


def replay(ctx, drv, r):
    p = os.path.join(ctx.workdir, "replay_bad.cases")
    open(p, "w").write(r["line"] + "\n")
    env = dict(os.environ)
    env.update({"ASAN_OPTIONS": "detect_leaks=0:exitcode=99"})
    print("call  :", r["line"].split("|")[1])
    print("output:", subprocess.run([drv, "badarg", p], capture_output=True, text=True, env=env).stdout.strip())
