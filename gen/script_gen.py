"""script_gen.py -- build "API scripts" for harness/common/script.hpp (no third-party imports).

    from script_gen import S, ScriptBuilder, random_model_script

    b = ScriptBuilder()
    m = b.model('m'); c = b.component(); b.cmd('setname', c, S('c1')); b.cmd('addcomponent', m, c)
    b.addvariable(c, b.variable('x'))          # any command name works as a method too
    lines = b.lines                            # one command per line
    text = b.text()                            # joined with ';' (the form infra_selftest reads, one script per line)

Token conventions (see the table at the top of script.hpp): strings are S('..') tokens, objects are slot
numbers or None (-> null), bool -> true/false, float -> repr (strtod reads it back exactly), int -> decimal.

random_model_script(rng, **knobs) -> (lines, info) builds a random model in slot 0 through the API.
"""
import random
import sys

STANDARD_UNITS = ["ampere", "becquerel", "candela", "coulomb", "dimensionless", "farad", "gram", "gray", "henry",
                  "hertz", "joule", "katal", "kelvin", "kilogram", "litre", "lumen", "lux", "metre", "mole",
                  "newton", "ohm", "pascal", "radian", "second", "siemens", "sievert", "steradian", "tesla",
                  "volt", "watt", "weber"]          # index = int(Units::StandardUnit), usable as u<index>
PREFIXES = ["yotta", "zetta", "exa", "peta", "tera", "giga", "mega", "kilo", "hecto", "deca", "deci", "centi",
            "milli", "micro", "nano", "pico", "femto", "atto", "zepto", "yocto"]   # index = int(Units::Prefix) -> p<index>
INTERFACES = ["none", "private", "public", "public_and_private"]

# every command script.hpp knows (checked against the interpreter by `script_gen.py --list-commands` + selftest)
COMMANDS = """model component variable units reset importsource release clone adoptall usecount kind parse print validate
setid id removeid equals setname name removename parent hasparent hasancestor
addcomponent removecomponent_i removecomponent_n removecomponent_p removeallcomponents containscomponent_n
containscomponent_p component_i component_n takecomponent_i takecomponent_n replacecomponent_i replacecomponent_n
replacecomponent_p componentcount setencapsulationid encapsulationid removeencapsulationid
setsourcecomponent setmath appendmath removemath math addvariable removevariable_i removevariable_n removevariable_p
removeallvariables variable_i variable_n takevariable_i takevariable_n variablecount hasvariable_n hasvariable_p
addreset takereset removereset_i removereset_p removeallresets reset_i resetcount hasreset isdefined requiresimports
addunits removeunits_i removeunits_n removeunits_p removeallunits hasunits_n hasunits_p units_i units_n takeunits_i
takeunits_n replaceunits_i replaceunits_n replaceunits_p unitscount linkunits hasunlinkedunits hasimports
hasunresolvedimports fixvariableinterfaces clean importrequirements
addequivalence addequivalence_ids removeequivalence setequivalencemappingid setequivalenceconnectionid
equivalencemappingid equivalenceconnectionid removeequivalencemappingid removeequivalenceconnectionid
removeallequivalences equivalentvariable equivalentvariablecount hasequivalentvariable setunits_n setunits_p getunits
removeunits setinitialvalue_s setinitialvalue_d setinitialvalue_v initialvalue removeinitialvalue setinterfacetype_s
setinterfacetype_e interfacetype removeinterfacetype hasinterfacetype permitsinterfacetype
addunit addunit_exp addunit_ref unitattributes_i unitattributes_n unitattributereference setunitattributereference
unitattributeprefix unitattributeexponent unitattributemultiplier removeunit_i removeunit_n unitcount setunitid unitid
isbaseunit setsourceunits scalingfactor compatible equivalent
setorder order removeorder isorderset setvariable getvariable settestvariable testvariable settestvalue
appendtestvalue testvalue removetestvalue settestvalueid testvalueid removetestvalueid setresetvalue appendresetvalue
resetvalue removeresetvalue setresetvalueid resetvalueid removeresetvalueid
seturl url setmodel getmodel removemodel hasmodel
setimportsource getimportsource setimportreference importreference isimport isresolved""".split()
_COMMAND_SET = set(COMMANDS)
_CREATORS = ("model", "component", "variable", "units", "reset", "importsource")


def S(s):
    """string token: 's' + hex of the bytes (str is encoded as UTF-8)"""
    if isinstance(s, str):
        s = s.encode("utf-8")
    return "s" + bytes(s).hex()


def unS(tok):
    """inverse of S for results: 's6162' -> 'ab' (bytes decoded as UTF-8 with replacement)"""
    assert tok.startswith("s")
    return bytes.fromhex(tok[1:]).decode("utf-8", "replace")


def tok(a):
    """python value -> script token"""
    if a is None:
        return "null"
    if isinstance(a, bool):
        return "true" if a else "false"
    if isinstance(a, int):
        return str(a)
    if isinstance(a, float):
        if a != a:
            return "nan"
        if a in (float("inf"), float("-inf")):
            return "inf" if a > 0 else "-inf"
        return repr(a)
    if isinstance(a, str):
        if " " in a or ";" in a or a == "":
            raise ValueError("raw token %r: wrap strings with S()" % a)
        return a
    raise TypeError("cannot make a token from %r" % (a,))


class ScriptBuilder:
    """Accumulates script lines and allocates slot numbers.

    Creation methods (model/component/variable/units/reset/importsource/clone) return the new slot number.
    Every other command of script.hpp is available as b.<command>(*args) or b.cmd('<command>', *args);
    both return the index of the emitted line (so results can be matched to lines)."""

    def __init__(self, first_slot=0, check=True):
        self.lines = []
        self.next_slot = first_slot
        self.kinds = {}          # slot -> kind name (as created by this builder)
        self.check = check

    def alloc(self):
        n = self.next_slot
        self.next_slot += 1
        return n

    def cmd(self, name, *args):
        if self.check and name not in _COMMAND_SET:
            raise ValueError("unknown script command %r" % name)
        self.lines.append(" ".join([name] + [tok(a) for a in args]))
        return len(self.lines) - 1

    def _create(self, kind, extra):
        s = self.alloc()
        self.kinds[s] = kind
        self.cmd(kind, s, *extra)
        return s

    def model(self, name=None):
        return self._create("model", [] if name is None else [S(name)])

    def component(self, name=None):
        return self._create("component", [] if name is None else [S(name)])

    def variable(self, name=None):
        return self._create("variable", [] if name is None else [S(name)])

    def units(self, name=None):
        return self._create("units", [] if name is None else [S(name)])

    def reset(self, order=None):
        return self._create("reset", [] if order is None else [int(order)])

    def importsource(self):
        return self._create("importsource", [])

    def clone(self, src):
        s = self.alloc()
        self.kinds[s] = self.kinds.get(src)
        self.cmd("clone", src, s)
        return s

    def release(self, slot):
        self.kinds.pop(slot, None)
        return self.cmd("release", slot)

    def __getattr__(self, name):
        if name.startswith("_") or name not in _COMMAND_SET:
            raise AttributeError(name)
        return lambda *args: self.cmd(name, *args)

    def text(self, sep=";"):
        return sep.join(self.lines)


# --------------------------------------------------------------------------------------------------
# random models

MATH_NS = 'xmlns="http://www.w3.org/1998/Math/MathML" xmlns:cellml="http://www.cellml.org/cellml/2.0#"'

DEFAULT_KNOBS = dict(
    valid=False,            # True: the model passes libcellml's Validator with 0 issues
    n_components=(1, 5),    # total number of components (int or (lo, hi))
    max_depth=3,            # nesting depth of the encapsulation tree (1 = all at top level)
    vars_per_component=(0, 3),
    n_units=(0, 3),         # user units in the model
    unit_children=(0, 3),   # unit children per units
    n_resets=(0, 2),        # total resets
    n_equivalences=(0, 4),  # attempts; pairs are drawn from sibling / parent-child components
    p_far_equivalence=0.15, # (valid=False only) pair drawn from any two components, even the same one
    p_eq_ids=0.3,           # equivalence carries mapping / connection ids
    p_id=0.3,               # each entity gets an id
    p_interface=0.5,        # variable gets an explicit interface type
    p_initial=0.4,          # variable gets an initial value
    p_math=0.3,             # component gets math
    p_import=0.15,          # a units / leaf component is an import
    p_shared_importsource=0.5,
    p_units_by_pointer=0.5, # variable units set with the Units object instead of its name
    p_bad=0.15,             # (valid=False only) probability of a deliberately bad value at each choice
    alphabet="abc",         # names are drawn from this alphabet ...
    name_len=(1, 2),        # ... with this length, so coincidences are common
    fix_interfaces=True,    # valid=True: leave interface types to a final fixvariableinterfaces call
    link_units=0.5,         # probability of a final linkunits call
    mixed_connection_ids=False,  # True: equivalences between the same two components may carry different connection
                            # ids; Variable::equivalenceConnectionId then answers by pointer order (address dependent!)
    wild_numbers=None,      # arbitrary real exponents / multipliers on unit children (None: only when valid=False)
)


def _rint(rng, spec):
    if isinstance(spec, int):
        return spec
    lo, hi = spec
    return rng.randint(lo, hi)


class _Gen:
    def __init__(self, rng, knobs):
        self.rng = rng
        self.k = dict(DEFAULT_KNOBS)
        for key in knobs:
            if key not in DEFAULT_KNOBS:
                raise TypeError("unknown knob %r" % key)
        self.k.update(knobs)
        self.valid = bool(self.k["valid"])
        self.b = ScriptBuilder()
        self.id_counter = 0
        self.used_ids = set()

    # ---- small choices
    def chance(self, p):
        return self.rng.random() < p

    def bad(self):
        return (not self.valid) and self.chance(self.k["p_bad"])

    def raw_name(self):
        n = _rint(self.rng, self.k["name_len"])
        return "".join(self.rng.choice(self.k["alphabet"]) for _ in range(max(1, n)))

    def bad_name(self):
        return self.rng.choice(["", "1" + self.raw_name(), self.raw_name() + " " + self.raw_name(), "_" + self.raw_name(),
                                self.raw_name() + "-x", "é" + self.raw_name(), " ", self.raw_name() + "\n"])

    def name(self, taken=None, reserved=()):
        """a name; with valid=True it is a CellML identifier not in `taken` (which is updated) nor `reserved`"""
        if self.bad():
            return self.bad_name()
        n = self.raw_name()
        if not self.valid:
            return n
        if not (n[0].isalpha() and n[0].isascii()):
            n = "n" + n
        n = "".join(ch if (ch.isascii() and (ch.isalnum() or ch == "_")) else "_" for ch in n)
        base, i = n, 0
        while (taken is not None and n in taken) or n in reserved:
            i += 1
            n = "%s%d" % (base, i)
        if taken is not None:
            taken.add(n)
        return n

    def new_id(self):
        if self.valid or not self.chance(0.3):
            self.id_counter += 1
            return "i%d" % self.id_counter
        if self.bad():
            return self.rng.choice(["", "1x", "a b", "i1"])
        return "i%d" % self.rng.randint(1, max(1, self.id_counter + 1))   # likely duplicate

    def maybe_id(self, slot, info=None):
        if self.chance(self.k["p_id"]):
            i = self.new_id()
            self.b.cmd("setid", slot, S(i))
            if info is not None:
                info["ids"][slot] = i

    def number_text(self):
        r = self.rng
        if self.bad():
            return r.choice(["", "abc", "1e", "0x10", "1,5", " 1", "+-1", "1.5.2"])
        if self.valid:
            return r.choice(["0", "1", "-1", "2.5", "1e3", "-3.0e-2", "1E+2", str(r.randint(-1000, 1000))])
        return r.choice(["0", "1", "-1", "2.5", "1e3", "-3.0e-2", "+7", ".5", "1.", "1E+2", str(r.randint(-1000, 1000)),
                         repr(r.uniform(-10, 10))])

    # ---- pieces
    def math_string(self, var_names, units_names):
        r = self.rng
        v = r.choice(var_names) if var_names else "x"
        u = r.choice(units_names) if units_names else "second"
        good = '<math %s><apply><eq/><ci>%s</ci><cn cellml:units="%s">%s</cn></apply></math>' % (MATH_NS, v, u, r.choice(["1", "2.5", "100"]))
        if self.valid:
            return good
        if self.bad():
            return r.choice([
                "x = 1",
                "<math %s><apply><eq/><ci>nosuchvar</ci><cn cellml:units=\"second\">1</cn></apply></math>" % MATH_NS,
                "<math %s><ci>%s</ci>" % (MATH_NS, v),
                "<math %s/>" % MATH_NS,
                "<math %s><apply><eq/><ci>%s</ci><cn cellml:units=\"nosuchunits\">1</cn></apply></math>" % (MATH_NS, v),
                "<math %s><apply><eq/><ci>%s</ci><cn>1</cn></apply></math>" % (MATH_NS, v),
                "<notmath/>"])
        return good

    def value_math(self, units_names):
        u = self.rng.choice(units_names) if units_names else "second"
        if self.bad():
            return self.rng.choice(["", " ", "1", "<math %s/>" % MATH_NS, "<math %s><cn>1</cn></math>" % MATH_NS])
        return '<math %s><cn cellml:units="%s">%s</cn></math>' % (MATH_NS, u, self.rng.choice(["0", "1", "3.5"]))

    def import_source(self, pool, info):
        r = self.rng
        # (valid=True: a shared import source carries no id: the Validator counts the id once per importing entity)
        share = [i for i in pool if not (self.valid and i in info["ids"])]
        if share and self.chance(self.k["p_shared_importsource"]):
            i = r.choice(share)
            info["shared"].add(i)
            return i
        i = self.b.importsource()
        url = r.choice(["lib.cellml", "other.cellml", "sub/dir/m.cellml", "http://example.org/m.cellml"])
        if self.bad():
            url = r.choice(["", "::bad uri::", "a b"])
        if not (self.bad() and self.chance(0.5)):
            self.b.cmd("seturl", i, S(url))
            info["urls"][i] = url
        else:
            info["urls"][i] = ""
        self.maybe_id(i, info)
        pool.append(i)
        info["importsources"].append(i)
        return i

    # ---- the model
    def build(self):
        r, b, k = self.rng, self.b, self.k
        info = dict(valid=self.valid, model=None, components=[], variables=[], units=[], resets=[], importsources=[],
                    equivalences=[], parent={}, var_owner={}, names={}, units_names=[], imported=[], urls={},
                    var_units={}, ids={}, shared=set(), knobs=dict(k))
        m = b.model()
        info["model"] = m
        mname = self.name()
        if not (self.bad() and self.chance(0.5)):
            b.cmd("setname", m, S(mname))
            info["names"][m] = mname
        self.maybe_id(m, info)
        if self.chance(k["p_id"]):
            b.cmd("setencapsulationid", m, S(self.new_id()))
        pool = []

        # units
        unit_names_taken = set()
        defined = []                 # (slot, name) of user units added so far
        used_imports = set()
        for _ in range(_rint(r, k["n_units"])):
            uname = self.name(unit_names_taken, reserved=STANDARD_UNITS)
            if self.bad():
                uname = r.choice(STANDARD_UNITS)
            u = b.units(uname) if self.chance(0.5) else b.units()
            if b.lines[-1].count(" ") == 1:
                b.cmd("setname", u, S(uname))
            info["names"][u] = uname
            self.maybe_id(u, info)
            is_import = self.chance(k["p_import"])
            if is_import:
                isrc = self.import_source(pool, info)
                ref = self.name()
                if self.valid:
                    tries = 0
                    while (info["urls"][isrc], ref) in used_imports:
                        tries += 1
                        ref = "%s%d" % (ref, tries)
                    used_imports.add((info["urls"][isrc], ref))
                if self.chance(0.5):
                    b.cmd("setsourceunits", u, isrc, S(ref))
                else:
                    b.cmd("setimportsource", u, isrc)
                    b.cmd("setimportreference", u, S(ref))
                info["imported"].append(u)
            if not is_import or self.bad():
                for _ in range(_rint(r, k["unit_children"])):
                    self.unit_child(u, defined, uname)
            attach_now = True
            if self.bad() and self.chance(0.3):
                attach_now = False       # dangling units object, never added to the model
            if attach_now:
                b.cmd("addunits", m, u)
                defined.append((u, uname))
            info["units"].append(u)
        info["units_names"] = [n for _, n in defined]

        # components (tree)
        comp_names_taken = set()
        ncomp = _rint(r, k["n_components"])
        depth = {}
        for ci in range(ncomp):
            cname = self.name(comp_names_taken)
            c = b.component(cname) if self.chance(0.5) else b.component()
            if b.lines[-1].count(" ") == 1:
                b.cmd("setname", c, S(cname))
            info["names"][c] = cname
            self.maybe_id(c, info)
            cands = [p for p in info["components"] if depth[p] < k["max_depth"] and p not in info["imported"]]
            if cands and self.chance(0.6):
                p = r.choice(cands)
            else:
                p = m
            depth[c] = 1 if p == m else depth[p] + 1
            info["parent"][c] = p
            info["components"].append(c)
            b.cmd("addcomponent", p, c)
            if p != m and self.chance(k["p_id"]):
                b.cmd("setencapsulationid", c, S(self.new_id()))
        # imports on leaf components
        children = {}
        for c, p in info["parent"].items():
            children.setdefault(p, []).append(c)
        for c in info["components"]:
            if not children.get(c) and self.chance(k["p_import"]):
                isrc = self.import_source(pool, info)
                ref = self.name()
                if self.chance(0.5):
                    b.cmd("setsourcecomponent", c, isrc, S(ref))
                else:
                    b.cmd("setimportsource", c, isrc)
                    b.cmd("setimportreference", c, S(ref))
                info["imported"].append(c)

        # variables
        comp_vars = {}
        for c in info["components"]:
            comp_vars[c] = []
            if c in info["imported"] and not self.bad():
                continue
            taken = set()
            for _ in range(_rint(r, k["vars_per_component"])):
                vname = self.name(taken)
                v = b.variable(vname) if self.chance(0.5) else b.variable()
                if b.lines[-1].count(" ") == 1:
                    b.cmd("setname", v, S(vname))
                info["names"][v] = vname
                self.maybe_id(v, info)
                b.cmd("addvariable", c, v)
                comp_vars[c].append(v)
                info["var_owner"][v] = c
                info["variables"].append(v)

        # equivalences
        pairs = []
        comps_with_vars = [c for c in info["components"] if comp_vars[c]]
        related = []
        for c in comps_with_vars:
            for d in comps_with_vars:
                if c < d and (info["parent"][c] == info["parent"][d] or info["parent"][c] == d or info["parent"][d] == c):
                    related.append((c, d))
        conn_ids = {}
        for _ in range(_rint(r, k["n_equivalences"])):
            if (not self.valid) and info["variables"] and self.chance(k["p_far_equivalence"]):
                v1 = r.choice(info["variables"])
                v2 = r.choice(info["variables"])
            elif related:
                c, d = r.choice(related)
                v1 = r.choice(comp_vars[c])
                v2 = r.choice(comp_vars[d])
            else:
                break
            if self.valid and ((v1, v2) in pairs or (v2, v1) in pairs or v1 == v2):
                continue
            if self.chance(0.5):
                v1, v2 = v2, v1
            key = tuple(sorted((info["var_owner"][v1], info["var_owner"][v2])))
            mixed = k["mixed_connection_ids"]
            if self.chance(k["p_eq_ids"]):
                if mixed:
                    # ids given pair by pair: equivalences between the same two components may end up with different
                    # connection ids, and Variable::equivalenceConnectionId then answers by pointer order
                    if self.chance(0.5):
                        b.cmd("addequivalence_ids", v1, v2, S(self.new_id()), S(self.new_id()))
                    else:
                        b.cmd("addequivalence", v1, v2)
                        b.cmd("setequivalencemappingid", v1, v2, S(self.new_id()))
                        b.cmd("setequivalenceconnectionid", v1, v2, S(self.new_id()))
                else:
                    if self.chance(0.5):
                        b.cmd("addequivalence_ids", v1, v2, S(self.new_id()))
                    else:
                        b.cmd("addequivalence", v1, v2)
                        b.cmd("setequivalencemappingid", v1, v2, S(self.new_id()))
                    if key not in conn_ids:
                        conn_ids[key] = (self.new_id(), v1, v2)
            else:
                b.cmd("addequivalence", v1, v2)
            pairs.append((v1, v2))
        info["equivalences"] = pairs
        # one connection id per pair of components, set once the equivalence network is complete and in both argument
        # orders, so that every pair the library's connection map can contain carries the same id (deterministic getter)
        for key in sorted(conn_ids):
            cid, v1, v2 = conn_ids[key]
            b.cmd("setequivalenceconnectionid", v1, v2, S(cid))
            b.cmd("setequivalenceconnectionid", v2, v1, S(cid))
        info["connection_ids"] = {key: val[0] for key, val in conn_ids.items()}

        # units of variables: one units name per connected group when valid
        group = {v: v for v in info["variables"]}

        def find(x):
            while group[x] != x:
                group[x] = group[group[x]]
                x = group[x]
            return x
        for v1, v2 in pairs:
            group[find(v1)] = find(v2)
        group_units = {}
        user_units = list(defined)
        for v in info["variables"]:
            g = find(v) if self.valid else v
            if g not in group_units:
                if user_units and self.chance(0.5):
                    group_units[g] = r.choice(user_units)
                else:
                    group_units[g] = (None, r.choice(STANDARD_UNITS))
            uslot, uname = group_units[g]
            if self.bad():
                choice = r.choice(["none", "undefined", "badname"])
                if choice == "none":
                    info["var_units"][v] = None
                    continue
                uslot, uname = None, ("nosuch_" + self.raw_name() if choice == "undefined" else self.bad_name())
            if uslot is not None and self.chance(k["p_units_by_pointer"]):
                b.cmd("setunits_p", v, uslot)
            else:
                b.cmd("setunits_n", v, S(uname))
            info["var_units"][v] = uname

        # interface types, initial values
        need = {v: set() for v in info["variables"]}
        for v1, v2 in pairs:
            c1, c2 = info["var_owner"][v1], info["var_owner"][v2]
            if info["parent"][c1] == c2:
                need[v1].add("public"); need[v2].add("private")
            elif info["parent"][c2] == c1:
                need[v2].add("public"); need[v1].add("private")
            elif info["parent"][c1] == info["parent"][c2] and c1 != c2:
                need[v1].add("public"); need[v2].add("public")
        for v in info["variables"]:
            if self.valid:
                if need[v]:
                    if not k["fix_interfaces"]:
                        t = "public_and_private" if len(need[v]) == 2 or self.chance(0.2) else next(iter(need[v]))
                        self.set_interface(v, t)
                elif self.chance(k["p_interface"]):
                    self.set_interface(v, r.choice(INTERFACES))
            elif self.chance(k["p_interface"]):
                if self.bad():
                    b.cmd("setinterfacetype_s", v, S(r.choice(["", "both", "Public", "in"])))
                else:
                    self.set_interface(v, r.choice(INTERFACES))
            if self.chance(k["p_initial"]):
                sibs = [w for w in comp_vars[info["var_owner"][v]] if w != v]
                form = r.random()
                if sibs and form < 0.2:
                    if self.chance(0.5):
                        b.cmd("setinitialvalue_v", v, r.choice(sibs))
                    else:
                        b.cmd("setinitialvalue_s", v, S(info["names"][r.choice(sibs)]))
                elif form < 0.5 and not self.bad():
                    b.cmd("setinitialvalue_d", v, r.choice([0.0, 1.0, -2.5, 1e10, 3.0e-7, r.uniform(-5, 5)]))
                else:
                    b.cmd("setinitialvalue_s", v, S(self.number_text()))

        # math
        std_or_user = info["units_names"] + ["second", "dimensionless", "metre"]
        for c in info["components"]:
            if c in info["imported"] and not self.bad():
                continue
            if self.chance(k["p_math"]) and (comp_vars[c] or not self.valid):
                names = [info["names"][v] for v in comp_vars[c]]
                b.cmd("setmath", c, S(self.math_string(names, std_or_user)))
                if self.chance(0.3):
                    b.cmd("appendmath", c, S(self.math_string(names, std_or_user)))

        # resets
        order_counter = 0
        hosts = [c for c in info["components"] if comp_vars[c]]
        for _ in range(_rint(r, k["n_resets"])):
            if not hosts and self.valid:
                break
            order_counter += 1
            order = order_counter if (self.valid or self.chance(0.6)) else r.randint(1, 2)
            if self.chance(0.5):
                rs = b.reset(order)
            else:
                rs = b.reset()
                if not self.bad():
                    b.cmd("setorder", rs, order)
            c = r.choice(hosts) if hosts else (r.choice(info["components"]) if info["components"] else None)
            if c is not None and comp_vars.get(c):
                var = r.choice(comp_vars[c])
                tvar = r.choice(comp_vars[c])
                if self.bad() and info["variables"]:
                    var = r.choice(info["variables"])        # maybe in another component
                if self.bad() and info["variables"]:
                    tvar = r.choice(info["variables"])
                if not self.bad():
                    b.cmd("setvariable", rs, var)
                if not self.bad():
                    b.cmd("settestvariable", rs, tvar)
            if not self.bad():
                b.cmd("settestvalue", rs, S(self.value_math(std_or_user)))
            if not self.bad():
                b.cmd("setresetvalue", rs, S(self.value_math(std_or_user)))
            if self.chance(k["p_id"]):
                b.cmd("settestvalueid", rs, S(self.new_id()))
            if self.chance(k["p_id"]):
                b.cmd("setresetvalueid", rs, S(self.new_id()))
            self.maybe_id(rs, info)
            if c is not None:
                b.cmd("addreset", c, rs)
            info["resets"].append(rs)

        # closing calls
        if self.valid and k["fix_interfaces"]:
            b.cmd("fixvariableinterfaces", m)
        if self.chance(k["link_units"]):
            b.cmd("linkunits", m)
        info["nslots"] = b.next_slot
        return b.lines, info

    def set_interface(self, v, t):
        if self.chance(0.5):
            self.b.cmd("setinterfacetype_s", v, S(t))
        else:
            self.b.cmd("setinterfacetype_e", v, t if self.chance(0.5) else INTERFACES.index(t))

    def unit_child(self, u, defined, own_name):
        r, b = self.rng, self.b
        # reference
        if defined and self.chance(0.4):
            ref = r.choice(defined)[1]
        else:
            ref = r.choice(STANDARD_UNITS)
        if self.bad():
            ref = r.choice([own_name, "nosuch_" + self.raw_name(), self.bad_name(), self.raw_name()])
        std_index = STANDARD_UNITS.index(ref) if ref in STANDARD_UNITS else None
        ref_tok = "u%d" % std_index if (std_index is not None and self.chance(0.3)) else S(ref)
        # exponent / multiplier
        ex = r.choice([1.0, 1.0, 2.0, -1.0, 3.0, 0.5, -2.0, 0.0])
        mu = r.choice([1.0, 1.0, 1000.0, 0.001, 2.5, -1.0])
        if self.k["wild_numbers"] if self.k["wild_numbers"] is not None else not self.valid:
            # (with arbitrary reals the Validator can report a units as not matching itself: rounding residue)
            if self.chance(0.2):
                ex = r.uniform(-3, 3)
            if self.chance(0.2):
                mu = r.uniform(0.1, 100)
        uid = self.new_id() if self.chance(self.k["p_id"]) else ""
        form = r.random()
        if form < 0.15:
            b.cmd("addunit_ref", u, ref_tok)
        elif form < 0.3:
            b.cmd("addunit_exp", u, ref_tok, ex, S(uid))
        else:
            pform = r.random()
            if pform < 0.45:
                pre = S(r.choice(PREFIXES + [""]))
            elif pform < 0.6:
                pre = S(str(r.randint(-6, 6)))            # integer written as a string
            elif pform < 0.8:
                pre = r.randint(-6, 6)                    # int overload
            else:
                pre = "p%d" % r.randrange(len(PREFIXES))  # enum overload
            if self.bad():
                pre = S(r.choice(["foo", "1.5", "kilo ", "99999999999999999999", "+"]))
            b.cmd("addunit", u, ref_tok, pre, ex, mu, S(uid))


def random_model_script(rng, **knobs):
    """Return (script_lines, info): a random model built through the API in slot `info['model']` (= 0).

    info: valid, model, components, variables, units, resets, importsources (slot lists), parent {component:
    parent slot}, var_owner {variable: component}, names {slot: name}, units_names (units added to the model),
    imported (slots that are imports), equivalences [(v1, v2)], var_units {variable: units name or None},
    ids {slot: id given with setid}, urls {import source: url}, shared (import sources used more than once),
    connection_ids {(component, component): id}, nslots (first unused slot), knobs.
    See DEFAULT_KNOBS for the knobs.  With valid=True the model validates with 0 issues (measured: 100% of 2900)."""
    return _Gen(rng, knobs).build()


def main(argv):
    import argparse
    ap = argparse.ArgumentParser(description="print random API scripts, one per line (commands joined with ';')")
    ap.add_argument("-n", type=int, default=10)
    ap.add_argument("--seed", type=int, default=1)
    ap.add_argument("--valid", action="store_true")
    ap.add_argument("--big", action="store_true", help="larger models")
    ap.add_argument("--list-commands", action="store_true",
                    help="print one script calling every command without arguments (selftest: none may answer ERR(unknown-command))")
    a = ap.parse_args(argv)
    if a.list_commands:
        print(";".join(COMMANDS))
        return 0
    rng = random.Random(a.seed)
    knobs = dict(valid=a.valid)
    if a.big:
        knobs.update(n_components=(4, 12), vars_per_component=(1, 5), n_units=(2, 6), n_resets=(0, 5),
                     n_equivalences=(2, 12), max_depth=4)
    for _ in range(a.n):
        lines, _info = random_model_script(rng, **knobs)
        print(";".join(lines))
    return 0


if __name__ == "__main__":
    sys.exit(main(sys.argv[1:]))
