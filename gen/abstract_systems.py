"""Abstract equation systems for the analyser checks (C05; reused by C20).

An *abstract system* is exactly what libcellml's Analyser reads from a validated CellML 2.0 model whose units
are all ``dimensionless``.  It is a plain dict (JSON-able)::

    {"comps": [comp, ...],              # in DEPTH-FIRST document order (the order analyseComponent visits them)
     "conns": [[[c1, v1], [c2, v2]], ...],   # map_variables edges between variables (component idx, variable idx)
     "truth": {...}}                    # optional ground truth, see random_system()

    comp = {"parent": None | index of the parent component (encapsulation; always smaller than own index),
            "vars":  [{"name": <name id>, "cls": <class id>, "init": None | "c" | ["r", <name id>]}, ...],
            "eqs":   [{"id": <int>, "lhs": expr, "rhs": expr}, ...]}
    expr = ["V", name] | ["D", tname, xname] | ["N"] | ["O", expr, expr]

* a *class* is a set of variables connected by ``conns`` (one AnalyserInternalVariable per class);
  ``cls`` must agree with the connected components of ``conns`` (``check_classes`` verifies it);
* *name ids* are integers; two variables have the same CellML name iff they have the same name id
  (names are unique inside a component).  ``Naming`` turns ids into identifiers, so a consistent renaming of
  the document is just another ``Naming`` for the same abstract system;
* ``init``: ``"c"`` = a number, ``["r", n]`` = the name of a variable of the same component;
* every equation carries exactly one ``<cn>`` whose value is the equation's ``id`` -- that is how the C++
  driver recognises an AnalyserEquation -- so an ``expr`` may contain at most one ``["N"]`` per equation, and
  ``to_cellml`` fails if an equation has none or several.

Functions
---------
to_model_line(system)            the case line read by ocaml/analysis/driver.ml
to_cellml(system, naming, ...)   CellML 2.0 text
random_system(rng, ...)          a generated system with ground truth
add_same_component_members(...)  several variables of one class in ONE component (A.x ~ B.z ~ A.y), used in equations
faults: ILL_POSED (7 single faults), variant_combination (pairs / triples), decision_table_systems()
variants: permute_equations, permute_variables, permute_components, permute_connections, rename_per_component
class_of(system)                 {(c, v): class id}
"""
import json


OPS = ["plus", "minus", "times"]


def _copy(x):
    """deep copy of a JSON-able value"""
    return json.loads(json.dumps(x))

# ------------------------------------------------------------------------------------------ basics


def class_of(system):
    """{(component index, variable index): class id}"""
    return {(ci, vi): v["cls"] for ci, c in enumerate(system["comps"]) for vi, v in enumerate(c["vars"])}


def check_classes(system):
    """the classes given by 'cls' are the connected components of 'conns' (raises ValueError otherwise)"""
    cls = class_of(system)
    parent = {k: k for k in cls}

    def find(x):
        while parent[x] != x:
            parent[x] = parent[parent[x]]
            x = parent[x]
        return x
    for a, b in system["conns"]:
        a, b = tuple(a), tuple(b)
        if cls[a] != cls[b]:
            raise ValueError("connection between classes %r %r" % (a, b))
        parent[find(a)] = find(b)
    roots = {}
    for k, c in cls.items():
        roots.setdefault(c, set()).add(find(k))
    for c, r in roots.items():
        if len(r) != 1:
            raise ValueError("class %d is not connected" % c)
    for ci, c in enumerate(system["comps"]):
        names = [v["name"] for v in c["vars"]]
        if len(names) != len(set(names)):
            raise ValueError("duplicate name in component %d" % ci)
        if c["parent"] is not None and not (0 <= c["parent"] < ci):
            raise ValueError("components are not in depth-first order")
    return True


def expr_names(e, out=None):
    out = [] if out is None else out
    if e[0] == "V":
        out.append(e[1])
    elif e[0] == "D":
        out.extend([e[1], e[2]])
    elif e[0] == "O":
        expr_names(e[1], out)
        expr_names(e[2], out)
    return out


def count_cn(e):
    return 1 if e[0] == "N" else (count_cn(e[1]) + count_cn(e[2]) if e[0] == "O" else 0)


def _expr_line(e):
    if e[0] == "V":
        return "V %d" % e[1]
    if e[0] == "D":
        return "D %d %d" % (e[1], e[2])
    if e[0] == "N":
        return "N"
    return "O %s %s" % (_expr_line(e[1]), _expr_line(e[2]))


def to_model_line(system):
    """one-line encoding read by ocaml/analysis/driver.ml (see its header)"""
    out = [str(len(system["comps"]))]
    for c in system["comps"]:
        out.append(str(len(c["vars"])))
        for v in c["vars"]:
            i = v["init"]
            out.append("%d %d %s" % (v["name"], v["cls"], "n" if i is None else ("c" if i == "c" else "r%d" % i[1])))
        out.append(str(len(c["eqs"])))
        for q in c["eqs"]:
            out.append("%d %s %s" % (q["id"], _expr_line(q["lhs"]), _expr_line(q["rhs"])))
    return " ".join(out)


# ------------------------------------------------------------------------------------------ naming

class Naming:
    """name id -> CellML identifier, component index -> component name.

    style 'plain': v<id>, c<idx>;  style 'alt': identifiers drawn from a different alphabet, in an order that
    reverses the lexicographic order of 'plain' (so an implementation that sorted by name would be noticed)."""

    def __init__(self, style="plain", salt=0):
        self.style = style
        self.salt = salt

    def var(self, n):
        if self.style == "plain":
            return "v%d" % n
        return "%s_%d" % ("zyxwutsrqponmlkjihgfedcba"[(n + self.salt) % 25], 997 - n)

    def comp(self, i):
        if self.style == "plain":
            return "c%d" % i
        return "K%s%d" % ("QPONM"[(i + self.salt) % 5], 40 - i)


MATH_OPEN = '<math xmlns="http://www.w3.org/1998/Math/MathML" xmlns:cellml="http://www.cellml.org/cellml/2.0#">'


def _expr_xml(e, naming, eid, ops):
    if e[0] == "V":
        return "<ci>%s</ci>" % naming.var(e[1])
    if e[0] == "D":
        return "<apply><diff/><bvar><ci>%s</ci></bvar><ci>%s</ci></apply>" % (naming.var(e[1]), naming.var(e[2]))
    if e[0] == "N":
        return '<cn cellml:units="dimensionless">%d</cn>' % eid
    op = ops[0]
    ops.append(ops.pop(0))
    return "<apply><%s/>%s%s</apply>" % (op, _expr_xml(e[1], naming, eid, ops), _expr_xml(e[2], naming, eid, ops))


def interfaces(system):
    """{(c, v): interface attribute or None} implied by the connections and the encapsulation"""
    need = {}
    comps = system["comps"]
    for a, b in system["conns"]:
        (ca, va), (cb, vb) = a, b
        pa, pb = comps[ca]["parent"], comps[cb]["parent"]
        if pa == pb:                       # siblings (or both at top level)
            need.setdefault((ca, va), set()).add("public")
            need.setdefault((cb, vb), set()).add("public")
        elif pb == ca:                     # a is the parent of b
            need.setdefault((ca, va), set()).add("private")
            need.setdefault((cb, vb), set()).add("public")
        elif pa == cb:
            need.setdefault((cb, vb), set()).add("private")
            need.setdefault((ca, va), set()).add("public")
        else:
            raise ValueError("components %d and %d cannot be connected" % (ca, cb))
    return {k: ("public_and_private" if len(s) == 2 else next(iter(s))) for k, s in need.items()}


def connectable(system, ca, cb):
    comps = system["comps"]
    return ca != cb and (comps[ca]["parent"] == comps[cb]["parent"] or comps[ca]["parent"] == cb or comps[cb]["parent"] == ca)


def to_cellml(system, naming=None, init_value=lambda c, v: "1"):
    """CellML 2.0 text for the abstract system.  Components are written in list order (which is depth-first
    order), the encapsulation lists children in list order, connections in 'conns' order (one <connection> per
    unordered component pair, at the position of its first map_variables)."""
    naming = naming or Naming()
    comps = system["comps"]
    if not in_library_order(system):
        raise ValueError("components are not in the order libcellml will hold them (see library_order)")
    iface = interfaces(system)
    out = ['<?xml version="1.0" encoding="UTF-8"?>', '<model xmlns="http://www.cellml.org/cellml/2.0#" name="m">']
    for ci, c in enumerate(comps):
        out.append('<component name="%s">' % naming.comp(ci))
        for vi, v in enumerate(c["vars"]):
            s = '<variable name="%s" units="dimensionless"' % naming.var(v["name"])
            if v["init"] == "c":
                s += ' initial_value="%s"' % init_value(ci, vi)
            elif v["init"] is not None:
                s += ' initial_value="%s"' % naming.var(v["init"][1])
            if (ci, vi) in iface:
                s += ' interface="%s"' % iface[(ci, vi)]
            out.append(s + "/>")
        if c["eqs"]:
            m = [MATH_OPEN]
            for q in c["eqs"]:
                if count_cn(q["lhs"]) + count_cn(q["rhs"]) != 1:
                    raise ValueError("equation %d must carry exactly one cn" % q["id"])
                ops = OPS[q["id"] % 3:] + OPS[:q["id"] % 3]
                m.append("<apply><eq/>%s%s</apply>" % (_expr_xml(q["lhs"], naming, q["id"], ops), _expr_xml(q["rhs"], naming, q["id"], ops)))
            m.append("</math>")
            out.append("".join(m))
        out.append("</component>")
    pairs = {}
    order = []
    for a, b in system["conns"]:
        (ca, va), (cb, vb) = a, b
        key = (ca, cb) if (cb, ca) not in pairs else (cb, ca)
        if key not in pairs:
            pairs[key] = []
            order.append(key)
        if key == (ca, cb):
            pairs[key].append((va, vb))
        else:
            pairs[key].append((vb, va))
    for key in order:
        out.append('<connection component_1="%s" component_2="%s">' % (naming.comp(key[0]), naming.comp(key[1])))
        for va, vb in pairs[key]:
            out.append('<map_variables variable_1="%s" variable_2="%s"/>' % (
                naming.var(comps[key[0]]["vars"][va]["name"]), naming.var(comps[key[1]]["vars"][vb]["name"])))
        out.append("</connection>")
    kids = {}
    for ci, c in enumerate(comps):
        if c["parent"] is not None:
            kids.setdefault(c["parent"], []).append(ci)
    if kids:
        def ref(ci):
            if ci in kids:
                return '<component_ref component="%s">%s</component_ref>' % (naming.comp(ci), "".join(ref(k) for k in kids[ci]))
            return '<component_ref component="%s"/>' % naming.comp(ci)
        roots = [ci for ci in kids if comps[ci]["parent"] is None]
        out.append("<encapsulation>%s</encapsulation>" % "".join(ref(r) for r in roots))
    out.append("</model>")
    return "\n".join(out) + "\n"


# ------------------------------------------------------------------------------------------ generator

HIERARCHIES = {1: [[None]], 2: [[None, None], [None, 0]],
               3: [[None, None, None], [None, None, 1], [None, 0, 0], [None, 0, 1]]}


class Builder:
    """incremental construction of a system: classes get member variables on demand"""

    def __init__(self, rng, parents, alias_p=0.3, clash_p=0.15):
        self.rng = rng
        self.sys = {"comps": [{"parent": p, "vars": [], "eqs": []} for p in parents], "conns": []}
        self.members = {}          # class -> {comp: var index}
        self.base = {}             # class -> base name id
        self.next_name = 0
        self.next_cls = 0
        self.next_eq = 1001
        self.alias_p = alias_p
        self.clash_p = clash_p

    def new_class(self):
        k = self.next_cls
        self.next_cls += 1
        self.base[k] = self.next_name
        self.next_name += 1
        self.members[k] = {}
        return k

    def _fresh_name(self, ci, k):
        used = {v["name"] for v in self.sys["comps"][ci]["vars"]}
        r = self.rng.random()
        if r < self.clash_p:
            # the base name of another class that has no variable here: equal names in different components
            cands = [self.base[o] for o in self.base if o != k and self.base[o] not in used]
            if cands:
                return self.rng.choice(cands)
        if r < self.clash_p + self.alias_p or self.base[k] in used:
            n = self.next_name
            self.next_name += 1
            return n
        return self.base[k]

    def _path(self, ca, cb):
        """shortest path of components from ca to cb along connectable pairs"""
        n = len(self.sys["comps"])
        prev = {ca: None}
        todo = [ca]
        while todo:
            x = todo.pop(0)
            if x == cb:
                break
            for y in range(n):
                if y not in prev and connectable(self.sys, x, y):
                    prev[y] = x
                    todo.append(y)
        path = [cb]
        while prev[path[-1]] is not None:
            path.append(prev[path[-1]])
        return path[::-1]

    def member(self, k, ci):
        """the variable of class k in component ci (created and connected if needed) -> variable index"""
        m = self.members[k]
        if ci in m:
            return m[ci]
        if not m:
            self._add(k, ci)
            return m[ci]
        # connect to a random existing member through connectable components
        src = self.rng.choice(sorted(m))
        path = self._path(src, ci)
        for a, b in zip(path, path[1:]):
            if b not in m:
                self._add(k, b)
                e = [[a, m[a]], [b, m[b]]]
                self.sys["conns"].append(e if self.rng.random() < 0.5 else e[::-1])
        return m[ci]

    def _add(self, k, ci):
        vs = self.sys["comps"][ci]["vars"]
        vs.append({"name": self._fresh_name(ci, k), "cls": k, "init": None})
        self.members[k][ci] = len(vs) - 1

    def name(self, k, ci):
        return self.sys["comps"][ci]["vars"][self.member(k, ci)]["name"]

    def set_init(self, k, ci=None, init="c"):
        ci = self.rng.choice(sorted(self.members[k])) if ci is None else ci
        self.sys["comps"][ci]["vars"][self.member(k, ci)]["init"] = init
        return ci

    def add_eq(self, ci, lhs, rhs):
        q = {"id": self.next_eq, "lhs": lhs, "rhs": rhs}
        self.next_eq += 1
        self.sys["comps"][ci]["eqs"].append(q)
        return q["id"]

    def sum_expr(self, ci, classes, with_cn=True):
        """nested binary expression over the given classes' local variables (+ the cn)"""
        leaves = [["V", self.name(k, ci)] for k in classes]
        if with_cn:
            leaves.insert(self.rng.randrange(len(leaves) + 1), ["N"])
        e = leaves[-1]
        for l in reversed(leaves[:-1]):
            e = ["O", l, e]
        return e


def random_system(rng, max_classes=8, p_ode=0.6, p_nla=0.35, flat_only=False):
    """A well-posed system with ground truth.

    truth = {"type": expected AnalyserModel type,
             "roles": {class id: 'voi' | 'state' | 'constant' | 'computed_constant' | 'algebraic' | None (not asserted)},
             "definer": {class id: [equation ids]}, "kinds": {class id: generator kind}, "features": [...]}
    """
    ncomp = rng.choice([1, 2, 2, 3, 3])
    parents = [None] * ncomp if flat_only else rng.choice(HIERARCHIES[ncomp])
    b = Builder(rng, parents, alias_p=rng.choice([0.0, 0.3, 0.6]), clash_p=rng.choice([0.0, 0.0, 0.2]))
    ode = rng.random() < p_ode
    nla = rng.random() < p_nla
    roles, definer, kinds = {}, {}, {}
    consts, cconsts, states, algs, nonconst = [], [], [], [], []
    voi = None
    feats = set()
    n = rng.randint(2, max_classes)
    if ode:
        voi = b.new_class()
        roles[voi] = "voi"
        kinds[voi] = "voi"
        nonconst.append(voi)
    plan = []
    for _ in range(n):
        ks = ["const", "const", "cconst", "alg"]
        if ode:
            ks += ["state", "state", "alg"]
        if nla:
            ks += ["nla1", "nlasys"]
        plan.append(rng.choice(ks))
    if ode and "state" not in plan:
        plan[rng.randrange(len(plan))] = "state"
    # states first get their class (so that anything may read them), their ODEs are written at the end
    state_classes = []
    for kind in plan:
        if kind == "state":
            k = b.new_class()
            roles[k] = "state"
            kinds[k] = "state"
            state_classes.append(k)
            nonconst.append(k)
    for kind in plan:
        ci = rng.randrange(ncomp)
        if kind == "state":
            continue
        if kind == "const":
            k = b.new_class()
            b.member(k, ci)
            if consts and rng.random() < 0.2:
                # initialised with the name of another constant of the same component
                o = rng.choice(consts)
                b.set_init(k, ci, ["r", b.name(o, ci)])
                feats.add("init_by_reference")
            else:
                b.set_init(k, ci)
            roles[k] = "constant"
            kinds[k] = "const"
            consts.append(k)
        elif kind == "cconst":
            k = b.new_class()
            deps = rng.sample(consts + cconsts, min(len(consts + cconsts), rng.randint(0, 3)))
            lhs, rhs = ["V", b.name(k, ci)], b.sum_expr(ci, deps)
            if rng.random() < 0.3:
                lhs, rhs = rhs, lhs
                feats.add("isolated_on_rhs")
            definer[k] = [b.add_eq(ci, lhs, rhs)]
            roles[k] = "computed_constant"
            kinds[k] = "cconst"
            cconsts.append(k)
        elif kind == "alg":
            k = b.new_class()
            if not nonconst:
                # nothing non-constant to read: this is a computed constant
                deps = rng.sample(consts + cconsts, min(len(consts + cconsts), rng.randint(0, 2)))
                roles[k] = "computed_constant"
                cconsts.append(k)
            else:
                deps = [rng.choice(nonconst)] + rng.sample(consts + cconsts + nonconst, min(len(consts + cconsts + nonconst), rng.randint(0, 2)))
                deps = list(dict.fromkeys(deps))
                roles[k] = "algebraic"
                nonconst.append(k)
                algs.append(k)
            lhs, rhs = ["V", b.name(k, ci)], b.sum_expr(ci, deps)
            if rng.random() < 0.3:
                lhs, rhs = rhs, lhs
                feats.add("isolated_on_rhs")
            definer[k] = [b.add_eq(ci, lhs, rhs)]
            kinds[k] = "alg"
        elif kind == "nla1":
            # one unknown, not isolated:  k (op) d = f(...)
            k = b.new_class()
            guess = rng.random() < 0.5
            # (an initialised class in an otherwise determined equation is read by the analyser as one more
            #  unknown with an initial guess, so an equation with a guess does not read plain constants)
            pool = (cconsts + nonconst) if guess else (consts + cconsts + nonconst)
            deps = rng.sample(pool, min(len(pool), rng.randint(0, 2)))
            lhs = b.sum_expr(ci, [k] + deps[:1], with_cn=False) if deps[:1] else ["O", ["V", b.name(k, ci)], ["V", b.name(k, ci)]]
            rhs = b.sum_expr(ci, deps[1:])
            definer[k] = [b.add_eq(ci, lhs, rhs)]
            if guess:
                b.set_init(k)
                feats.add("nla_with_guess")
            reads_nonconst = any(d in nonconst for d in deps)
            roles[k] = "algebraic" if (guess or reads_nonconst) else None
            kinds[k] = "nla1"
            nonconst.append(k)
            algs.append(k)
            feats.add("nla_single")
        elif kind == "nlasys":
            # m equations over m unknowns, all with an initial guess, every equation mentions every unknown
            m = rng.choice([2, 2, 3])
            ks = [b.new_class() for _ in range(m)]
            pool = cconsts + nonconst
            ids = []
            for _ in range(m):
                deps = rng.sample(pool, min(len(pool), rng.randint(0, 2)))
                lhs = b.sum_expr(ci, ks, with_cn=False)
                rhs = b.sum_expr(ci, deps)
                ids.append(b.add_eq(ci, lhs, rhs))
            for k in ks:
                b.member(k, ci)
                b.set_init(k)
                roles[k] = "algebraic"
                kinds[k] = "nlasys"
                definer[k] = list(ids)
                nonconst.append(k)
                algs.append(k)
            feats.add("nla_system")
    for k in state_classes:
        ci = rng.randrange(ncomp)
        pool = consts + cconsts + nonconst
        deps = rng.sample(pool, min(len(pool), rng.randint(0, 3)))
        lhs, rhs = ["D", b.name(voi, ci), b.name(k, ci)], b.sum_expr(ci, deps)
        if rng.random() < 0.2:
            lhs, rhs = rhs, lhs
            feats.add("isolated_on_rhs")
        definer[k] = [b.add_eq(ci, lhs, rhs)]
        b.set_init(k)
        states.append(k)
    # extra members so that classes span components
    if ncomp > 1:
        for k in list(b.members):
            if rng.random() < 0.5:
                b.member(k, rng.randrange(ncomp))
    # the initial value may sit on any member
    for k in list(b.members):
        inited = [(ci, vi) for ci, vi in b.members[k].items() if b.sys["comps"][ci]["vars"][vi]["init"] == "c"]
        if inited and rng.random() < 0.5 and len(b.members[k]) > 1:
            ci, vi = inited[0]
            b.sys["comps"][ci]["vars"][vi]["init"] = None
            b.set_init(k)
    s_twins = 0
    if ncomp > 1 and rng.random() < 0.5:
        s_twins = add_same_component_members(rng, b.sys, p=rng.choice([0.3, 0.6]))
        if s_twins:
            feats.add("same_component_members")
    has_nla = any(kinds[k] in ("nla1", "nlasys") for k in kinds)
    has_ode = bool(states)
    typ = ("dae" if has_nla else "ode") if has_ode else ("nla" if has_nla else "algebraic")
    if ode and not has_ode:
        typ = "algebraic" if not has_nla else "nla"
    s = b.sys
    if voi is not None and not any(voi == v["cls"] for c in s["comps"] for v in c["vars"]):
        roles.pop(voi)
    if any(len(ms) > 1 for ms in b.members.values()):
        feats.add("multi_member_class")
    names = {}
    for c in s["comps"]:
        for v in c["vars"]:
            names.setdefault(v["cls"], set()).add(v["name"])
    if any(len(x) > 1 for x in names.values()):
        feats.add("aliased_names")
    byname = {}
    for c in s["comps"]:
        for v in c["vars"]:
            byname.setdefault(v["name"], set()).add(v["cls"])
    if any(len(x) > 1 for x in byname.values()):
        feats.add("name_shared_by_classes")
    if any(c["parent"] is not None for c in s["comps"]):
        feats.add("encapsulation")
    if not parser_safe(s):
        return random_system(rng, max_classes, p_ode, p_nla, flat_only)
    s["truth"] = {"type": typ, "roles": {str(k): r for k, r in roles.items()},
                  "definer": {str(k): v for k, v in definer.items()}, "kinds": {str(k): v for k, v in kinds.items()},
                  "features": sorted(feats), "variant": "base"}
    check_classes(s)
    return s


def _rename_occurrences(e, f):
    if e[0] == "V":
        return ["V", f(e[1])]
    if e[0] == "D":
        return ["D", f(e[1]), f(e[2])]
    if e[0] == "O":
        return ["O", _rename_occurrences(e[1], f), _rename_occurrences(e[2], f)]
    return e


def add_same_component_members(rng, s, p=0.5, rounds=2):
    """Give classes SEVERAL variables in one component, equivalent only indirectly (A.x ~ B.z ~ A.y; CellML cannot
    map two variables of one component to each other): stars and chains of mappings of length >= 3, the new
    variables taking part in equations (each occurrence of a class in an equation may use any of its variables of that
    component) and possibly carrying the initial value.  The classes, hence the analysis expected, are unchanged.
    Works in place; returns the number of variables added."""
    comps = s["comps"]
    added = 0
    nxt = 1 + max([v["name"] for c in comps for v in c["vars"]] + [0])
    for _ in range(rounds):
        members = {}
        for ci, c in enumerate(comps):
            for vi, v in enumerate(c["vars"]):
                members.setdefault(v["cls"], []).append((ci, vi))
        for k, ms in sorted(members.items()):
            if len({ci for ci, _ in ms}) < 2 or rng.random() >= p:
                continue
            ca, va = rng.choice(ms)
            hubs = [(cb, vb) for cb, vb in ms if cb != ca and connectable(s, ca, cb)]
            if not hubs:
                continue
            cb, vb = rng.choice(hubs)
            comps[ca]["vars"].append({"name": nxt, "cls": k, "init": None})   # (permute_variables moves it around)
            pos = len(comps[ca]["vars"]) - 1
            nxt += 1
            e = [[ca, pos], [cb, vb]]
            s["conns"].insert(rng.randrange(len(s["conns"]) + 1), e if rng.random() < 0.5 else e[::-1])
            added += 1
            # the initial value may move to the new variable
            inited = [v for v in comps[ca]["vars"] if v["cls"] == k and v["init"] == "c"]
            if inited and rng.random() < 0.3:
                inited[0]["init"] = None
                comps[ca]["vars"][pos]["init"] = "c"
    if added:
        for c in comps:
            by_cls = {}
            cls_of_name = {}
            for v in c["vars"]:
                by_cls.setdefault(v["cls"], []).append(v["name"])
                cls_of_name[v["name"]] = v["cls"]

            def pick(n):
                alts = by_cls[cls_of_name[n]]
                return rng.choice(alts) if len(alts) > 1 and rng.random() < 0.5 else n
            for q in c["eqs"]:
                q["lhs"], q["rhs"] = _rename_occurrences(q["lhs"], pick), _rename_occurrences(q["rhs"], pick)
    return added


# ------------------------------------------------------------------------------------------ ill-posed variants

def _eq_positions(s):
    return [(ci, qi) for ci, c in enumerate(s["comps"]) for qi in range(len(c["eqs"]))]


def variant_extra_equation(rng, s):
    """a second defining equation for a class that already has one -> over-constrained"""
    s = _copy(s)
    pos = _eq_positions(s)
    if not pos:
        return None
    ci, qi = rng.choice(pos)
    q = _copy(s["comps"][ci]["eqs"][qi])
    q["id"] = 1 + max(e["id"] for c in s["comps"] for e in c["eqs"])
    s["comps"][ci]["eqs"].insert(rng.randrange(len(s["comps"][ci]["eqs"]) + 1), q)
    s["truth"] = dict(s["truth"], variant="extra_equation", type="overconstrained", added=q["id"])
    return s


def variant_missing_equation(rng, s):
    """drop one equation -> some class is never computed -> under-constrained"""
    s = _copy(s)
    pos = _eq_positions(s)
    if not pos:
        return None
    ci, qi = rng.choice(pos)
    q = s["comps"][ci]["eqs"].pop(qi)
    s["truth"] = dict(s["truth"], variant="missing_equation", type="underconstrained", dropped=q["id"])
    return s


def variant_uninitialised_state(rng, s):
    """remove the initial value of a state -> 'used in an ODE, but not initialised'"""
    s = _copy(s)
    st = [int(k) for k, r in s["truth"]["roles"].items() if r == "state"]
    if not st:
        return None
    k = rng.choice(st)
    for c in s["comps"]:
        for v in c["vars"]:
            if v["cls"] == k:
                v["init"] = None
    s["truth"] = dict(s["truth"], variant="uninitialised_state", type="underconstrained", state=k)
    return s


def variant_double_init(rng, s):
    """two variables of one class both initialised -> invalid"""
    s = _copy(s)
    cands = []
    for ci, c in enumerate(s["comps"]):
        for vi, v in enumerate(c["vars"]):
            if v["init"] is None and any(w["cls"] == v["cls"] and w["init"] is not None for d in s["comps"] for w in d["vars"]):
                cands.append((ci, vi))
    if not cands:
        return None
    ci, vi = rng.choice(cands)
    s["comps"][ci]["vars"][vi]["init"] = "c"
    s["truth"] = dict(s["truth"], variant="double_init", type="invalid")
    return s


def variant_initialised_voi(rng, s):
    s = _copy(s)
    v = [int(k) for k, r in s["truth"]["roles"].items() if r == "voi"]
    if not v or s["truth"]["type"] not in ("ode", "dae"):
        return None
    ms = [(ci, vi) for (ci, vi), k in class_of(s).items() if k == v[0]]
    ci, vi = rng.choice(ms)
    s["comps"][ci]["vars"][vi]["init"] = "c"
    s["truth"] = dict(s["truth"], variant="initialised_voi", type="invalid")
    return s


def _fresh(s):
    names = [v["name"] for c in s["comps"] for v in c["vars"]]
    classes = [v["cls"] for c in s["comps"] for v in c["vars"]]
    ids = [q["id"] for c in s["comps"] for q in c["eqs"]]
    return 1 + max(names + [0]), 1 + max(classes + [0]), 1 + max(ids + [1000])


def variant_nonconstant_init(rng, s):
    """a variable initialised with the name of a variable (of its component) whose class has no initial value
    -> 'initialised using variable ..., which is not a constant' -> invalid"""
    s = _copy(s)
    inited = {v["cls"] for c in s["comps"] for v in c["vars"] if v["init"] is not None}
    cands = []
    for ci, c in enumerate(s["comps"]):
        plain = [v["name"] for v in c["vars"] if v["cls"] not in inited]
        for vi, v in enumerate(c["vars"]):
            if v["init"] == "c" and plain:
                cands.append((ci, vi, plain))
    if not cands:
        return None
    ci, vi, plain = rng.choice(cands)
    s["comps"][ci]["vars"][vi]["init"] = ["r", rng.choice(plain)]
    s["truth"] = dict(s["truth"], variant="nonconstant_init", type="invalid")
    return s


def variant_two_vois(rng, s):
    """a second variable of integration: d q / d t2 = cn with fresh classes q (initialised), t2 in a component that
    already holds an ODE -> 'cannot both be the variable of integration' -> invalid"""
    s = _copy(s)

    def has_diff(e):
        return e[0] == "D" or (e[0] == "O" and (has_diff(e[1]) or has_diff(e[2])))
    cands = [ci for ci, c in enumerate(s["comps"]) if any(has_diff(q["lhs"]) or has_diff(q["rhs"]) for q in c["eqs"])]
    if not cands:
        return None
    ci = rng.choice(cands)
    n, k, i = _fresh(s)
    c = s["comps"][ci]
    c["vars"].append({"name": n, "cls": k, "init": "c"})
    c["vars"].append({"name": n + 1, "cls": k + 1, "init": None})
    c["eqs"].insert(rng.randrange(len(c["eqs"]) + 1), {"id": i, "lhs": ["D", n + 1, n], "rhs": ["N"]})
    s["truth"] = dict(s["truth"], variant="two_vois", type="invalid")
    return s


ILL_POSED = [variant_extra_equation, variant_missing_equation, variant_uninitialised_state, variant_double_init,
             variant_initialised_voi, variant_nonconstant_init, variant_two_vois]


def variant_combination(rng, s, faults):
    """several faults at once (each function of ILL_POSED applied to the result of the previous one); faults that do
    not apply are skipped.  truth['variant'] = 'combo', truth['faults'] = names of the faults applied; nothing is
    asserted from the generator's side beyond what each listing's issues imply (checks/c05.py: decision table)."""
    applied = []
    cur = s
    for f in faults:
        nxt = f(rng, cur)
        if nxt is not None:
            cur = nxt
            applied.append(f.__name__[len("variant_"):])
    if len(applied) < 2:
        return None
    cur["truth"] = dict(cur["truth"], variant="combo", type=None, faults=applied)
    return cur


def decision_table_systems():
    """Eight one-component systems, one for each combination of {a variable of unknown type, a state that is not
    initialised, an over-constrained variable}, for AnalyserModel::Type's decision table:
      U: 'a = u + cn' with u never computed;  S: 'd s/d t = cn' with s not initialised;  O: 'o = cn' twice.
    (Every system also holds 'd z/d t = cn' with z initialised so that the voi exists in all of them.)"""
    out = []
    for bits in range(8):
        hu, hs, ho = bits & 1, (bits >> 1) & 1, (bits >> 2) & 1
        vs = [{"name": 0, "cls": 0, "init": None}, {"name": 1, "cls": 1, "init": "c"}]      # t, z
        eqs = [{"id": 1001, "lhs": ["D", 0, 1], "rhs": ["N"]}]
        n, i = 2, 1002
        if hu:
            vs += [{"name": n, "cls": n, "init": None}, {"name": n + 1, "cls": n + 1, "init": None}]
            eqs.append({"id": i, "lhs": ["V", n], "rhs": ["O", ["V", n + 1], ["N"]]})
            n, i = n + 2, i + 1
        if hs:
            vs.append({"name": n, "cls": n, "init": None})
            eqs.append({"id": i, "lhs": ["D", 0, n], "rhs": ["N"]})
            n, i = n + 1, i + 1
        if ho:
            vs.append({"name": n, "cls": n, "init": None})
            eqs += [{"id": i, "lhs": ["V", n], "rhs": ["N"]}, {"id": i + 1, "lhs": ["V", n], "rhs": ["N"]}]
        under = hu or hs
        typ = ("unsuitably_constrained" if ho else "underconstrained") if under else ("overconstrained" if ho else "ode")
        out.append({"comps": [{"parent": None, "vars": vs, "eqs": eqs}], "conns": [],
                    "truth": {"type": typ, "roles": {}, "definer": {}, "kinds": {}, "features": ["decision_table"],
                              "variant": "table", "cell": [hu, hs, ho]}})
    return out

# ------------------------------------------------------------------------------------------ re-orderings


def _remap_conns(s, f):
    s["conns"] = [[list(f(tuple(a))), list(f(tuple(b)))] for a, b in s["conns"]]


def permute_equations(rng, s):
    """shuffle the equations inside every component's math"""
    s = _copy(s)
    for c in s["comps"]:
        rng.shuffle(c["eqs"])
    return s


def permute_variables(rng, s):
    """shuffle the variables inside every component"""
    s = _copy(s)
    maps = {}
    for ci, c in enumerate(s["comps"]):
        idx = list(range(len(c["vars"])))
        rng.shuffle(idx)
        c["vars"] = [c["vars"][i] for i in idx]
        for new, old in enumerate(idx):
            maps[(ci, old)] = (ci, new)
    _remap_conns(s, lambda r: maps[r])
    return s


def _reorder_components(s, order):
    """components listed in the given order of old indices (must again be depth-first); connections follow"""
    comps = s["comps"]
    newidx = {old: new for new, old in enumerate(order)}
    s["comps"] = [comps[old] for old in order]
    for c in s["comps"]:
        if c["parent"] is not None:
            c["parent"] = newidx[c["parent"]]
    _remap_conns(s, lambda r: (newidx[r[0]], r[1]))
    return s


def library_order(s, rng=None):
    """The order in which libcellml holds the components after parsing: the parser re-adds every encapsulation
    root (Model::addComponent moves it to the end), so top-level components without children come first (in
    document order), then the encapsulation roots with their subtrees.  With rng: siblings are shuffled first."""
    s = _copy(s)
    kids = {}
    for ci, c in enumerate(s["comps"]):
        kids.setdefault(c["parent"], []).append(ci)
    order = []

    def visit(ci):
        order.append(ci)
        ks = list(kids.get(ci, []))
        if rng is not None:
            rng.shuffle(ks)
        for k in ks:
            visit(k)
    roots = list(kids.get(None, []))
    if rng is not None:
        rng.shuffle(roots)
    for r in [r for r in roots if r not in kids] + [r for r in roots if r in kids]:
        visit(r)
    return _reorder_components(s, order)


def in_library_order(s):
    kids = {c["parent"] for c in s["comps"] if c["parent"] is not None}
    roots = [ci for ci, c in enumerate(s["comps"]) if c["parent"] is None]
    flags = [r in kids for r in roots]
    return flags == sorted(flags)


def permute_components(rng, s):
    """shuffle sibling components (the result is again in depth-first, library order)"""
    return library_order(s, rng)


def permute_connections(rng, s):
    """shuffle the map_variables and flip their direction"""
    s = _copy(s)
    rng.shuffle(s["conns"])
    s["conns"] = [c if rng.random() < 0.5 else c[::-1] for c in s["conns"]]
    return s


def rename_per_component(rng, s, p=0.5):
    """rename variables component by component (references in equations and initial values follow):
    afterwards names that were equal across components may differ and vice versa; inside a component names stay
    unique.  This is a 'consistent renaming' of the CellML document."""
    s = _copy(s)
    top = 1 + max([v["name"] for c in s["comps"] for v in c["vars"]] + [0])
    pool = list(range(top + 6))
    for c in s["comps"]:
        olds = [v["name"] for v in c["vars"]]
        if rng.random() < p:
            news = rng.sample(pool, len(olds))
        else:
            news = olds
        m = dict(zip(olds, news))

        def ren(e):
            if e[0] == "V":
                return ["V", m[e[1]]]
            if e[0] == "D":
                return ["D", m[e[1]], m[e[2]]]
            if e[0] == "O":
                return ["O", ren(e[1]), ren(e[2])]
            return e
        for v in c["vars"]:
            v["name"] = m[v["name"]]
            if isinstance(v["init"], list):
                v["init"] = ["r", m[v["init"][1]]]
        for q in c["eqs"]:
            q["lhs"], q["rhs"] = ren(q["lhs"]), ren(q["rhs"])
    return s


def reorder(rng, s):
    """one random re-ordering of everything the property mentions (components, variables, equations, connections)"""
    return permute_connections(rng, permute_variables(rng, permute_equations(rng, permute_components(rng, s))))


def parser_safe(s):
    """libcellml's Parser reports 'Connection ... is not unique' when one <connection> maps a~b and b~a by NAME
    (two different variable pairs whose names are swapped); such documents are not generated."""
    seen = {}
    for a, b in s["conns"]:
        (ca, va), (cb, vb) = a, b
        na, nb = s["comps"][ca]["vars"][va]["name"], s["comps"][cb]["vars"][vb]["name"]
        key = frozenset([ca, cb])
        pair = frozenset([na, nb])
        if pair in seen.setdefault(key, set()):
            return False
        seen[key].add(pair)
    return True


def isolated_closure(s):
    """The analyser's first pass, structurally: repeatedly take an equation all of whose classes but one are
    known (initialised, variable of integration, or already computed; a state counts as known but its ODE still
    has to be found) and in which that one is alone on a side of the equality (as a variable, or under diff for
    a state) *under the name its class's tracked variable has* -- the tracked variable being the first one met
    (equations of a component first, then its variables, components in depth-first order) or the initialised
    one.  Returns (set of equation ids typed, set of classes computed).  A system all of whose equations are
    typed this way never enters the analyser's NLA pass with a choice to make."""
    comps = s["comps"]
    # tracked variable (name) of each class, as analyseComponent builds it
    tracked = {}
    inited = set()

    def meet(ci, vi):
        v = comps[ci]["vars"][vi]
        if v["cls"] not in tracked:
            tracked[v["cls"]] = v["name"]
            if v["init"] is not None:
                inited.add(v["cls"])

    def occurrences(e, out):
        if e[0] == "V":
            out.append(("v", e[1]))
        elif e[0] == "D":
            out.append(("d", e[2]))
            out.append(("t", e[1]))
        elif e[0] == "O":
            occurrences(e[1], out)
            occurrences(e[2], out)
        return out
    eqs = []
    for ci, c in enumerate(comps):
        byname = {v["name"]: vi for vi, v in enumerate(c["vars"])}
        for q in c["eqs"]:
            occ = occurrences(q["lhs"], []) + occurrences(q["rhs"], [])
            for kind, n in occ:
                if kind != "t":
                    meet(ci, byname[n])
            eqs.append((ci, q, occ, byname))
        for vi, v in enumerate(c["vars"]):
            meet(ci, vi)
            if v["init"] is not None and v["cls"] not in inited:
                tracked[v["cls"]] = v["name"]
                inited.add(v["cls"])
    cls = {(ci, v["name"]): v["cls"] for ci, c in enumerate(comps) for v in c["vars"]}
    voi = {cls[(ci, n)] for ci, q, occ, _ in eqs for kind, n in occ if kind == "t"}
    states = {cls[(ci, n)] for ci, q, occ, _ in eqs for kind, n in occ if kind == "d"} - voi
    known = set(inited) | voi | states
    indexed = set()
    typed, computed = set(), set()
    progress = True
    while progress:
        progress = False
        for ci, q, occ, byname in eqs:
            if q["id"] in typed:
                continue
            plain = list(dict.fromkeys(cls[(ci, n)] for kind, n in occ if kind == "v"))
            odes = list(dict.fromkeys(cls[(ci, n)] for kind, n in occ if kind == "d"))
            left = [k for k in plain if k not in known] + [k for k in odes if k not in indexed]
            if len(left) != 1:
                continue
            k = left[0]
            if k in voi or (k in states and k not in inited):
                continue

            def alone(side):
                return (side[0] == "V" and side[1] == tracked[k]) or (side[0] == "D" and side[2] == tracked[k])
            if not (alone(q["lhs"]) or alone(q["rhs"])):
                continue
            typed.add(q["id"])
            computed.add(k)
            known.add(k)
            indexed.add(k)
            tracked[k] = next(v["name"] for v in comps[ci]["vars"] if v["cls"] == k)
            progress = True
    return typed, computed


def first_pass_complete(s):
    """every equation is typed by isolated_closure"""
    typed, _ = isolated_closure(s)
    return all(q["id"] in typed for c in s["comps"] for q in c["eqs"])


def nontrivial(s):
    """>= 2 equations and (a class with >= 2 member variables, or an ODE, or a non-isolated equation)"""
    neq = sum(len(c["eqs"]) for c in s["comps"])
    counts = {}
    for c in s["comps"]:
        for v in c["vars"]:
            counts[v["cls"]] = counts.get(v["cls"], 0) + 1
    multi = any(n >= 2 for n in counts.values())

    def has_diff(e):
        return e[0] == "D" or (e[0] == "O" and (has_diff(e[1]) or has_diff(e[2])))
    ode = any(has_diff(q["lhs"]) or has_diff(q["rhs"]) for c in s["comps"] for q in c["eqs"])
    nla = any(q["lhs"][0] not in ("V", "D") and q["rhs"][0] not in ("V", "D") for c in s["comps"] for q in c["eqs"])
    return neq >= 2 and (multi or ode or nla)
