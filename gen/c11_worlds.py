"""c11_worlds.py -- random object worlds for the C11 (clone) check.

A world is a set of libcellml objects, each created EXPLICITLY in its own slot (slot number = the model's oid):
import sources, models (units, component trees with variables, resets, imports, encapsulation ids), lone
components / units / variables / resets, variables' Units objects (private by-name objects, linked model units,
foreign units), reset references (own component / other component / parent-less variable), equivalences with
mapping and connection ids between siblings, parent and child, across models, to variables of lone components
and to parent-less variables.

    w = World(rng, **knobs)
    w.script()            -> list of script.hpp command lines creating the world in slots 0..w.n0-1
    w.idump(obj)          -> identity dump of obj (the text harness/c11_driver.cpp prints for the original)
    w.objects             -> all objects (targets of clone)
    sexp helpers          -> parse(), canon_labels(), content(), mutation generation
"""
import random
import re
import sys
import os

sys.path.insert(0, os.path.dirname(os.path.abspath(__file__)))
from script_gen import S  # noqa: E402

NAMES = ["a", "b", "c", "u", "v", "x", "y", "metre", "second", "né", 'q"t', "long_name_1"]
# unit references: standard unit names or names no units of a world carries (a units that refers to itself or to a
# cycle sends Model::hasImports() -- called by the Printer -- into unbounded recursion: finding K3 of C01, not clone's)
REFS = ["metre", "second", "kilogram", "r_a", "r_b", "r\u00e9f"]
IDS = ["", "", "", "id1", "id2", "b4da55", "i\"d", "x"]
MATHS = ["", "", "<math xmlns=\"http://www.w3.org/1998/Math/MathML\"><apply><eq/><ci>x</ci><cn cellml:units=\"u\">1</cn></apply></math>",
         "<math/>", "not xml"]
IFACES = ["", "public", "private", "public_and_private", "none", "other"]
INITS = ["", "1", "-2.5e3", "x", "1e", "0.0"]
PREFIXES = ["", "", "milli", "kilo", "3", "-2", "0", "+0", "-00", "000", "99999999999999999999", "junk"]
FLOATS = [1.0, 1.0, 2.0, -1.0, 0.5, 3.0, 1e-3, 1000.0, -2.5, 0.1, 1e300, 0.0]
URLS = ["", "a.cellml", "dir/b.cellml", "http://x/y?z=1", "a.cellml"]
ORDERS = [0, 1, 2, -1, 7, 2147483647, -2147483648]


def fl(x):
    return "%.17g" % x


def hx(s):
    return S(s)


class Obj:
    kind = "?"

    def __init__(self, w):
        self.w = w
        self.slot = len(w.objects)
        w.objects.append(self)

    @property
    def lab(self):
        return "@%d" % self.slot


def lab(o):
    return "-" if o is None else o.lab


class Isrc(Obj):
    kind = "i"

    def __init__(self, w, url="", id=""):
        super().__init__(w)
        self.url, self.id, self.model = url, id, None


class Units(Obj):
    kind = "u"

    def __init__(self, w, name=""):
        super().__init__(w)
        self.name, self.id, self.imp, self.impref, self.defs, self.parent = name, "", None, "", [], None


class Var(Obj):
    kind = "v"

    def __init__(self, w, name=""):
        super().__init__(w)
        self.name, self.id, self.init, self.iface, self.units, self.parent, self.eqs = name, "", "", "", None, None, []


class Reset(Obj):
    kind = "r"

    def __init__(self, w):
        super().__init__(w)
        self.id, self.order, self.oset, self.var, self.test = "", 0, False, None, None
        self.tv = self.tvid = self.rv = self.rvid = ""
        self.parent = None


class Comp(Obj):
    kind = "c"

    def __init__(self, w, name=""):
        super().__init__(w)
        self.name, self.id, self.encid, self.math, self.imp, self.impref = name, "", "", "", None, ""
        self.vars, self.resets, self.kids, self.parent = [], [], [], None


class Model(Obj):
    kind = "m"

    def __init__(self, w, name=""):
        super().__init__(w)
        self.name, self.id, self.encid, self.units, self.comps = name, "", "", [], []


def norm_prefix(p):
    """Units::addUnit: an integer prefix with value 0 is dropped"""
    if re.fullmatch(r"[+-]?[0-9]+", p):
        try:
            v = int(p)
        except ValueError:
            return p
        if -2**31 <= v < 2**31:
            return "" if v == 0 else p
        return p          # std::out_of_range: kept
    return p


class World:
    def __init__(self, rng, max_models=2, depth=3, ext_eq=True, size=1.0):
        self.rng = rng
        self.objects = []
        self.lines = []
        self.eq_calls = []          # (v1, v2, mapid or None, connid)
        self.conn_ids = {}          # frozenset(comp slots) -> connection id in use
        self.conn_uniform = True
        self.size = size
        self.ext_eq = ext_eq
        self.depth = depth
        r = rng
        self.isrcs = [self.mk_isrc() for _ in range(r.choice([0, 1, 1, 2, 3]))]
        self.models = [self.mk_model() for _ in range(r.choice([1, 1, 1, 2][:max_models + 2]) if max_models > 1 else 1)]
        self.lone_comps = [self.mk_comp(None, 1) for _ in range(r.choice([0, 0, 1, 1, 2]))]
        self.lone_units = [self.mk_units() for _ in range(r.choice([0, 1, 1, 2]))]
        self.lone_vars = [self.mk_var() for _ in range(r.choice([0, 1, 2]))]
        self.lone_resets = [self.mk_reset() for _ in range(r.choice([0, 1, 1]))]
        for i in self.isrcs:                      # weak link import source -> model
            if r.random() < 0.3:
                i.model = r.choice(self.models)
        self.assign_var_units()
        self.assign_reset_vars()
        self.make_equivalences()
        self.n0 = len(self.objects)

    # ---- construction of the python mirror
    def s(self, pool):
        return self.rng.choice(pool)

    def mk_isrc(self):
        return Isrc(self, self.s(URLS), self.s(IDS))

    def maybe_import(self, e):
        r = self.rng
        if self.isrcs and r.random() < 0.3:
            e.imp = r.choice(self.isrcs)
            e.impref = self.s(NAMES)
        elif r.random() < 0.05:
            e.impref = self.s(NAMES)          # reference without a source
        elif r.random() < 0.07:
            e.imp = self.mk_isrc()             # a source of its own, created later than self.isrcs
            e.impref = self.s(NAMES)

    def mk_units(self, name=None):
        r = self.rng
        u = Units(self, name if name is not None else self.s(NAMES))
        u.id = self.s(IDS)
        self.maybe_import(u)
        for _ in range(r.choice([0, 0, 1, 1, 2, 3])):
            u.defs.append((self.s(REFS), norm_prefix(self.s(PREFIXES)), self.s(FLOATS), self.s(FLOATS), self.s(IDS)))
        return u

    def mk_var(self):
        v = Var(self, self.s(NAMES))
        v.id, v.init, v.iface = self.s(IDS), self.s(INITS), self.s(IFACES)
        return v

    def mk_reset(self):
        r = self.rng
        x = Reset(self)
        x.id = self.s(IDS)
        if r.random() < 0.6:
            x.oset, x.order = True, self.s(ORDERS)
        x.tv, x.tvid, x.rv, x.rvid = self.s(MATHS), self.s(IDS), self.s(MATHS), self.s(IDS)
        return x

    def mk_comp(self, parent, level):
        r = self.rng
        c = Comp(self, self.s(NAMES))
        c.parent = parent
        c.id, c.math = self.s(IDS), self.s(MATHS)
        c.encid = self.s(IDS) if r.random() < 0.6 else ""
        self.maybe_import(c)
        for _ in range(r.choice([0, 1, 2, 2, 3, 4])):
            v = self.mk_var()
            v.parent = c
            c.vars.append(v)
        for _ in range(r.choice([0, 0, 1, 1, 2, 3])):
            x = self.mk_reset()
            x.parent = c
            c.resets.append(x)
        if level < self.depth:
            for _ in range(r.choice([0, 0, 1, 1, 2, 3] if level < 2 else [0, 0, 0, 1, 2])):
                c.kids.append(self.mk_comp(c, level + 1))
        return c

    def mk_model(self):
        r = self.rng
        m = Model(self, self.s(NAMES))
        m.id = self.s(IDS)
        m.encid = self.s(IDS)
        for _ in range(r.choice([0, 1, 2, 2, 3, 4])):
            u = self.mk_units()
            u.parent = m
            m.units.append(u)
        for _ in range(r.choice([0, 1, 1, 2, 2, 3])):
            m.comps.append(self.mk_comp(m, 1))
        return m

    def comps_of(self, root):
        out = []

        def go(c):
            out.append(c)
            for k in c.kids:
                go(k)
        for c in (root.comps if isinstance(root, Model) else [root]):
            go(c)
        return out

    def all_comps(self):
        out = []
        for m in self.models:
            out += self.comps_of(m)
        for c in self.lone_comps:
            out += self.comps_of(c)
        return out

    def all_vars(self):
        out = []
        for c in self.all_comps():
            out += c.vars
        return out + self.lone_vars

    def root_of(self, c):
        while c is not None and not isinstance(c, Model) and c.parent is not None:
            c = c.parent
        return c

    def assign_var_units(self):
        r = self.rng
        all_units = [u for m in self.models for u in m.units] + self.lone_units
        for v in self.all_vars():
            k = r.random()
            root = self.root_of(v.parent) if v.parent is not None else None
            own = root.units if isinstance(root, Model) else []
            if k < 0.15:
                v.units = None
            elif k < 0.40 and own:
                v.units = r.choice(own)                       # linked
            elif k < 0.60 and own:
                v.units = Units(self, r.choice(own).name)       # by name, a model units of that name exists
            elif k < 0.75:
                v.units = Units(self, self.s(NAMES))            # by name
            elif k < 0.85 and all_units:
                v.units = r.choice(all_units)                   # any units object (foreign / lone / linked)
            else:
                v.units = self.mk_units()                       # private object with content
        # (Units objects created here come after the entities in slot order: harmless)

    def assign_reset_vars(self):
        r = self.rng
        comps = self.all_comps()
        resets = [(c, x) for c in comps for x in c.resets] + [(None, x) for x in self.lone_resets]
        allv = self.all_vars()
        for c, x in resets:
            for field in ("var", "test"):
                k = r.random()
                if k < 0.15 or not allv:
                    continue
                if k < 0.70 and c is not None and c.vars:
                    setattr(x, field, r.choice(c.vars))
                elif k < 0.85:
                    setattr(x, field, r.choice(allv))           # other component / lone variable
                elif self.lone_vars:
                    setattr(x, field, r.choice(self.lone_vars))
                else:
                    nv = self.mk_var()                           # parent-less variable of its own
                    self.extra_vars = getattr(self, "extra_vars", []) + [nv]
                    setattr(x, field, nv)

    def add_eq(self, a, b, mapid=None, connid=None):
        if a is b:
            return
        if not any(e[0] is b for e in a.eqs):
            a.eqs.append([b, "", ""])
        if not any(e[0] is a for e in b.eqs):
            b.eqs.append([a, "", ""])
        if mapid is not None:
            for x, y in ((a, b), (b, a)):
                for e in x.eqs:
                    if e[0] is y:
                        e[1], e[2] = mapid, connid
        self.eq_calls.append((a, b, mapid, connid))

    def make_equivalences(self):
        """plan all equivalences first (in-model pairs and pairs with a variable of another model / of a lone
        component / without parent), then make them in RANDOM order: the equivalence list of a variable is an arbitrary
        interleaving of in-model and out-of-model targets (out-of-model first / middle / last, on either end of a pair)"""
        r = self.rng
        plans = []            # (a, b, with_ids)
        for m in self.models:
            vs = [v for c in self.comps_of(m) for v in c.vars]
            if len(vs) < 2:
                continue
            for _ in range(r.choice([0, 1, 2, 3, 4, 6])):
                a = r.choice(vs)
                k = r.random()
                pa = a.parent
                near = []
                if isinstance(pa.parent, Comp):
                    near += pa.parent.vars + [v for s_ in pa.parent.kids if s_ is not pa for v in s_.vars]
                elif isinstance(pa.parent, Model):
                    near += [v for s_ in pa.parent.comps if s_ is not pa for v in s_.vars]
                for kid in pa.kids:
                    near += kid.vars
                b = r.choice(near) if (near and k < 0.7) else r.choice(vs)
                if a is not b:
                    plans.append((a, b, r.random() < 0.7))
        if self.ext_eq and r.random() < 0.4:
            inner = [v for m in self.models for c in self.comps_of(m) for v in c.vars]
            connected = [x for (a, b, _) in plans for x in (a, b)]
            for _ in range(r.choice([1, 1, 2, 3, 4])):
                # an outside partner for (preferably) a variable that also has in-model equivalences
                a = r.choice(connected) if (connected and r.random() < 0.7) else (r.choice(inner) if inner else None)
                if a is None:
                    break
                own = self.root_of(a.parent)
                outer = list(self.lone_vars) + [v for c in self.lone_comps for k in self.comps_of(c) for v in k.vars]
                outer += [v for m in self.models if m is not own for c in self.comps_of(m) for v in c.vars]
                if not outer:
                    break
                b = r.choice(outer)
                plans.append((a, b, r.random() < 0.5) if r.random() < 0.5 else (b, a, r.random() < 0.5))
        r.shuffle(plans)
        for (a, b, with_ids) in plans:
            internal = a.parent is not None and b.parent is not None and self.root_of(a.parent) is self.root_of(b.parent) \
                and isinstance(self.root_of(a.parent), Model)
            if not internal:
                self.conn_uniform = False
                if with_ids:
                    self.add_eq(a, b, self.s(IDS), self.s(IDS))
                else:
                    self.add_eq(a, b)
                continue
            key = frozenset((a.parent.slot, b.parent.slot))
            if with_ids:
                if key in self.conn_ids and r.random() < 0.9:
                    conn = self.conn_ids[key]
                else:
                    conn = self.s(IDS)
                    if key in self.conn_ids and self.conn_ids[key] != conn:
                        self.conn_uniform = False
                    self.conn_ids.setdefault(key, conn)
                self.add_eq(a, b, self.s(IDS), conn)
            else:
                if key in self.conn_ids and self.conn_ids[key] != "":
                    self.conn_uniform = False
                self.conn_ids.setdefault(key, "")
                self.add_eq(a, b)

    # ---- script
    def script(self):
        L = []
        add = L.append
        for o in self.objects:
            t = o.slot
            if o.kind == "i":
                add("importsource %d" % t)
                add("seturl %d %s" % (t, hx(o.url)))
                add("setid %d %s" % (t, hx(o.id)))
            elif o.kind == "u":
                add("units %d %s" % (t, hx(o.name)))
                add("setid %d %s" % (t, hx(o.id)))
                for (ref, pre, ex, mu, id_) in o.defs:
                    add("addunit %d %s %s %s %s %s" % (t, hx(ref), hx(pre), repr(ex), repr(mu), hx(id_)))
            elif o.kind == "v":
                add("variable %d %s" % (t, hx(o.name)))
                add("setid %d %s" % (t, hx(o.id)))
                add("setinitialvalue_s %d %s" % (t, hx(o.init)))
                add("setinterfacetype_s %d %s" % (t, hx(o.iface)))
            elif o.kind == "r":
                add("reset %d" % t)
                if o.oset:
                    add("setorder %d %d" % (t, o.order))
                add("setid %d %s" % (t, hx(o.id)))
                add("settestvalue %d %s" % (t, hx(o.tv)))
                add("settestvalueid %d %s" % (t, hx(o.tvid)))
                add("setresetvalue %d %s" % (t, hx(o.rv)))
                add("setresetvalueid %d %s" % (t, hx(o.rvid)))
            elif o.kind == "c":
                add("component %d %s" % (t, hx(o.name)))
                add("setid %d %s" % (t, hx(o.id)))
                add("setencapsulationid %d %s" % (t, hx(o.encid)))
                add("setmath %d %s" % (t, hx(o.math)))
            elif o.kind == "m":
                add("model %d %s" % (t, hx(o.name)))
                add("setid %d %s" % (t, hx(o.id)))
                add("setencapsulationid %d %s" % (t, hx(o.encid)))
        for o in self.objects:
            t = o.slot
            if o.kind in "uc":
                if o.imp is not None:
                    add("setimportsource %d %d" % (t, o.imp.slot))
                if o.impref != "":
                    add("setimportreference %d %s" % (t, hx(o.impref)))
            if o.kind == "i" and o.model is not None:
                add("setmodel %d %d" % (t, o.model.slot))
            if o.kind == "m":
                for u in o.units:
                    add("addunits %d %d" % (t, u.slot))
                for c in o.comps:
                    add("addcomponent %d %d" % (t, c.slot))
            if o.kind == "c":
                for v in o.vars:
                    add("addvariable %d %d" % (t, v.slot))
                for x in o.resets:
                    add("addreset %d %d" % (t, x.slot))
                for k in o.kids:
                    add("addcomponent %d %d" % (t, k.slot))
        for o in self.objects:
            t = o.slot
            if o.kind == "v" and o.units is not None:
                add("setunits_p %d %d" % (t, o.units.slot))
            if o.kind == "r":
                if o.var is not None:
                    add("setvariable %d %d" % (t, o.var.slot))
                if o.test is not None:
                    add("settestvariable %d %d" % (t, o.test.slot))
        for (a, b, mp, cn) in self.eq_calls:
            if mp is None:
                add("addequivalence %d %d" % (a.slot, b.slot))
            else:
                add("addequivalence_ids %d %d %s %s" % (a.slot, b.slot, hx(mp), hx(cn)))
        return L

    # ---- identity dump (must equal harness/c11_driver.cpp's text for the original)
    def d_isrc(self, i):
        if i is None:
            return "-"
        return "(i %s %s %s %s)" % (i.lab, hx(i.url), hx(i.id), lab(i.model))

    def d_units(self, u):
        if u is None:
            return "-"
        o = "(u %s %s %s %s %s %s" % (u.lab, lab(u.parent), hx(u.id), hx(u.name), self.d_isrc(u.imp), hx(u.impref))
        for (ref, pre, ex, mu, id_) in u.defs:
            o += " (d %s %s %s %s %s)" % (hx(ref), hx(pre), fl(ex), fl(mu), hx(id_))
        return o + ")"

    def d_var(self, v):
        if v is None:
            return "-"
        o = "(v %s %s %s %s %s %s %s" % (v.lab, lab(v.parent), hx(v.id), hx(v.name), hx(v.init), hx(v.iface), self.d_units(v.units))
        for (w, mp, cn) in v.eqs:
            o += " (e %s %s %s)" % (w.lab, hx(mp), hx(cn))
        return o + ")"

    def d_reset(self, x):
        return "(r %s %s %s %d %s %s %s %s %s %s %s)" % (
            x.lab, lab(x.parent), hx(x.id), x.order, "1" if x.oset else "0", self.d_var(x.var), self.d_var(x.test),
            hx(x.tv), hx(x.tvid), hx(x.rv), hx(x.rvid))

    def d_comp(self, c):
        return "(c %s %s %s %s %s %s %s %s (%s) (%s) (%s))" % (
            c.lab, lab(c.parent), hx(c.id), hx(c.name), hx(c.encid), hx(c.math), self.d_isrc(c.imp), hx(c.impref),
            " ".join(self.d_var(v) for v in c.vars), " ".join(self.d_reset(x) for x in c.resets),
            " ".join(self.d_comp(k) for k in c.kids))

    def d_model(self, m):
        return "(m %s %s %s %s (%s) (%s))" % (
            m.lab, hx(m.id), hx(m.name), hx(m.encid), " ".join(self.d_units(u) for u in m.units),
            " ".join(self.d_comp(c) for c in m.comps))

    def idump(self, o):
        return {"i": self.d_isrc, "u": self.d_units, "v": self.d_var, "r": self.d_reset, "c": self.d_comp,
                "m": self.d_model}[o.kind](o)

    # ---- index stacks of equivalent variables outside model m (what the pinned indexStackOf computes)
    def ext_info(self, m):
        inside = set(v.slot for c in self.comps_of(m) for v in c.vars)
        out = {}
        for c in self.comps_of(m):
            for v in c.vars:
                for (w, _, _) in v.eqs:
                    if w.slot in inside or w.slot in out:
                        continue
                    if w.parent is None:
                        out[w.slot] = "o"
                    else:
                        st = [w.parent.vars.index(w)]
                        p = w.parent
                        while isinstance(p, Comp) and p.parent is not None:
                            sibs = p.parent.comps if isinstance(p.parent, Model) else p.parent.kids
                            st.append(sibs.index(p))
                            p = p.parent
                        out[w.slot] = ".".join(str(i) for i in reversed(st))
        return out

    def has_external_eq(self, m):
        return bool(self.ext_info(m))

    def unlinked_units_class(self, m):
        """a component variable whose Units object differs in content from the first units of that name in m:
        Model::clone() re-links it (fixComponentUnits), and equals() compares the Units objects deeply"""
        def key(u):
            return (u.id, u.name, None if u.imp is None else (u.imp.id, u.imp.url), u.impref, tuple(u.defs))
        for c in self.comps_of(m):
            for v in c.vars:
                if v.units is None:
                    continue
                first = next((u for u in m.units if u.name == v.units.name), None)
                if first is not None and first is not v.units and key(first) != key(v.units):
                    return True
        return False


# ------------------------------------------------------------------------------------------ S-expressions

def parse(text):
    pos = 0
    n = len(text)

    def item():
        nonlocal pos
        while pos < n and text[pos] == " ":
            pos += 1
        if text[pos] == "(":
            pos += 1
            out = []
            while True:
                while pos < n and text[pos] == " ":
                    pos += 1
                if text[pos] == ")":
                    pos += 1
                    return out
                out.append(item())
        st = pos
        while pos < n and text[pos] not in " ()":
            pos += 1
        return text[st:pos]
    return item()


_LAB = re.compile(r"@(\d+)")


def new_labels(text, n0):
    out = []
    for m in _LAB.finditer(text):
        v = int(m.group(1))
        if n0 <= v < 5000 and v not in out:
            out.append(v)
    return out


def canon_labels(text, n0, order=None):
    """rename @n (n0 <= n < 5000) to $k; k = rank of first occurrence in `order` text (default: text itself)"""
    news = new_labels(order if order is not None else text, n0)
    idx = {v: k for k, v in enumerate(news)}

    def rep(m):
        v = int(m.group(1))
        if n0 <= v < 5000:
            return "$%d" % idx[v] if v in idx else "$?%d" % v
        return m.group(0)
    return _LAB.sub(rep, text)


def unhex(t):
    return bytes.fromhex(t[1:]).decode("utf-8", "replace")


# content of a parsed identity dump: mirrors content_* of CloneDefs.v (nested python lists / strings)

def c_isrc(i):
    return [i[2], i[3]]


def c_opt(f, x):
    return [] if x == "-" else [f(x)]


def c_units(u):
    return [u[4], u[3], c_opt(c_isrc, u[5]), u[6], [[d[1], d[2], hx(d[3]), hx(d[4]), d[5]] for d in u[7:]]]


def c_var(v):
    return [v[4], v[3], c_opt(lambda u: u[4], v[7]), v[5], v[6]]


def c_vref(owner, v):
    if v == "-":
        return []
    idx = [str(k) for k, w in enumerate(owner) if w[1] == v[1]][:1]
    return [[v[4], [idx[0]] if idx else []]]


def c_reset(owner, r):
    return [r[3], r[4], r[5], c_vref(owner, r[6]), c_vref(owner, r[7]), r[8], r[9], r[10], r[11]]


def c_comp(c):
    return [c[4], c[3], c[5], c[6], c_opt(c_isrc, c[7]), c[8], [c_var(v) for v in c[9]],
            [c_reset(c[9], r) for r in c[10]], [c_comp(k) for k in c[11]]]


def comp_imports(c):
    out = [] if c[7] == "-" else [c[7][1]]
    for k in c[11]:
        out += comp_imports(k)
    return out


def canon(l):
    return [str(l.index(x)) for x in l]


def model_vars(m):
    out = []

    def go(pre, c):
        for i, v in enumerate(c[9]):
            out.append((pre + [i], v))
        for i, k in enumerate(c[11]):
            go(pre + [i], k)
    for i, c in enumerate(m[6]):
        go([i], c)
    return out


def c_model_eqvs(m, with_ids=True, internal_only=True):
    mv = model_vars(m)
    where = {}
    for p, v in mv:
        where.setdefault(v[1], p)
    out = []
    for p, v in mv:
        for e in v[8:]:
            if e[1] in where:
                out.append("%s>%s:%s:%s" % (".".join(map(str, p)), ".".join(map(str, where[e[1]])),
                                            e[2] if with_ids else "s", e[3] if with_ids else "s"))
    return sorted(out)


def content(sx, with_ids=True):
    k = sx[0]
    if k == "i":
        return c_isrc(sx)
    if k == "u":
        return c_units(sx)
    if k == "v":
        return c_var(sx)
    if k == "r":
        return c_reset([], sx)
    if k == "c":
        return [c_comp(sx), canon(comp_imports(sx))]
    if k == "m":
        imps = [u[5][1] for u in sx[5] if u[5] != "-"]
        for c in sx[6]:
            imps += comp_imports(c)
        return [[sx[3], sx[2], sx[4], [c_units(u) for u in sx[5]], [c_comp(c) for c in sx[6]]], canon(imps),
                c_model_eqvs(sx, with_ids)]
    raise ValueError(k)


def parse_model_content(text):
    """content text printed by ocaml/clone/driver.ml -> same nested structure as content()"""
    text = text.strip()
    # forms: SX | SX [canon] | SX [canon] {eqvs}
    m = re.match(r"^(.*?)(?: \[([^\]]*)\])?(?: \{([^}]*)\})?$", text)
    sx = parse(m.group(1))

    def conv(x):
        if isinstance(x, list):
            return [conv(y) for y in x]
        return x
    out = conv(sx)
    if m.group(2) is not None:
        out = [out, m.group(2).split()]
        if m.group(3) is not None:
            out.append(sorted(m.group(3).split()))
    return out


# ------------------------------------------------------------------------------------------ mutations

def walk(sx, out=None, path_kind=None):
    """all object nodes of a parsed identity dump: list of (label, kind, node, holder) ; holder = (kind, label, field)"""
    if out is None:
        out = []
    if not isinstance(sx, list) or not sx:
        return out
    k = sx[0]
    if k in ("i", "u", "v", "r", "c", "m"):
        out.append((sx[1], k, sx))
    if k == "u":
        walk(sx[5], out)
    elif k == "v":
        walk(sx[7], out)
    elif k == "r":
        walk(sx[6], out)
        walk(sx[7], out)
    elif k == "c":
        walk(sx[7], out)
        for l in (sx[9], sx[10], sx[11]):
            for x in l:
                walk(x, out)
    elif k == "m":
        for l in (sx[5], sx[6]):
            for x in l:
                walk(x, out)
    return out


def count_label(sx, label):
    n = 0
    if isinstance(sx, list):
        for x in sx:
            n += count_label(x, label)
    elif sx == label:
        n += 1
    return n


NEW = 5000


def random_mutation(rng, root_sx, label, kind, node, as_label):
    """-> (script lines using `as_label` for the target (slot number or $k), model S-expression) or None.
    Objects created by the mutation live in slots >= 5000."""
    t = as_label
    tl = "@" + t if not t.startswith("$") else t
    s = lambda pool: rng.choice(pool)   # noqa: E731
    nm, idv = s(NAMES + ["mut"]), s(IDS + ["mid"])

    def new_isrc():
        url, i = s(URLS + ["new.cellml"]), s(IDS)
        return (["importsource %d" % NEW, "seturl %d %s" % (NEW, hx(url)), "setid %d %s" % (NEW, hx(i))],
                "(i @%d %s %s -)" % (NEW, hx(url), hx(i)))

    def new_units(slot=NEW):
        n = s(NAMES)
        return (["units %d %s" % (slot, hx(n))], "(u @%d - s %s - s)" % (slot, hx(n)))

    def new_var(slot=NEW):
        n = s(NAMES)
        return (["variable %d %s" % (slot, hx(n))], "(v @%d - s %s s s -)" % (slot, hx(n)))

    if kind == "i":
        if rng.random() < 0.6:
            v = s(URLS + ["changed.cellml"])
            return (["seturl %s %s" % (t, hx(v))], "(MIsrcUrl %s %s)" % (tl, hx(v)))
        return (["setid %s %s" % (t, hx(idv))], "(MIsrcId %s %s)" % (tl, hx(idv)))
    if kind == "u":
        c = rng.randrange(7)
        if c == 0:
            return (["setname %s %s" % (t, hx(nm))], "(MUnitsName %s %s)" % (tl, hx(nm)))
        if c == 1:
            return (["setid %s %s" % (t, hx(idv))], "(MUnitsId %s %s)" % (tl, hx(idv)))
        if c == 2:
            return (["setimportreference %s %s" % (t, hx(nm))], "(MUnitsImpRef %s %s)" % (tl, hx(nm)))
        if c == 3:
            if rng.random() < 0.3:
                return (["setimportsource %s null" % t], "(MUnitsImp %s -)" % tl)
            sc, sx = new_isrc()
            return (sc + ["setimportsource %s %d" % (t, NEW)], "(MUnitsImp %s %s)" % (tl, sx))
        if c == 4:
            ref, pre, ex, mu, i = s(REFS), s(PREFIXES), s(FLOATS), s(FLOATS), s(IDS)
            return (["addunit %s %s %s %s %s %s" % (t, hx(ref), hx(pre), repr(ex), repr(mu), hx(i))],
                    "(MUnitsAddUnit %s (d %s %s %s %s %s))" % (tl, hx(ref), hx(pre), fl(ex), fl(mu), hx(i)))
        k = rng.randrange(0, len(node) - 7 + 1) if rng.random() < 0.9 else 7
        return (["removeunit_i %s %d" % (t, k)], "(MUnitsRemoveUnit %s %d)" % (tl, k))
    if kind == "v":
        c = rng.randrange(6)
        if c == 0:
            return (["setname %s %s" % (t, hx(nm))], "(MVarName %s %s)" % (tl, hx(nm)))
        if c == 1:
            return (["setid %s %s" % (t, hx(idv))], "(MVarId %s %s)" % (tl, hx(idv)))
        if c == 2:
            v = s(INITS + ["42"])
            return (["setinitialvalue_s %s %s" % (t, hx(v))], "(MVarInit %s %s)" % (tl, hx(v)))
        if c == 3:
            v = s(IFACES)
            return (["setinterfacetype_s %s %s" % (t, hx(v))], "(MVarIface %s %s)" % (tl, hx(v)))
        if c == 4:
            return (["removeunits %s" % t], "(MVarUnits %s -)" % tl)
        sc, sx = new_units()
        return (sc + ["setunits_p %s %d" % (t, NEW)], "(MVarUnits %s %s)" % (tl, sx))
    if kind == "r":
        c = rng.randrange(9)
        if c == 0:
            return (["setid %s %s" % (t, hx(idv))], "(MResetId %s %s)" % (tl, hx(idv)))
        if c == 1:
            z = s(ORDERS + [5])
            return (["setorder %s %d" % (t, z)], "(MResetOrder %s %d)" % (tl, z))
        if c == 2:
            return (["removeorder %s" % t], "(MResetRemoveOrder %s)" % tl)
        if c in (3, 4):
            cmd, mu = (("setvariable", "MResetVar"), ("settestvariable", "MResetTest"))[c - 3]
            if rng.random() < 0.3:
                return (["%s %s null" % (cmd, t)], "(%s %s -)" % (mu, tl))
            sc, sx = new_var()
            return (sc + ["%s %s %d" % (cmd, t, NEW)], "(%s %s %s)" % (mu, tl, sx))
        cmd, mu = (("settestvalue", "MResetTv"), ("settestvalueid", "MResetTvId"), ("setresetvalue", "MResetRv"),
                   ("setresetvalueid", "MResetRvId"))[c - 5]
        v = s(MATHS + ["<math>m</math>"]) if c in (5, 7) else idv
        return (["%s %s %s" % (cmd, t, hx(v))], "(%s %s %s)" % (mu, tl, hx(v)))
    if kind == "c":
        c = rng.randrange(12)
        if c < 5:
            cmd, mu, v = (("setname", "MCompName", nm), ("setid", "MCompId", idv), ("setencapsulationid", "MCompEncId", idv),
                          ("setmath", "MCompMath", s(MATHS + ["<math>z</math>"])), ("setimportreference", "MCompImpRef", nm))[c]
            return (["%s %s %s" % (cmd, t, hx(v))], "(%s %s %s)" % (mu, tl, hx(v)))
        if c == 5:
            if rng.random() < 0.3:
                return (["setimportsource %s null" % t], "(MCompImp %s -)" % tl)
            sc, sx = new_isrc()
            return (sc + ["setimportsource %s %d" % (t, NEW)], "(MCompImp %s %s)" % (tl, sx))
        if c == 6:
            sc, sx = new_var()
            return (sc + ["addvariable %s %d" % (t, NEW)], "(MCompAddVar %s %s)" % (tl, sx))
        if c == 7:
            if not node[9]:
                return None
            k = rng.randrange(len(node[9]))
            if count_label(root_sx, node[9][k][1]) > 1:      # still referenced elsewhere (reset / equivalence): skipped
                return None
            return (["removevariable_i %s %d" % (t, k)], "(MCompRemoveVar %s %d)" % (tl, k))
        if c == 8:
            o = s(ORDERS)
            return (["reset %d %d" % (NEW, o), "addreset %s %d" % (t, NEW)],
                    "(MCompAddReset %s (r @%d - s %d 1 - - s s s s))" % (tl, NEW, o))
        if c == 9:
            k = rng.randrange(len(node[10]) + 1)
            return (["removereset_i %s %d" % (t, k)], "(MCompRemoveReset %s %d)" % (tl, k))
        if c == 10:
            n = s(NAMES)
            scv, sxv = new_var(NEW + 1)
            return (["component %d %s" % (NEW, hx(n))] + scv + ["addvariable %d %d" % (NEW, NEW + 1), "addcomponent %s %d" % (t, NEW)],
                    "(MCompAddChild %s (c @%d - s %s s s - s (%s) () ()))" % (tl, NEW, hx(n), sxv.replace("(v @%d -" % (NEW + 1), "(v @%d @%d" % (NEW + 1, NEW))))
        k = rng.randrange(len(node[11]) + 1)
        return (["removecomponent_i %s %d" % (t, k)], "(MCompRemoveChild %s %d)" % (tl, k))
    if kind == "m":
        c = rng.randrange(7)
        if c < 3:
            cmd, mu, v = (("setname", "MModelName", nm), ("setid", "MModelId", idv), ("setencapsulationid", "MModelEncId", idv))[c]
            return (["%s %s %s" % (cmd, t, hx(v))], "(%s %s %s)" % (mu, tl, hx(v)))
        if c == 3:
            sc, sx = new_units()
            return (sc + ["addunits %s %d" % (t, NEW)], "(MModelAddUnits %s %s)" % (tl, sx))
        if c == 4:
            if not node[5]:
                return None
            k = rng.randrange(len(node[5]))
            if count_label(root_sx, node[5][k][1]) > 1:      # a variable is linked to it: skipped
                return None
            return (["removeunits_i %s %d" % (t, k)], "(MModelRemoveUnits %s %d)" % (tl, k))
        if c == 5:
            n = s(NAMES)
            return (["component %d %s" % (NEW, hx(n)), "addcomponent %s %d" % (t, NEW)],
                    "(MModelAddComp %s (c @%d - s %s s s - s () () ()))" % (tl, NEW, hx(n)))
        k = rng.randrange(len(node[6]) + 1)
        return (["removecomponent_i %s %d" % (t, k)], "(MModelRemoveComp %s %d)" % (tl, k))
    return None
