"""c02_models.py -- API scripts (harness/common/script.hpp) that build models for the C02 round-trip check.

hostile_model_script(rng, deviation=None) -> (lines, info)
    a model that is *printable* in the sense of coq/theories/RoundtripSpec.v (names non-empty and unique, every string
    XML character data, resets on their own component's variables, one connection id per component pair, ...) but
    NOT necessarily valid CellML: names, ids, initial values, interface texts, unit references, prefixes, import urls
    and references are drawn from text with & < > " ' non-ASCII characters, leading / trailing / inner blanks (and,
    with `ws=True`, TAB / LF / CR, which an XML attribute only keeps when written as character references).
    Features: unit children with prefixes / real exponents / multipliers, nested encapsulation with ids, resets
    with / without ids on the value blocks, several math elements per component, imported units and imported
    components (also as encapsulation parents / children) with placeholder variables that take part in
    connections, several map_variables per connection with mapping ids and one connection id per component pair.

    deviation: None, or the name of ONE departure from printability to inject (DEVIATIONS): the check uses them to
    exercise each conjunct of `printable` (and the loader's error paths).
"""
import random

from script_gen import S, ScriptBuilder, STANDARD_UNITS, PREFIXES

MATH_NS = 'xmlns="http://www.w3.org/1998/Math/MathML"'
MATH_NS2 = MATH_NS + ' xmlns:cellml="http://www.cellml.org/cellml/2.0#"'

DEVIATIONS = [
    "std_named_units",        # child-less units named like a standard unit (DESIGN row 29)
    "leaf_encapsulation_id",  # encapsulation id on a top-level component without children
    "model_encapsulation_id", # model encapsulation id without any hierarchy
    "reset_foreign_variable", # reset refers to a variable of another component
    "reset_no_order",         # reset without order
    "reset_no_values",        # reset without test_value / reset_value
    "imported_units_children",# imported units that also hold unit children
    "imported_component_content",  # imported component with a full variable / math
    "nonfinite_number",       # exponent inf / nan, multiplier 1e-320
    "import_reference_only",  # import reference without import source
    "duplicate_component_name",
    "duplicate_variable_name",
    "empty_component_name", "empty_variable_name", "empty_units_name", "empty_model_name",
    "variable_without_units", "variable_unknown_units",
    "crossed_names",          # x--y and y--x between the same two components
    "self_connection",        # equivalence inside one component
    "control_character",      # a C0 control character in a string: not XML character data
    "bad_math",               # math that is not well-formed / not a math element
    "zero_prefix",            # (cannot be stored through the API: addUnit drops it) exercises prefix "0" handling
    "mixed_connection_ids",   # two connection ids between one pair of components (address dependent read-back)
]

_HOSTILE_BITS = ["&", "<", ">", '"', "'", "é", "ß", "日本", " ", "  ", "&amp;", "&lt;", "&#65;", "a", "b", "x1", "_", "-", ".",
                 "]]>", "<!--", "?>", "%", "=", "/", "\\", "{", "}", "µ", " ", " "]
_WS_BITS = ["\t", "\n", "\r", "\r\n", " \n "]


class _H:
    def __init__(self, rng, hostile=True, ws=False, deviation=None, size=1):
        self.r = rng
        self.hostile = hostile
        self.ws = ws
        self.dev = deviation
        self.b = ScriptBuilder()
        self.idn = 0
        self.size = size

    def chance(self, p):
        return self.r.random() < p

    def text(self, lo=1, hi=4, plain_p=0.4):
        r = self.r
        if not self.hostile or self.chance(plain_p):
            return "".join(r.choice("abcxyz") for _ in range(r.randint(max(1, lo), hi)))
        bits = list(_HOSTILE_BITS)
        if self.ws:
            bits += _WS_BITS * 3
        return "".join(r.choice(bits) for _ in range(r.randint(lo, hi)))

    def name(self, taken):
        for _ in range(100):
            n = self.text(1, 3)
            if n and n not in taken:
                taken.add(n)
                return n
        n = "n%d" % len(taken)
        taken.add(n)
        return n

    def new_id(self):
        self.idn += 1
        return (self.text(0, 2) if self.chance(0.5) else "") + "i%d" % self.idn

    def maybe_id(self, slot, p=0.35):
        if self.chance(p):
            self.b.cmd("setid", slot, S(self.new_id()))

    def number(self):
        r = self.r
        k = r.random()
        if k < 0.35:
            return r.choice([1.0, 1.0, 2.0, -1.0, 3.0, 0.5, -2.0, 0.0, 1000.0, 0.001])
        if k < 0.6:
            return r.uniform(-10, 10)
        if k < 0.75:
            return r.choice([1.0 / 3.0, 1e-7, 123456789.123456789, 1.0000000000000002, 0.1 + 0.2, 1e22, 1e-22, -1e300,
                             2.2250738585072014e-308, 1.7976931348623157e308, 5e-324 * 2 ** 60, 0.30000000000000004, -0.0])
        return r.choice([1, -1]) * (10 ** r.uniform(-30, 30))

    def math(self, var_names, good=True):
        r = self.r
        v = r.choice(var_names) if var_names else "x"
        # the ci text is arbitrary text: escape it for XML
        ve = v.replace("&", "&amp;").replace("<", "&lt;").replace(">", "&gt;")
        forms = [
            '<math %s><apply><eq/><ci>%s</ci><cn cellml:units="second">1</cn></apply></math>' % (MATH_NS2, ve),
            '<math %s>\n  <apply> <eq/>\n    <ci> %s </ci>\n    <cn cellml:units="second">2.5e1</cn>\n  </apply>\n</math>\n' % (MATH_NS2, ve),
            '<math %s><apply><plus/><ci>%s</ci><apply><times/><cn>3</cn><ci>%s</ci></apply></apply></math>' % (MATH_NS, ve, ve),
            '<math %s/>' % MATH_NS,
            '<math %s><ci>%s</ci></math><math %s><cn>1</cn></math>' % (MATH_NS, ve, MATH_NS),
            '<m:math xmlns:m="http://www.w3.org/1998/Math/MathML"><m:ci>%s</m:ci></m:math>' % ve,
            '  <math %s><piecewise><piece><cn>0</cn><apply><lt/><ci>%s</ci><cn>0</cn></apply></piece><otherwise><ci>%s</ci></otherwise></piecewise></math>  ' % (MATH_NS, ve, ve),
        ]
        return self.decorate_math(r.choice(forms))

    # XML declarations that PrinterImpl::printMath strips ("<\\?xml[[:space:]]+version=.*\\?>"): white space variants after
    # "<?xml", pseudo-attributes, single / double quotes (math is set through the API as arbitrary text)
    XML_DECLS = ['<?xml version="1.0"?>', '<?xml  version="1.0"?>', "<?xml\tversion='1.0'?>", '<?xml\nversion="1.0"?>',
                 '<?xml version="1.0" encoding="UTF-8"?>', "<?xml   version='1.0' encoding='UTF-8' standalone='yes'?>",
                 '<?xml \t version="1.0" standalone="no" ?>', '<?xml version = "1.0"?>'.replace("version =", "version="),
                 '<?xml\r\nversion="1.1"?>']

    def decorate_math(self, text):
        """the same mathematics as other legal math STRINGS: an XML declaration in front (of the whole string, or of
        every math element, each on its own line), blank lines, comments around the math elements"""
        r = self.r
        k = r.random()
        if k < 0.45:
            return text
        pieces = [p for p in text.replace("</math><math", "</math>\x00<math").split("\x00")]
        out = []
        per_element_decl = r.random() < 0.3
        if r.random() < 0.7:
            out.append(r.choice(self.XML_DECLS) + r.choice(["", "\n", "\n\n", " "]))
        for i, piece in enumerate(pieces):
            if i > 0 and per_element_decl:
                out.append("\n" + r.choice(self.XML_DECLS) + "\n")
            if r.random() < 0.3:
                out.append(r.choice(["<!-- a comment -->", "<!--c-->\n", "  <!-- x < y & z -->  "]))
            if r.random() < 0.3:
                out.append(r.choice(["\n", "  ", "\t\n "]))
            out.append(piece)
            if r.random() < 0.2:
                out.append(r.choice(["\n<!-- trailing -->", "\n\n", " "]))
        return "".join(out)

    def build(self):
        r, b = self.r, self.b
        dev = self.dev
        info = dict(deviation=dev)
        m = b.model()
        b.cmd("setname", m, S("" if dev == "empty_model_name" else self.text(1, 3)))
        self.maybe_id(m)
        nsrc = r.randint(0, 2) if self.chance(0.5) else 0
        sources = []
        for _ in range(nsrc):
            i = b.importsource()
            b.cmd("seturl", i, S(r.choice(["m?a=1&b=2", "lib.cellml", "sub dir/é.cellml", "http://x.org/m.cellml#frag", "a<b>.xml", ""])
                                 if self.hostile else r.choice(["lib.cellml", "other.cellml"])))
            self.maybe_id(i)
            sources.append(i)

        # ---- units
        unames = set(STANDARD_UNITS)
        user_units = []        # (slot, name)
        n_units = r.randint(0, 2 + 2 * self.size)
        for k in range(n_units):
            un = self.name(unames)
            if dev == "empty_units_name" and k == 0:
                un = ""
            u = b.units(un) if self.chance(0.5) else b.units()
            if b.lines[-1].count(" ") == 1:
                b.cmd("setname", u, S(un))
            self.maybe_id(u)
            imported = bool(sources) and self.chance(0.3)
            if imported:
                b.cmd("setsourceunits", u, r.choice(sources), S(self.text(0, 3)))
            if (not imported) or (dev == "imported_units_children" and imported):
                nk = r.randint(1, 3)
                for j in range(nk):
                    ref = r.choice(STANDARD_UNITS + [x[1] for x in user_units] + [self.text(1, 2)])
                    pform = r.random()
                    if pform < 0.3:
                        pre = S(r.choice(PREFIXES))
                    elif pform < 0.45:
                        pre = S(str(r.randint(-24, 24) or 3))
                    elif pform < 0.55:
                        pre = r.randint(-6, 6)
                    elif pform < 0.7:
                        pre = S(self.text(1, 2))         # arbitrary text is stored as given
                    else:
                        pre = S("")
                    if dev == "zero_prefix" and j == 0:
                        pre = S(r.choice(["0", "+0", "-0", "00"]))
                    ex, mu = self.number(), self.number()
                    if dev == "nonfinite_number" and j == 0:
                        ex = r.choice([float("inf"), float("-inf"), float("nan"), 3.0])
                        mu = r.choice([1e-320, float("inf"), 2.0]) if ex == 3.0 else mu
                        if ex == 3.0 and mu == 2.0:
                            ex = float("inf")
                    uid = self.new_id() if self.chance(0.3) else ""
                    b.cmd("addunit", u, S(ref), pre, ex, mu, S(uid))
            if dev == "import_reference_only" and not imported and k == 0:
                b.cmd("setimportreference", u, S("ref"))
            b.cmd("addunits", m, u)
            user_units.append((u, un))
        if dev == "std_named_units":
            u = b.units(r.choice(STANDARD_UNITS))
            self.maybe_id(u)
            b.cmd("addunits", m, u)
        if dev == "imported_units_children" and not any("setsourceunits" in l for l in b.lines):
            i = b.importsource()
            b.cmd("seturl", i, S("lib.cellml"))
            u = b.units(self.name(unames))
            b.cmd("setsourceunits", u, i, S("r"))
            b.cmd("addunit", u, S("second"), S("milli"), 1.0, 1.0, S(""))
            b.cmd("addunits", m, u)
            user_units.append((u, "?"))
        unit_choices = [n for _, n in user_units if n and n != "?"] + STANDARD_UNITS[:6]

        # ---- components
        cnames = set()
        comps = []             # slots
        parent = {}
        depth = {}
        imported_c = set()
        ncomp = r.randint(1, 3 + 3 * self.size)
        for k in range(ncomp):
            cn = self.name(cnames)
            if dev == "duplicate_component_name" and k == 1:
                cn = b_first_name
            if dev == "empty_component_name" and k == 0:
                cn = ""
            if k == 0:
                b_first_name = cn
            c = b.component(cn) if self.chance(0.5) else b.component()
            if b.lines[-1].count(" ") == 1:
                b.cmd("setname", c, S(cn))
            self.maybe_id(c)
            cands = [p for p in comps if depth[p] < 4]
            p = r.choice(cands) if cands and self.chance(0.55) else m
            depth[c] = 1 if p == m else depth[p] + 1
            parent[c] = p
            comps.append(c)
            b.cmd("addcomponent", p, c)
            if sources and self.chance(0.25):
                b.cmd("setsourcecomponent", c, r.choice(sources), S(self.text(0, 3)))
                imported_c.add(c)
        kids = {}
        for c, p in parent.items():
            kids.setdefault(p, []).append(c)
        for c in comps:
            if (kids.get(c) or parent[c] != m) and self.chance(0.35):
                b.cmd("setencapsulationid", c, S(self.new_id()))
        has_hierarchy = any(parent[c] != m for c in comps)
        if has_hierarchy and self.chance(0.4):
            b.cmd("setencapsulationid", m, S(self.new_id()))
        if dev == "model_encapsulation_id" and not has_hierarchy:
            b.cmd("setencapsulationid", m, S(self.new_id()))
        if dev == "leaf_encapsulation_id":
            leaves = [c for c in comps if parent[c] == m and not kids.get(c)]
            if leaves:
                b.cmd("setencapsulationid", r.choice(leaves), S(self.new_id()))

        # ---- variables
        cvars = {}
        vname = {}
        for k, c in enumerate(comps):
            cvars[c] = []
            taken = set()
            nv = r.randint(0, 3) if c not in imported_c else r.randint(0, 2)
            for j in range(nv):
                vn = self.name(taken)
                if dev == "duplicate_variable_name" and j == 1:
                    vn = vname[cvars[c][0]]
                if dev == "empty_variable_name" and j == 0:
                    vn = ""
                v = b.variable(vn) if self.chance(0.5) else b.variable()
                if b.lines[-1].count(" ") == 1:
                    b.cmd("setname", v, S(vn))
                vname[v] = vn
                full = c not in imported_c or dev == "imported_component_content"
                if full:
                    self.maybe_id(v)
                    if dev == "variable_without_units" and j == 0:
                        pass
                    elif dev == "variable_unknown_units" and j == 0:
                        b.cmd("setunits_n", v, S("nosuch_" + self.text(1, 2)))
                    else:
                        un = r.choice(unit_choices)
                        slot = [s for s, n in user_units if n == un]
                        if slot and self.chance(0.5):
                            b.cmd("setunits_p", v, slot[0])
                        else:
                            b.cmd("setunits_n", v, S(un))
                    if self.chance(0.5):
                        b.cmd("setinitialvalue_s", v, S(self.text(1, 4)))
                    if self.chance(0.5):
                        b.cmd("setinterfacetype_s", v, S(r.choice(["public", "private", "none", "public_and_private", self.text(1, 2)])))
                b.cmd("addvariable", c, v)
                cvars[c].append(v)

        # ---- equivalences: one connection id per (unordered) pair of components
        pairs_done = set()
        conn_id = {}
        owner = {v: c for c in comps for v in cvars[c]}
        allv = [v for c in comps for v in cvars[c]]
        neq = r.randint(0, 2 + 2 * self.size)
        edges = []
        for _ in range(neq):
            if len(allv) < 2:
                break
            v1, v2 = r.choice(allv), r.choice(allv)
            if owner[v1] == owner[v2] or (v1, v2) in pairs_done or (v2, v1) in pairs_done:
                continue
            key = tuple(sorted((owner[v1], owner[v2])))
            if key not in conn_id:
                conn_id[key] = self.new_id() if self.chance(0.5) else ""
            # crossed names are excluded unless asked for
            n1, n2 = vname[v1], vname[v2]
            crossing = any(tuple(sorted((owner[a], owner[b_]))) == key and sorted((vname[a], vname[b_])) == sorted((n1, n2)) for a, b_ in edges)
            if crossing and dev != "crossed_names":
                continue
            mid = self.new_id() if self.chance(0.5) else ""
            cid = conn_id[key]
            if dev == "mixed_connection_ids" and self.chance(0.6):
                cid = self.new_id()
            b.cmd("addequivalence_ids", v1, v2, S(mid), S(cid))
            pairs_done.add((v1, v2))
            edges.append((v1, v2))
        if dev == "crossed_names":
            # make two components that both hold x and y, and connect them crosswise
            ca, cb = b.component(self.name(cnames)), b.component(self.name(cnames))
            b.cmd("addcomponent", m, ca)
            b.cmd("addcomponent", m, cb)
            vs = {}
            for c in (ca, cb):
                for n in ("x", "y"):
                    v = b.variable(n)
                    b.cmd("setunits_n", v, S("second"))
                    b.cmd("addvariable", c, v)
                    vs[(c, n)] = v
            b.cmd("addequivalence", vs[(ca, "x")], vs[(cb, "y")])
            b.cmd("addequivalence", vs[(ca, "y")], vs[(cb, "x")])
        if dev == "self_connection":
            cs = [c for c in comps if len(cvars[c]) >= 2 and c not in imported_c]
            if cs:
                c = r.choice(cs)
                b.cmd("addequivalence", cvars[c][0], cvars[c][1])
        # placeholders of imported components that no connection mentions would not be written: connect or drop
        if dev != "imported_component_content":
            connected = set(v for e in edges for v in e)
            for c in comps:
                if c in imported_c:
                    for v in list(cvars[c]):
                        if v not in connected:
                            others = [w for w in allv if owner[w] != c and w not in [x for e in edges if v in e for x in e]]
                            others = [w for w in others if not any(tuple(sorted((owner[a], owner[b_]))) == tuple(sorted((c, owner[w]))) and sorted((vname[a], vname[b_])) == sorted((vname[v], vname[w])) for a, b_ in edges)]
                            if others:
                                w = r.choice(others)
                                key = tuple(sorted((c, owner[w])))
                                if key not in conn_id:
                                    conn_id[key] = ""
                                b.cmd("addequivalence_ids", v, w, S(""), S(conn_id[key]))
                                edges.append((v, w))
                                connected.add(v)
                            else:
                                # (by index: removeVariable(pointer) picks a look-alike sibling first, finding F7 of C09)
                                b.cmd("removevariable_i", c, cvars[c].index(v))
                                cvars[c] = [w for w in cvars[c] if w != v]

        # ---- math and resets on the local components
        order = 0
        for c in comps:
            if c in imported_c and dev != "imported_component_content":
                continue
            names = [vname[v] for v in cvars[c]]
            if self.chance(0.4):
                b.cmd("setmath", c, S(self.math(names)))
                if self.chance(0.3):
                    b.cmd("appendmath", c, S(self.math(names)))
            if dev == "bad_math" and c == comps[0]:
                b.cmd("setmath", c, S(r.choice(["x = 1", "<math %s><ci>x</ci>" % MATH_NS, "<notmath/>", "<apply/>",
                                                "<math><ci>x</ci></math>", "<math %s><foo:x xmlns:foo=\"urn:foo\"/></math>" % MATH_NS])))
            if cvars[c] and self.chance(0.4):
                for _ in range(r.randint(1, 2)):
                    order += 1
                    rs = b.reset(order) if self.chance(0.5) else b.reset()
                    if b.lines[-1].count(" ") == 1 and dev != "reset_no_order":
                        b.cmd("setorder", rs, r.choice([order, -order, 2147483647 - order, -2147483648 + order]))
                    if dev == "reset_no_order":
                        b.cmd("removeorder", rs)
                    if self.chance(0.9):
                        b.cmd("setvariable", rs, r.choice(cvars[c]))
                    if self.chance(0.9):
                        b.cmd("settestvariable", rs, r.choice(cvars[c]))
                    if dev == "reset_foreign_variable":
                        others = [v for v in allv if owner[v] != c]
                        if others:
                            b.cmd("setvariable", rs, r.choice(others))
                    if dev != "reset_no_values":
                        kind = r.random()
                        if kind < 0.7:
                            b.cmd("settestvalue", rs, S(self.math(names)))
                            if self.chance(0.4):
                                b.cmd("settestvalueid", rs, S(self.new_id()))
                        else:
                            b.cmd("settestvalueid", rs, S(self.new_id()))
                        kind = r.random()
                        if kind < 0.7:
                            b.cmd("setresetvalue", rs, S(self.math(names)))
                            if self.chance(0.4):
                                b.cmd("setresetvalueid", rs, S(self.new_id()))
                        else:
                            b.cmd("setresetvalueid", rs, S(self.new_id()))
                    self.maybe_id(rs)
                    b.cmd("addreset", c, rs)
        if dev == "control_character":
            tgt = r.choice(comps)
            b.cmd("setid", tgt, S("a" + r.choice(["\x01", "\x08", "\x0b", "\x1f", "\x00"]) + "z"))
        if self.chance(0.3):
            b.cmd("linkunits", m)
        info["nslots"] = b.next_slot
        return b.lines, info


def hostile_model_script(rng, hostile=True, ws=False, deviation=None, size=1):
    return _H(rng, hostile=hostile, ws=ws, deviation=deviation, size=size).build()


if __name__ == "__main__":
    import sys
    rng = random.Random(int(sys.argv[1]) if len(sys.argv) > 1 else 1)
    for _ in range(5):
        lines, _info = hostile_model_script(rng)
        print(";".join(lines))
