"""c14_docs.py -- CellML 1.0 / 1.1 documents for the C14 check (no third-party imports).

  parse_text(text) -> N            python-expat tree of a document (namespace URI + local name on elements and attributes,
                                   attributes in DOCUMENT order, comments dropped, blank text dropped)
  to_sx(n, sort_attrs)             the S-expression text shared with ocaml/transform/driver.ml
  serialize(n, opts) -> str        text of a tree; opts decide where namespace prefixes are declared and how they are named
  to1x(root20, version, style)     THE mechanical rewriting of a CellML 2.0 document (the text the real Printer wrote, parsed)
                                   into 1.0 / 1.1 syntax -- the python twin of coq/theories/To1xDefs.v conv1x:
                                   namespace, group / relationship_ref / component_ref, map_components, public_interface /
                                   private_interface, cmeta:id, liter / meter, cellml:units of MathML in the 1.x namespace,
                                   component-level units ("hoist": the block of units before the first component)
                                   python-only extras (no Coq twin; the documents are still predicted by load1x):
                                   per-variable interface spelling, units placed inside arbitrary components
  decorate(root1x, rng, ...)       adds content-neutral legacy constructs to a 1.x document (RDF metadata, reactions with
                                   roles, containment groups, foreign attributes, documentation, comments, ...)
  hand_documents()                 hand-shaped 1.x documents, each legacy construct in isolation and in combination
"""
import random
import xml.etree.ElementTree as ET

CELLML20 = "http://www.cellml.org/cellml/2.0#"
CELLML10 = "http://www.cellml.org/cellml/1.0#"
CELLML11 = "http://www.cellml.org/cellml/1.1#"
CMETA = "http://www.cellml.org/metadata/1.0#"
MATHML = "http://www.w3.org/1998/Math/MathML"
XLINK = "http://www.w3.org/1999/xlink"
RDF = "http://www.w3.org/1999/02/22-rdf-syntax-ns#"
XMLNS = "http://www.w3.org/XML/1998/namespace"
DOC = "http://cellml.org/tmp-documentation"
VNS = {"1.0": CELLML10, "1.1": CELLML11}


class N:
    """element: ns, name, attrs = list of [ns, name, value] in document order, kids = list of N | str (text);
    decls = xmlns declarations FORCED onto the element by the serialiser [(prefix, uri)] (used or not);
    eprefix = write the element (and its descendants of the same namespace) with this prefix instead of a default namespace"""
    __slots__ = ("ns", "name", "attrs", "kids", "decls", "eprefix")

    def __init__(self, ns, name, attrs=None, kids=None, decls=None, eprefix=None):
        self.ns = ns
        self.name = name
        self.attrs = [list(a) for a in (attrs or [])]
        self.kids = list(kids or [])
        self.decls = list(decls or [])
        self.eprefix = eprefix

    def get(self, name, ns=""):
        for a in self.attrs:
            if a[0] == ns and a[1] == name:
                return a[2]
        return None

    def elems(self):
        return [k for k in self.kids if isinstance(k, N)]

    def copy(self):
        return N(self.ns, self.name, [list(a) for a in self.attrs], [k.copy() if isinstance(k, N) else k for k in self.kids],
                 list(self.decls), self.eprefix)

    def walk(self):
        yield self
        for k in self.kids:
            if isinstance(k, N):
                yield from k.walk()


def _split(tag):
    if tag.startswith("{"):
        ns, nm = tag[1:].split("}", 1)
        return ns, nm
    return "", tag


def from_et(e):
    ns, nm = _split(e.tag)
    n = N(ns, nm, [[*_split(k), v] for k, v in e.attrib.items()])
    t = e.text or ""
    if t.strip(" \t\n\r"):
        n.kids.append(t.strip(" \t\n\r"))
    for c in e:
        if not callable(c.tag):
            n.kids.append(from_et(c))
        tl = c.tail or ""
        if tl.strip(" \t\n\r"):
            n.kids.append(tl.strip(" \t\n\r"))
    return n


def parse_text(text):
    """-> N, or None when expat refuses the text"""
    try:
        return from_et(ET.fromstring(text))
    except Exception:        # noqa: BLE001
        return None


def S(s):
    if isinstance(s, str):
        s = s.encode("utf-8")
    return "s" + bytes(s).hex()


def to_sx(n, sort_attrs=False):
    if isinstance(n, str):
        return "(t %s)" % S(n)
    ats = ["(a %s %s %s)" % (S(a[0]), S(a[1]), S(a[2])) for a in n.attrs]
    if sort_attrs:
        ats.sort()
    return "(e %s %s (%s ) (%s ))" % (S(n.ns), S(n.name), "".join(" " + a for a in ats),
                                       "".join(" " + to_sx(k, sort_attrs) for k in n.kids))


# ------------------------------------------------------------------------------------------------ serialiser

def esc_attr(v):
    out = []
    for ch in v:
        if ch == "&":
            out.append("&amp;")
        elif ch == "<":
            out.append("&lt;")
        elif ch == ">":
            out.append("&gt;")
        elif ch == '"':
            out.append("&quot;")
        elif ch in "\t\n\r":
            out.append("&#%d;" % ord(ch))
        else:
            out.append(ch)
    return "".join(out)


def esc_text(v):
    return v.replace("&", "&amp;").replace("<", "&lt;").replace(">", "&gt;")


PREFERRED = {CMETA: "cmeta", CELLML10: "cellml", CELLML11: "cellml", CELLML20: "cellml", XLINK: "xlink", RDF: "rdf",
             MATHML: "mathml", DOC: "doc"}


def serialize(root, opts=None):
    """opts: root_decl  = uris whose prefix is declared on the root element (default: none, i.e. declared where used)
             math_decl  = True: the prefixes needed below a math element are declared on the math element
             prefix     = {uri: prefix name} overriding PREFERRED
             comments   = True: a comment is put between children now and then (content neutral)"""
    opts = opts or {}
    pref = dict(PREFERRED)
    pref.update(opts.get("prefix", {}))
    out = ['<?xml version="1.0" encoding="UTF-8"?>\n']

    def fresh(uri, scope):
        base = pref.get(uri, "ns")
        p, i = base, 0
        while p in scope and scope[p] != uri:
            i += 1
            p = "%s%d" % (base, i)
        return p

    def needed_below(n):
        s = []
        for x in n.walk():
            for a in x.attrs:
                if a[0] not in ("", XMLNS) and a[0] not in s:
                    s.append(a[0])
        return s

    def go(n, scope, default, depth, is_root, epfx):
        scope = dict(scope)
        decls = []
        for p, u in n.decls:                      # forced declarations (possibly unused, possibly shadowing)
            scope[p] = u
            decls.append((p, u))
        ep = n.eprefix or epfx.get(n.ns)
        if ep is not None and (n.eprefix or scope.get(ep) == n.ns):
            if scope.get(ep) != n.ns:
                scope[ep] = n.ns
                decls.append((ep, n.ns))
            epfx = dict(epfx)
            epfx[n.ns] = ep
            tag = ep + ":" + n.name
        else:
            if n.ns != default:
                decls.append(("", n.ns))
                default = n.ns
            tag = n.name
        want = []
        if is_root:
            want += [u for u in opts.get("root_decl", [])]
        if opts.get("math_decl") and n.ns == MATHML and n.name == "math":
            want += needed_below(n)
        want += [a[0] for a in n.attrs if a[0] not in ("", XMLNS)]
        for u in want:
            if u not in [uu for pp, uu in scope.items() if pp != ""]:
                p = fresh(u, scope)
                scope[p] = u
                decls.append((p, u))
        inv = {}
        for p, u in scope.items():
            if p != "":
                inv.setdefault(u, p)
        parts = ["<" + tag]
        for p, u in decls:
            parts.append(' xmlns%s="%s"' % ((":" + p) if p else "", esc_attr(u)))
        for a in n.attrs:
            if a[0] == "":
                parts.append(' %s="%s"' % (a[1], esc_attr(a[2])))
            elif a[0] == XMLNS:
                parts.append(' xml:%s="%s"' % (a[1], esc_attr(a[2])))
            else:
                parts.append(' %s:%s="%s"' % (inv[a[0]], a[1], esc_attr(a[2])))
        ind = "  " * depth
        if not n.kids:
            out.append(ind + "".join(parts) + "/>\n")
            return
        if all(isinstance(k, str) for k in n.kids):
            out.append(ind + "".join(parts) + ">" + "".join(esc_text(k) for k in n.kids) + "</" + tag + ">\n")
            return
        out.append(ind + "".join(parts) + ">\n")
        for i, k in enumerate(n.kids):
            if isinstance(k, str):
                out.append(ind + "  " + esc_text(k) + "\n")
            else:
                if opts.get("comments") and (i + depth) % 3 == 1:
                    out.append(ind + "  <!-- c%d -->\n" % i)
                go(k, scope, default, depth + 1, False, epfx)
        out.append(ind + "</" + tag + ">\n")

    go(root, {}, None, 0, True, {})
    return "".join(out)


# ------------------------------------------------------------------------------------------------ raw layer
# what MathNsDefs.v works on: qualified names, xmlns declarations, prefixes

class R:
    """raw element: qname, attrs = [(qname, value)] in document order INCLUDING xmlns / xmlns:p, kids = R | str"""
    __slots__ = ("qname", "attrs", "kids")

    def __init__(self, qname, attrs):
        self.qname = qname
        self.attrs = attrs
        self.kids = []


def raw_parse(text):
    """non-namespace-aware expat parse -> R, or None"""
    import xml.parsers.expat
    p = xml.parsers.expat.ParserCreate()
    p.ordered_attributes = True
    stack, roots = [], []

    def start(name, attrs):
        e = R(name, [(attrs[i], attrs[i + 1]) for i in range(0, len(attrs), 2)])
        (stack[-1].kids if stack else roots).append(e)
        stack.append(e)

    def end(name):
        stack.pop()

    def chars(data):
        if stack:
            if stack[-1].kids and isinstance(stack[-1].kids[-1], str):
                stack[-1].kids[-1] += data
            else:
                stack[-1].kids.append(data)
    p.StartElementHandler, p.EndElementHandler, p.CharacterDataHandler = start, end, chars
    try:
        p.Parse(text if isinstance(text, (bytes, str)) else bytes(text), True)
    except Exception:        # noqa: BLE001
        return None
    return roots[0] if roots else None


def raw_canon(r):
    """the text ocaml/transform/driver.ml prints for MathNsDefs.stored_math: (r s<qname> ( decls ) ( attrs ) ( kids ))"""
    if isinstance(r, str):
        return "(t %s)" % S(r.strip(" \t\n\r"))
    ds = sorted(S(k + "=" + v) for k, v in r.attrs if k == "xmlns" or k.startswith("xmlns:"))
    ats = sorted(S(k + "=" + v) for k, v in r.attrs if not (k == "xmlns" or k.startswith("xmlns:")))
    kids = [k for k in r.kids if not (isinstance(k, str) and not k.strip(" \t\n\r"))]
    return "(r %s (%s ) (%s ) (%s ))" % (S(r.qname), "".join(" " + d for d in ds), "".join(" " + a for a in ats),
                                        "".join(" " + raw_canon(k) for k in kids))


def _nsx(r, scope):
    """R + scope (prefix -> uri, '' = default) -> the nxml text of ocaml/transform/driver.ml"""
    if isinstance(r, str):
        return "(t %s)" % S(r.strip(" \t\n\r"))
    scope = dict(scope)
    decls = []
    for k, v in r.attrs:
        if k == "xmlns":
            scope[""] = v
            decls.append(("", v))
        elif k.startswith("xmlns:"):
            scope[k[6:]] = v
            decls.append((k[6:], v))
    if ":" in r.qname:
        pfx, local = r.qname.split(":", 1)
        ns = scope.get(pfx, "?unbound")
    else:
        pfx, local, ns = "", r.qname, scope.get("", "")
    ats = []
    for k, v in r.attrs:
        if k == "xmlns" or k.startswith("xmlns:"):
            continue
        if ":" in k:
            ap, al = k.split(":", 1)
            ats.append("(a %s %s %s %s)" % (S(ap), S(XMLNS if ap == "xml" else scope.get(ap, "?unbound")), S(al), S(v)))
        else:
            ats.append("(a s s %s %s)" % (S(k), S(v)))
    kids = [k for k in r.kids if not (isinstance(k, str) and not k.strip(" \t\n\r"))]
    return "(n %s %s %s (%s ) (%s ) (%s ))" % (S(pfx), S(ns), S(local), "".join(" (d %s %s)" % (S(p), S(u)) for p, u in decls),
                                              "".join(" " + a for a in ats), "".join(" " + _nsx(k, scope) for k in kids))


def math_blocks(text):
    """the math elements of a 1.x document as the parser meets them: [(component name, nxml text)] in document order
    (children named math in the MathML namespace of the 1.x component children of the root), or None"""
    root = raw_parse(text)
    if root is None:
        return None

    def scope_of(r, scope):
        scope = dict(scope)
        for k, v in r.attrs:
            if k == "xmlns":
                scope[""] = v
            elif k.startswith("xmlns:"):
                scope[k[6:]] = v
        return scope

    def resolved(r, scope):
        if ":" in r.qname:
            pfx, local = r.qname.split(":", 1)
            return scope.get(pfx, "?unbound"), local
        return scope.get("", ""), r.qname
    s0 = scope_of(root, {})
    out = []
    for c in root.kids:
        if isinstance(c, str):
            continue
        s1 = scope_of(c, s0)
        ns, local = resolved(c, s1)
        if ns not in (CELLML10, CELLML11) or local != "component":
            continue
        cname = dict(c.attrs).get("name")
        for m in c.kids:
            if isinstance(m, str):
                continue
            s2 = scope_of(m, s1)
            if resolved(m, s2) == (MATHML, "math"):
                out.append((cname, _nsx(m, s1)))
    return out


def cellml_prefix_foreign(text):
    """some math element (or an element below it) binds the prefix cellml to a namespace that is neither CellML 1.x nor
    2.0: setNamespacePrefix("cellml") then resolves to that namespace -- visible only to the declaration layer"""
    root = raw_parse(text)
    if root is None:
        return False

    def below(r, inside):
        if isinstance(r, str):
            return False
        inside = inside or r.qname.split(":")[-1] == "math"
        if inside and any(k == "xmlns:cellml" and v not in (CELLML10, CELLML11, CELLML20) for k, v in r.attrs):
            return True
        return any(below(k, inside) for k in r.kids)
    return below(root, False)


def stored_math_raw(math_string):
    """a component's math string as stored by the parser -> [raw canonical text of each math element], or None"""
    r = raw_parse(b"<w>" + (math_string if isinstance(math_string, bytes) else math_string.encode("utf-8")) + b"</w>")
    if r is None:
        return None
    return [raw_canon(k) for k in r.kids if not isinstance(k, str)]


NS_MODES = ["plain", "math_unused", "inner_unused", "component_decl", "other_version_unused", "prefixed_mathml", "shadowed_on_cn",
            "cmeta_on_apply"]


def ns_variation(root, rng):
    """forces namespace declarations onto the math blocks of a 1.x document (content neutral, except cmeta_on_apply which
    is only applied when asked for): where the legacy cellml prefix is declared x whether the block uses it.
    -> (new root, list of modes applied)"""
    root = root.copy()
    V = root.ns
    other = CELLML11 if V == CELLML10 else CELLML10
    applied = []
    for c in root.elems():
        if not (c.ns == V and c.name == "component"):
            continue
        maths = [k for k in c.elems() if k.ns == MATHML and k.name == "math"]
        for m in maths:
            uses = any(a[0] == V for x in m.walk() for a in x.attrs)
            mode = rng.choice(NS_MODES[:-1])
            inner = [x for x in m.walk() if x is not m]
            if mode == "math_unused" and not uses:
                m.decls.append((rng.choice(["cellml", "c"]), V))
            elif mode == "inner_unused" and inner:
                rng.choice(inner).decls.append((rng.choice(["cellml", "cml"]), V))
            elif mode == "component_decl":
                if not any(p == "cellml" for p, _ in c.decls):
                    c.decls.append(("cellml", V))
            elif mode == "other_version_unused":
                (rng.choice(inner) if inner and rng.random() < 0.5 else m).decls.append(("old", other))
            elif mode == "prefixed_mathml":
                m.eprefix = rng.choice(["m", "mathml"])
            elif mode == "shadowed_on_cn":
                # the prefix cellml is bound to the OTHER 1.x namespace on math and re-bound on the elements that use it
                m.decls.append(("cellml", other))
                for x in inner:
                    if any(a[0] == V for a in x.attrs):
                        x.decls.append(("cellml", V))
            else:
                mode = "plain"
            applied.append("ns:" + mode)
    return root, applied


# ------------------------------------------------------------------------------------------------ to1x

def random_style(rng, coq_only=False):
    st = {"priv_first": rng.random() < 0.5, "none": rng.random() < 0.4, "pub_out": rng.random() < 0.5,
          "priv_out": rng.random() < 0.5, "cm": rng.random() < 0.7, "us": rng.random() < 0.5, "hoist": rng.random() < 0.4,
          "per_var": False, "place": False, "mcpos": rng.choice([0, 0, 1, 2, 9]), "rrpos": rng.choice([0, 0, 1, 2, 9])}
    if not coq_only:
        st["per_var"] = rng.random() < 0.4
        st["place"] = rng.random() < 0.3
        if st["place"]:
            st["hoist"] = False
    return st


def style_bits(version, st):
    return ("1" if version == "1.1" else "0") + "".join("1" if st[k] else "0" for k in
                                                       ("priv_first", "none", "pub_out", "priv_out", "cm", "us", "hoist")) \
        + "-%d-%d" % (st.get("mcpos", 0), st.get("rrpos", 0))


def iface_attrs(st, val):
    pub = val in ("public", "public_and_private")
    priv = val in ("private", "public_and_private")
    pa = [["", "public_interface", "out" if st["pub_out"] else "in"]] if pub else \
        ([["", "public_interface", "none"]] if st["none"] else [])
    pr = [["", "private_interface", "out" if st["priv_out"] else "in"]] if priv else \
        ([["", "private_interface", "none"]] if st["none"] else [])
    return pr + pa if st["priv_first"] else pa + pr


def to1x(root, version, st, rng=None):
    """root: N of a CellML 2.0 document (the printer's vocabulary).  -> N of the 1.x document"""
    V = VNS[version]
    rng = rng or random.Random(0)

    def conv_id(a):
        if st["cm"] and a[0] == "" and a[1] == "id":
            return [CMETA, "id", a[2]]
        return list(a)

    def us_spell(s):
        if st["us"]:
            return {"litre": "liter", "metre": "meter"}.get(s, s)
        return s

    def conv_units_attr(a):
        if a[0] == "" and a[1] == "units":
            return ["", "units", us_spell(a[2])]
        return conv_id(a)

    def is20(k, name):
        return isinstance(k, N) and k.ns == CELLML20 and k.name == name

    def retag(k, f):
        return N(V, k.name, [f(a) for a in k.attrs], k.kids)

    def conv_units(x):
        return N(V, x.name, [conv_id(a) for a in x.attrs], [retag(k, conv_units_attr) if is20(k, "unit") else k for k in x.kids])

    def conv_variable(x):
        s = st
        if st["per_var"]:
            s = dict(st, priv_first=rng.random() < 0.5, none=rng.random() < 0.5, pub_out=rng.random() < 0.5,
                     priv_out=rng.random() < 0.5)
        attrs = []
        seen = False
        for a in x.attrs:
            if a[0] == "" and a[1] == "interface":
                attrs += iface_attrs(s, a[2])
                seen = True
            else:
                attrs.append(conv_units_attr(a))
        if not seen:
            attrs += iface_attrs(s, "")
        return N(V, x.name, attrs, x.kids)

    def conv_below(x):
        if isinstance(x, str):
            return x
        return N(x.ns, x.name, [[V, a[1], a[2]] if a[0] == CELLML20 else list(a) for a in x.attrs], [conv_below(k) for k in x.kids])

    def conv_math(x):
        return N(x.ns, x.name, x.attrs, [conv_below(k) for k in x.kids])

    def conv_component(x):
        kids = []
        for k in x.kids:
            if is20(k, "variable"):
                kids.append(conv_variable(k))
            elif isinstance(k, N) and k.ns == MATHML and k.name == "math":
                kids.append(conv_math(k))
            else:
                kids.append(k)
        return N(V, x.name, [conv_id(a) for a in x.attrs], kids)

    def conv_import(x):
        return N(V, x.name, [conv_id(a) for a in x.attrs],
                 [retag(k, conv_id) if (is20(k, "component") or is20(k, "units")) else k for k in x.kids])

    def conv_cref(x):
        return N(V, x.name, [conv_id(a) for a in x.attrs], [conv_cref(k) if is20(k, "component_ref") else k for k in x.kids])

    def conv_encapsulation(x):
        rr = N(V, "relationship_ref", [["", "relationship", "encapsulation"]])
        ks = [conv_cref(k) if is20(k, "component_ref") else k for k in x.kids]
        i = min(st.get("rrpos", 0), len(ks))
        return N(V, "group", [conv_id(a) for a in x.attrs], ks[:i] + [rr] + ks[i:])

    def conv_connection(x):
        mc = N(V, "map_components", [conv_id(a) for a in x.attrs])
        ks = [retag(k, conv_id) if is20(k, "map_variables") else k for k in x.kids]
        i = min(st.get("mcpos", 0), len(ks))
        return N(V, x.name, [], ks[:i] + [mc] + ks[i:])

    kids = []
    for k in root.kids:
        if is20(k, "import"):
            kids.append(conv_import(k))
        elif is20(k, "units"):
            kids.append(conv_units(k))
        elif is20(k, "component"):
            kids.append(conv_component(k))
        elif is20(k, "connection"):
            kids.append(conv_connection(k))
        elif is20(k, "encapsulation"):
            kids.append(conv_encapsulation(k))
        else:
            kids.append(k)
    if st["hoist"]:
        out, pending, i = [], [], 0
        while i < len(kids):
            k = kids[i]
            if isinstance(k, N) and k.ns == V and k.name == "units":
                pending.append(k)
            elif isinstance(k, N) and k.ns == V and k.name == "component":
                out.append(N(k.ns, k.name, k.attrs, pending + k.kids))
                pending = []
                out += kids[i + 1:]
                break
            else:
                out += pending + [k]
                pending = []
            i += 1
        else:
            out += pending
        kids = out
    elif st["place"]:
        comps = [k for k in kids if isinstance(k, N) and k.ns == V and k.name == "component"]
        if comps:
            keep = []
            for k in kids:
                if isinstance(k, N) and k.ns == V and k.name == "units" and rng.random() < 0.6:
                    c = rng.choice(comps)
                    c.kids.insert(rng.randint(0, len(c.kids)), k)
                else:
                    keep.append(k)
            kids = keep
    return N(V, root.name, [conv_id(a) for a in root.attrs], kids)


# ------------------------------------------------------------------------------------------------ child order
ORDER_MODES = ["order:model", "order:component", "order:connection", "order:group", "order:units", "order:import"]


def shuffle_children(root, rng, modes):
    """permutes children wherever the 1.x specifications fix no order and the loader scans the children (content neutral up
    to child order): model {imports, units, components, groups, connections in any order}, component {units / variables /
    math interleaved, variables permuted; the math blocks keep their relative order: they are concatenated}, connection
    {map_components anywhere, map_variables permuted}, group {relationship_ref anywhere, top-level component_refs permuted},
    units {unit children permuted}, import {children permuted}.  -> (new root, modes applied)"""
    root = root.copy()
    V = root.ns
    applied = []

    def perm(x):
        ks = list(x.kids)
        rng.shuffle(ks)
        x.kids = ks

    def keep_relative(x, pred):
        """random permutation that keeps the relative order of the children satisfying pred"""
        fixed = [k for k in x.kids if pred(k)]
        ks = list(x.kids)
        rng.shuffle(ks)
        it = iter(fixed)
        x.kids = [next(it) if pred(k) else k for k in ks]
    for mode in modes:
        if mode == "order:model":
            perm(root)
        elif mode == "order:component":
            for c in root.elems():
                if c.ns == V and c.name == "component":
                    keep_relative(c, lambda k: isinstance(k, N) and k.ns == MATHML)
        elif mode == "order:connection":
            for c in root.elems():
                if c.ns == V and c.name == "connection":
                    perm(c)
        elif mode == "order:group":
            for g in root.elems():
                if g.ns == V and g.name == "group":
                    perm(g)
        elif mode == "order:units":
            for u in root.walk():
                if u.ns == V and u.name == "units":
                    perm(u)
        elif mode == "order:import":
            for u in root.elems():
                if u.ns == V and u.name == "import":
                    perm(u)
        else:
            raise ValueError(mode)
        applied.append(mode)
    return root, applied


# ------------------------------------------------------------------------------------------------ decorations

def rdf_block():
    return N(RDF, "RDF", [], [N(RDF, "Description", [[RDF, "about", "#x"]], [N("http://purl.org/dc/elements/1.1/", "title", [], ["t"])])])


# name -> (class, description).  class: "msg" = the pinned parser reports only messages; "fd" = an error before fix
# C14-foreign-children; "offset" = known finding C14-unit-attribute-error; "groups" = known finding
# C14-several-encapsulation-groups; "silent" = no issue at all
DECORATIONS = {
    "rdf_model": "msg", "rdf_component": "msg", "rdf_variable": "msg", "rdf_import": "msg", "rdf_connection": "msg",
    "doc_model": "msg", "doc_component": "msg", "reaction": "msg",
    "attr_model": "msg", "attr_component": "msg", "attr_units": "msg", "attr_variable": "msg", "attr_mapcomp": "msg",
    "base_units": "msg",
    "containment_group": "silent", "second_relationship": "silent", "group_name": "silent", "comments": "silent",
    "rdf_units": "fd", "rdf_unit": "fd", "rdf_group": "fd", "rdf_cref": "fd", "rdf_mapcomp": "fd", "rdf_mapvar": "fd",
    "unit_offset": "offset",
    "split_groups": "groups",
}


def decorate(root, rng, names):
    """applies the named decorations (those that find a place); returns (new root, list of the ones applied).
    Every decoration leaves the content of the transformed model unchanged."""
    root = root.copy()
    V = root.ns
    applied = []

    def els(name, ns=V):
        return [x for x in root.walk() if x.ns == ns and x.name == name]

    def put(parent, node):
        parent.kids.insert(rng.randint(0, len(parent.kids)), node)

    for d in names:
        if d == "rdf_model":
            put(root, rdf_block())
        elif d == "doc_model":
            put(root, N(DOC, "documentation", [], [N(DOC, "para", [], ["about"])]))
        elif d in ("rdf_component", "doc_component", "reaction"):
            cs = [c for c in root.elems() if c.ns == V and c.name == "component"]
            if not cs:
                continue
            c = rng.choice(cs)
            if d == "rdf_component":
                put(c, rdf_block())
            elif d == "doc_component":
                put(c, N(DOC, "documentation", [], ["text"]))
            else:
                vs = [k.get("name") for k in c.elems() if k.name == "variable"] or ["x"]
                put(c, N(V, "reaction", [["", "reversible", "no"]],
                         [N(V, "variable_ref", [["", "variable", rng.choice(vs)]],
                            [N(V, "role", [["", "role", "reactant"], ["", "direction", "forward"], ["", "stoichiometry", "1"]])])]))
        elif d == "rdf_variable":
            vs = els("variable")
            if not vs:
                continue
            put(rng.choice(vs), rdf_block())
        elif d == "rdf_import":
            xs = [k for k in root.elems() if k.ns == V and k.name == "import"]
            if not xs:
                continue
            put(rng.choice(xs), rdf_block())
        elif d == "rdf_connection":
            xs = [k for k in root.elems() if k.ns == V and k.name == "connection"]
            if not xs:
                continue
            x = rng.choice(xs)
            x.kids.insert(rng.randint(1, len(x.kids)), rdf_block())
        elif d in ("rdf_units", "attr_units", "base_units"):
            xs = [u for u in els("units") if u.get("units_ref") is None]
            if d == "base_units":
                xs = [u for u in xs if not u.elems()]
            if not xs:
                continue
            u = rng.choice(xs)
            if d == "rdf_units":
                put(u, rdf_block())
            elif d == "attr_units":
                u.attrs.append(["", "foo", "bar"])
            else:
                u.attrs.append(["", "base_units", "yes"])
        elif d in ("rdf_unit", "unit_offset"):
            xs = els("unit")
            if not xs:
                continue
            x = rng.choice(xs)
            if d == "rdf_unit":
                put(x, rdf_block())
            else:
                x.attrs.append(["", "offset", "0.0"])
        elif d in ("rdf_group", "group_name", "second_relationship"):
            xs = [g for g in els("group")]
            if not xs:
                continue
            g = rng.choice(xs)
            if d == "rdf_group":
                put(g, rdf_block())
            elif d == "group_name":
                g.attrs.append([CMETA, "id", "group_id"])
            else:
                g.kids.insert(rng.randint(0, 1), N(V, "relationship_ref", [["", "relationship", "containment"], ["", "name", "physical"]]))
        elif d == "rdf_cref":
            xs = els("component_ref")
            if not xs:
                continue
            put(rng.choice(xs), rdf_block())
        elif d in ("rdf_mapcomp", "attr_mapcomp"):
            xs = els("map_components")
            if not xs:
                continue
            if d == "rdf_mapcomp":
                put(rng.choice(xs), rdf_block())
            else:
                rng.choice(xs).attrs.append(["", "foo", "bar"])
        elif d == "rdf_mapvar":
            xs = els("map_variables")
            if not xs:
                continue
            put(rng.choice(xs), rdf_block())
        elif d == "attr_model":
            root.attrs.append([XMLNS, "base", "http://example.org/m"])
        elif d == "attr_component":
            cs = [c for c in root.elems() if c.ns == V and c.name == "component"]
            if not cs:
                continue
            rng.choice(cs).attrs.append([CMETA, "label", "l"])
        elif d == "attr_variable":
            vs = els("variable")
            if not vs:
                continue
            rng.choice(vs).attrs.append(["", "foo", "1"])
        elif d == "containment_group":
            cs = [c.get("name") for c in root.elems() if c.ns == V and c.name == "component"]
            if len(cs) < 2:
                continue
            a, b = rng.sample(cs, 2)
            g = N(V, "group", [], [N(V, "relationship_ref", [["", "relationship", "containment"]]),
                                   N(V, "component_ref", [["", "component", a]], [N(V, "component_ref", [["", "component", b]])])])
            # before or after the encapsulation group: a containment group never counts
            put(root, g)
        elif d == "split_groups":
            gs = [g for g in root.elems() if g.ns == V and g.name == "group"]
            if len(gs) != 1:
                continue
            g = gs[0]
            crefs = [k for k in g.elems() if k.name == "component_ref"]
            if len(crefs) < 2:
                continue
            rest = [k for k in g.kids if not (isinstance(k, N) and k.name == "component_ref")]
            g.kids = rest + crefs[:1]
            i = root.kids.index(g)
            for j, c in enumerate(crefs[1:]):
                root.kids.insert(i + 1 + j, N(V, "group", [], [N(V, "relationship_ref", [["", "relationship", "encapsulation"]]), c]))
        elif d == "comments":
            pass      # done by the serialiser
        else:
            raise ValueError(d)
        applied.append(d)
    return root, applied


# ------------------------------------------------------------------------------------------------ hand-shaped documents

def _m(version, body, name="m", extra=""):
    return ('<?xml version="1.0" encoding="UTF-8"?>\n<model xmlns="%s" xmlns:cmeta="%s" xmlns:cellml="%s" '
            'xmlns:rdf="%s" xmlns:xlink="%s" name="%s"%s>\n%s\n</model>\n') % (VNS[version], CMETA, VNS[version], RDF, XLINK, name, extra, body)


MATH = '<math xmlns="%s">' % MATHML


def hand_documents():
    """-> list of (name, text, tags).  tags: 'legal' = made of legal 1.x constructs only (so: nothing stronger than a
    message is allowed, apart from the listed finding classes), 'valid' = the transformed model must pass the
    Validator, plus the finding / fix classes the document is in ('fi', 'fd', 'offset', 'groups', 'clash')."""
    docs = []

    def add(name, text, *tags):
        docs.append((name, text, set(tags)))

    for ver in ("1.0", "1.1"):
        t = ver.replace(".", "")
        add("empty_" + t, '<?xml version="1.0"?>\n<model xmlns="%s"/>\n' % VNS[ver], "legal", "valid0")
        add("named_" + t, _m(ver, "", extra=' cmeta:id="mid"'), "legal", "valid")
        # the 3 x 3 table of interface values, both attribute orders, and single attributes
        vals = ["in", "out", "none"]
        rows = []
        k = 0
        for pu in vals:
            for pr in vals:
                rows.append('<variable name="v%d" units="second" public_interface="%s" private_interface="%s"/>' % (k, pu, pr))
                rows.append('<variable name="w%d" units="second" private_interface="%s" public_interface="%s"/>' % (k, pr, pu))
                k += 1
        for pu in vals:
            rows.append('<variable name="p%s" units="second" public_interface="%s"/>' % (pu, pu))
            rows.append('<variable name="q%s" units="second" private_interface="%s"/>' % (pu, pu))
        rows.append('<variable name="bare" units="second"/>')
        add("interface_table_" + t, _m(ver, '<component name="c">\n' + "\n".join(rows) + "\n</component>"), "legal", "valid", "fi")
        # interface attribute of 2.0 mixed with the legacy pair (not legal 1.x: correspondence only)
        add("interface_mixed_" + t, _m(ver, '<component name="c">'
                                           '<variable name="a" units="second" interface="public_and_private" public_interface="in"/>'
                                           '<variable name="b" units="second" public_interface="in" interface="private"/>'
                                           '<variable name="c" units="second" private_interface="in" interface="public" public_interface="out"/>'
                                           '<variable name="d" units="second" public_interface="bogus" private_interface=""/>'
                                           '</component>'))
        # units inside components, with and without a clash with model-level units
        add("component_units_" + t, _m(ver, '<units name="mV"><unit units="volt" prefix="milli"/></units>'
                                           '<component name="a"><units name="ms"><unit units="second" prefix="milli"/></units>'
                                           '<variable name="t" units="ms"/><variable name="v" units="mV"/>'
                                           '<units name="per_ms"><unit units="ms" exponent="-1"/></units></component>'
                                           '<component name="b"><variable name="x" units="us"/>'
                                           '<units name="us" cmeta:id="us_id"><unit units="second" prefix="micro" cmeta:id="unit_id"/></units></component>'),
            "legal", "valid")
        add("component_units_clash_" + t, _m(ver, '<units name="u"><unit units="second"/></units>'
                                                 '<component name="a"><units name="u"><unit units="metre"/></units><variable name="x" units="u"/></component>'
                                                 '<component name="b"><units name="u"><unit units="volt"/></units><variable name="y" units="u"/></component>'),
            "legal", "clash")
        # units in a component nested in the document by a foreign namespace / as child of other elements: not hoisted
        add("component_units_foreign_" + t, _m(ver, '<component name="a"><units xmlns="%s" name="k"><unit units="second"/></units>'
                                                   '<variable name="x" units="second"><units name="inner"/></variable></component>' % CELLML20))
        # liter / meter
        add("nonsi_" + t, _m(ver, '<units name="vol"><unit units="liter" prefix="milli"/><unit units="meter" exponent="2"/><unit units="litre"/></units>'
                                  '<units name="meter_like"><unit units="metre"/></units>'
                                  '<component name="c"><variable name="a" units="liter"/><variable name="b" units="meter"/>'
                                  '<variable name="c" units="metre"/><variable name="d" units="vol"/></component>'), "legal", "valid")
        # groups
        add("groups_one_" + t, _m(ver, '<component name="a"/><component name="b"/><component name="c"/><component name="d"/>'
                                      '<group><relationship_ref relationship="encapsulation"/>'
                                      '<component_ref component="a" cmeta:id="ra"><component_ref component="b"><component_ref component="c" cmeta:id="rc"/></component_ref>'
                                      '<component_ref component="d"/></component_ref></group>'), "legal", "valid")
        add("groups_containment_" + t, _m(ver, '<component name="a"/><component name="b"/><component name="c"/>'
                                              '<group><relationship_ref relationship="containment" name="phys"/>'
                                              '<component_ref component="a"><component_ref component="b"/></component_ref></group>'
                                              '<group><relationship_ref relationship="containment"/><relationship_ref relationship="encapsulation"/>'
                                              '<component_ref component="b"><component_ref component="c"/></component_ref></group>'), "legal", "valid")
        add("groups_several_" + t, _m(ver, '<component name="a"/><component name="b"/><component name="c"/><component name="d"/>'
                                          '<group><relationship_ref relationship="encapsulation"/><component_ref component="a"><component_ref component="b"/></component_ref></group>'
                                          '<group><relationship_ref relationship="encapsulation"/><component_ref component="c"><component_ref component="d"/></component_ref></group>'),
            "legal", "groups")
        add("groups_broken_" + t, _m(ver, '<component name="a"/><component name="b"/>'
                                         '<group><relationship_ref relationship="encapsulation"/><component_ref component="a"/>'
                                         '<component_ref component="nosuch"><component_ref component="b"/></component_ref>'
                                         '<component_ref><component_ref component="a"/></component_ref></group>'))
        # connections
        add("connection_" + t, _m(ver, '<component name="a"><variable name="x" units="second" public_interface="out"/><variable name="y" units="second" public_interface="in"/></component>'
                                      '<component name="b"><variable name="x" units="second" public_interface="in"/><variable name="y" units="second" public_interface="out"/></component>'
                                      '<connection cmeta:id="ignored"><map_components component_1="a" component_2="b" cmeta:id="conn"/>'
                                      '<map_variables variable_1="x" variable_2="x" cmeta:id="mx"/><map_variables variable_2="y" variable_1="y"/></connection>'),
            "legal", "valid")
        add("connection_broken_" + t, _m(ver, '<component name="a"><variable name="x" units="second"/></component><component name="b"><variable name="x" units="second"/></component>'
                                             '<connection><map_variables variable_1="x" variable_2="x"/></connection>'
                                             '<connection><map_components component_1="a"/><map_variables variable_1="x" variable_2="x"/></connection>'
                                             '<connection><map_components component_1="a" component_2="b"/></connection>'
                                             '<connection><map_components component_1="a" component_2="b"/><map_components component_1="b" component_2="a"/>'
                                             '<map_variables variable_1="x" variable_2="nosuch"/><map_variables variable_1="x" variable_2="x" bogus="1"/></connection>'
                                             '<connection><map_components component_1="a" component_2="a"/><map_variables variable_1="x" variable_2="x"/></connection>'))
        # dropped constructs at every place where only a message is due
        add("dropped_" + t, _m(ver, '<rdf:RDF><rdf:Description rdf:about="#mid"/></rdf:RDF>'
                                   '<documentation xmlns="%s"><p>doc</p></documentation>'
                                   '<units name="base" base_units="yes"/>'
                                   '<component name="a" cmeta:id="cid" cmeta:other="o"><rdf:RDF/>'
                                   '<variable name="x" units="base" cmeta:id="vid" foo="bar"><rdf:RDF/></variable>'
                                   '<reaction reversible="no"><variable_ref variable="x"><role role="reactant" direction="forward" stoichiometry="1"/></variable_ref></reaction>'
                                   '</component>'
                                   '<component name="b"><variable name="x" units="base"/></component>'
                                   '<connection><rdf:RDF/><map_components component_1="a" component_2="b" foo="1"/><map_variables variable_1="x" variable_2="x"/><rdf:RDF/></connection>'
                                   % DOC, extra=' cmeta:id="mid" xml:base="http://example.org/"'), "legal")
        # ... and where the pinned parser reports an error (fix C14-foreign-children)
        add("dropped_fd_" + t, _m(ver, '<units name="u"><rdf:RDF/><unit units="second"><rdf:RDF/></unit></units>'
                                      '<component name="a"><variable name="x" units="u"/></component><component name="b"><variable name="x" units="u"/></component>'
                                      '<group><rdf:RDF/><relationship_ref relationship="encapsulation"/><component_ref component="a"><rdf:RDF/><component_ref component="b"/></component_ref></group>'
                                      '<connection><map_components component_1="a" component_2="b"><rdf:RDF/></map_components><map_variables variable_1="x" variable_2="x"><rdf:RDF/></map_variables></connection>'),
            "legal", "fd")
        add("unit_offset_" + t, _m(ver, '<units name="celsius"><unit units="kelvin" offset="273.15"/></units><units name="k2"><unit units="kelvin" offset="0.0" multiplier="2"/></units>'),
            "legal", "offset")
        # cmeta:id on every element, also together with a plain id (XmlAttribute::value() answers by LOCAL name)
        add("cmeta_everywhere_" + t, _m(ver, '<units name="u" cmeta:id="i_u"><unit units="second" cmeta:id="i_unit"/></units>'
                                            '<component name="a" cmeta:id="i_a"><variable name="x" units="u" cmeta:id="i_x" private_interface="out"/></component>'
                                            '<component name="b" cmeta:id="i_b"><variable name="x" units="u" cmeta:id="i_bx" public_interface="in"/></component>'
                                            '<group cmeta:id="i_g"><relationship_ref relationship="encapsulation" cmeta:id="i_rr"/><component_ref component="a" cmeta:id="i_ra"><component_ref component="b" cmeta:id="i_rb"/></component_ref></group>'
                                            '<connection cmeta:id="i_c"><map_components component_1="a" component_2="b" cmeta:id="i_mc"/><map_variables variable_1="x" variable_2="x" cmeta:id="i_mv"/></connection>',
                                    extra=' cmeta:id="i_m"'), "legal", "valid")
        add("cmeta_and_id_" + t, _m(ver, '<component name="a" cmeta:id="first" id="second"><variable id="p" cmeta:id="q" name="x" units="second"/></component>'
                                        '<units id="plain" name="u"/>', extra=' id="plainm"'))
        # MathML: cellml:units on cn, declared at the root / on math / on cn, other prefixes, other attributes
        other = "1.1" if ver == "1.0" else "1.0"
        add("math_root_decl_" + t, _m(ver, '<component name="c"><variable name="x" units="second"/>' + MATH +
                                          '<apply><eq/><ci>x</ci><cn cellml:units="second">1</cn></apply></math></component>'), "legal", "valid")
        add("math_math_decl_" + t, '<?xml version="1.0"?>\n<model xmlns="%s" name="m"><component name="c"><variable name="x" units="second"/>'
                                    '<math xmlns="%s" xmlns:cellml="%s"><apply><eq/><ci>x</ci><cn cellml:units="second" type="e-notation">1<sep/>2</cn></apply></math>'
                                    '<math xmlns="%s" xmlns:c="%s"><apply><eq/><ci>x</ci><cn c:units="second">3</cn></apply></math>'
                                    '</component></model>\n' % (VNS[ver], MATHML, VNS[ver], MATHML, VNS[ver]), "legal", "valid")
        add("math_cn_decl_" + t, '<?xml version="1.0"?>\n<model xmlns="%s" name="m"><component name="c"><variable name="x" units="second"/>'
                                  '<math xmlns="%s"><apply><eq/><ci>x</ci><apply><plus/><cn xmlns:cellml="%s" cellml:units="second">1</cn>'
                                  '<cn xmlns:old="%s" type="real" old:units="second">2</cn><cn xmlns:two="%s" two:units="second">3</cn></apply></apply></math>'
                                  '</component></model>\n' % (VNS[ver], MATHML, VNS[ver], VNS[other], CELLML20), "legal", "valid")
        add("math_other_attrs_" + t, _m(ver, '<component name="c"><variable name="x" units="second"/>' + MATH +
                                            '<apply cmeta:id="eq1"><eq/><ci>x</ci><cn cellml:units="second" cellml:foo="f" type="real" cmeta:id="n1">1</cn></apply></math>'
                                            + MATH + '<apply><eq/><ci>x</ci><cn type="real" cellml:units="second">2</cn></apply></math></component>'), "legal")
    # child order: the loader scans the children, the specifications fix no order
    two = ('<component name="a"><variable name="x" units="second" public_interface="out"/><variable name="y" units="second" public_interface="in"/></component>'
           '<component name="b"><variable name="x" units="second" public_interface="in"/><variable name="y" units="second" public_interface="out"/></component>')
    mcx = '<map_components component_1="a" component_2="b" cmeta:id="conn"/>'
    mv1, mv2 = '<map_variables variable_1="x" variable_2="x" cmeta:id="mx"/>', '<map_variables variable_1="y" variable_2="y"/>'
    for ver in ("1.0", "1.1"):
        t = ver.replace(".", "")
        add("order_map_components_last_" + t, _m(ver, two + '<connection>' + mv1 + mv2 + mcx + '</connection>'), "legal", "valid")
        add("order_map_components_middle_" + t, _m(ver, two + '<connection>' + mv1 + mcx + mv2 + '</connection>'), "legal", "valid")
        add("order_map_components_after_rdf_" + t, _m(ver, two + '<connection><rdf:RDF/>' + mv2 + mcx + mv1 + '</connection>'), "legal")
        add("order_relationship_ref_last_" + t, _m(ver, '<component name="a"/><component name="b"/><component name="c"/>'
                                                  '<group><component_ref component="a"><component_ref component="b"/></component_ref>'
                                                  '<component_ref component="c"/><relationship_ref relationship="encapsulation"/></group>'))
        add("order_relationship_ref_between_" + t, _m(ver, '<component name="a"/><component name="b"/><component name="c"/><component name="d"/>'
                                                     '<group><component_ref component="a"><component_ref component="b"/></component_ref>'
                                                     '<relationship_ref relationship="encapsulation"/><component_ref component="c"><component_ref component="d"/></component_ref></group>'),
            "legal", "valid")
        add("order_model_children_" + t, _m(ver, '<connection>' + mv1 + mcx + '</connection>'
                                           '<group><relationship_ref relationship="encapsulation"/><component_ref component="a"><component_ref component="c"/></component_ref></group>'
                                           '<component name="c"><math xmlns="%s"><apply><eq/><ci>z</ci><cn cellml:units="u">1</cn></apply></math><variable name="z" units="u"/><units name="u"><unit units="second"/></units></component>'
                                           % MATHML + two.replace('<component name="a">', '<component name="a"><units name="w"><unit units="u" exponent="2"/><unit units="metre"/></units>')
                                           + '<units name="k"><unit units="w"/></units>'), "legal", "valid")
    # where the legacy prefix is declared x whether the math block uses it
    M, C10, C11, C20 = MATHML, CELLML10, CELLML11, CELLML20

    def nsdoc(root_attrs, maths, ver="1.0"):
        return ('<?xml version="1.0"?>\n<model xmlns="%s" name="m"%s><component name="c"><variable name="x" units="second"/>%s</component>'
                '<component name="d"><variable name="y" units="second"/>%s</component></model>\n') % (VNS[ver], root_attrs, "".join(maths), maths[-1].replace(">x</ci>", ">y</ci>").replace(">x</m:ci>", ">y</m:ci>"))
    ci_only = '<apply><eq/><ci>x</ci><ci>x</ci></apply>'
    with_cn = '<apply><eq/><ci>x</ci><cn %s:units="second">1</cn></apply>'
    add("ns_math_unused", nsdoc('', ['<math xmlns="%s" xmlns:cellml="%s">%s</math>' % (M, C10, ci_only)]), "legal", "valid")
    add("ns_inner_unused", nsdoc('', ['<math xmlns="%s"><apply xmlns:cellml="%s"><eq/><ci>x</ci><ci xmlns:c="%s">x</ci></apply></math>' % (M, C10, C11)]), "legal", "valid")
    add("ns_model_used", nsdoc(' xmlns:cellml="%s"' % C10, ['<math xmlns="%s">%s</math>' % (M, with_cn % "cellml")]), "legal", "valid")
    add("ns_model_unused", nsdoc(' xmlns:cellml="%s"' % C10, ['<math xmlns="%s">%s</math>' % (M, ci_only)]), "legal", "valid")
    add("ns_used_in_other_block", nsdoc('', ['<math xmlns="%s" xmlns:cellml="%s">%s</math>' % (M, C10, with_cn % "cellml"),
                                            '<math xmlns="%s" xmlns:cellml="%s">%s</math>' % (M, C10, ci_only),
                                            '<math xmlns="%s">%s</math>' % (M, ci_only)]), "legal", "valid")
    add("ns_component_decl", '<?xml version="1.0"?>\n<model xmlns="%s" name="m"><component name="c" xmlns:cellml="%s"><variable name="x" units="second"/>'
                             '<math xmlns="%s">%s</math><math xmlns="%s">%s</math></component></model>\n' % (C11, C11, M, with_cn % "cellml", M, ci_only), "legal", "valid")
    add("ns_two_prefixes", nsdoc('', ['<math xmlns="%s"><apply><eq/><ci xmlns:c="%s">x</ci><cn xmlns:d="%s" d:units="second">2</cn></apply></math>' % (M, C10, C11)]), "legal", "valid")
    add("ns_cmeta_copied", nsdoc(' xmlns:cmeta="%s"' % CMETA, ['<math xmlns="%s"><apply cmeta:id="e1"><eq/><ci>x</ci><ci>x</ci></apply></math>' % M]), "legal")
    add("ns_math_declares_20", nsdoc(' xmlns:old="%s"' % C10, ['<math xmlns="%s" xmlns:cellml="%s">%s</math>' % (M, C20, with_cn % "old")]), "legal", "valid")
    add("ns_shadowed", nsdoc('', ['<math xmlns="%s" xmlns:cellml="%s"><apply><eq/><ci>x</ci><cn xmlns:cellml="%s" cellml:units="second">1</cn></apply></math>' % (M, C11, C10)]), "legal", "valid")
    add("ns_prefixed_mathml", nsdoc('', ['<m:math xmlns:m="%s" xmlns:cellml="%s"><m:apply><m:eq/><m:ci>x</m:ci><m:cn cellml:units="second">1</m:cn></m:apply></m:math>' % (M, C10),
                                        '<m:math xmlns:m="%s" xmlns:cellml="%s"><m:apply><m:eq/><m:ci>x</m:ci><m:ci>x</m:ci></m:apply></m:math>' % (M, C10)]), "legal")
    # (the Validator's MathML DTD check does not accept prefixed MathML element names, in a 2.0 document either)
    add("ns_default_1x_inside_math", nsdoc('', ['<math xmlns="%s"><apply xmlns="%s"><eq/><ci>x</ci></apply></math>' % (M, C10)]))
    add("ns_cellml_bound_elsewhere", nsdoc('', ['<math xmlns="%s" xmlns:cellml="http://other"><apply><eq/><ci>x</ci><cn xmlns:o="%s" o:units="second">1</cn></apply></math>' % (M, C10)]))
    add("ns_math_own_attribute", nsdoc('', ['<math xmlns="%s" xmlns:cellml="%s" cellml:note="n">%s</math>' % (M, C10, ci_only)]))
    # imports (1.1), also written in a 1.0 document
    for ver in ("1.1", "1.0"):
        t = ver.replace(".", "")
        add("imports_" + t, _m(ver, '<import xlink:href="lib.cellml" cmeta:id="imp"><units name="iu" units_ref="u" cmeta:id="iuid"/>'
                                   '<component name="ic" component_ref="c" cmeta:id="icid"/><rdf:RDF/></import>'
                                   '<import xlink:href="other.cellml" xlink:type="simple"><component name="id" component_ref="d"/></import>'
                                   '<component name="a"><variable name="x" units="iu" public_interface="in"/></component>'
                                   '<connection><map_components component_1="a" component_2="ic"/><map_variables variable_1="x" variable_2="px"/></connection>'
                                   '<group><relationship_ref relationship="encapsulation"/><component_ref component="ic"><component_ref component="id"/></component_ref></group>'),
            "legal")
    # not a 1.x document at all
    add("unknown_namespace", '<?xml version="1.0"?>\n<model xmlns="http://www.cellml.org/cellml/1.3#" name="name"/>\n')
    add("not_a_model", '<?xml version="1.0"?>\n<component xmlns="%s" name="name"/>\n' % CELLML11)
    add("v20_with_legacy_children", '<?xml version="1.0"?>\n<model xmlns="%s" name="m"><component name="c"><variable name="x" units="second" public_interface="in"/></component>'
                                    '<group xmlns="%s"><relationship_ref relationship="encapsulation"/></group></model>\n' % (CELLML20, CELLML10))
    add("v1x_with_20_children", '<?xml version="1.0"?>\n<model xmlns="%s" name="m"><component name="a"><variable name="x" units="second"/>'
                                '<reset xmlns="%s" variable="x" test_variable="x" order="1"><test_value><math xmlns="%s"><cn>1</cn></math></test_value></reset></component>'
                                '<component name="b"/><encapsulation xmlns="%s" id="e"><component_ref component="a"><component_ref component="b"/></component_ref>'
                                '<component_ref xmlns="%s" component="a"><component_ref component="b"/></component_ref></encapsulation>'
                                '<connection xmlns="%s" component_1="a" component_2="b"/></model>\n' % (CELLML10, CELLML20, MATHML, CELLML20, CELLML10, CELLML20))
    return docs
