"""Seeded generator of VALID CellML 2.0 models for the whole-model layer of C03 (reusable by C17).

    generate(seed, mdl=None, workdir=None, unsafe_prob=0.15, nla_prob=0.08, allowed_plants=None) -> dict
        desc   model description (format documented in gen/matheval.py)
        xml    the CellML 2.0 text (what the library is given)
        meta   {"seed", "voi": value of the variable of integration used for evaluation (in the units of the
                predicted primary voi variable), "unsafe": the model deliberately contains known mis-printed shapes,
                "planted": [finding ids planted], "nla": n systems, "scaled_connections": n, "components", "states",
                "equations", "nested_equations" (equations with an operator nested in an operator), "ops": operator
                histogram of the final text, "attempts"}

What a model looks like
    * 2-4 sibling components (no encapsulation); every connected variable has interface="public".
    * constants (initial_value, in all the number forms CellML allows), computed constants, algebraic variables
      (depend on states / the voi), ODE states (`d x/d t = f(...)`; the initial value sometimes sits on an
      equivalent variable of another component), sometimes the rate of a state used on a right-hand side, sometimes
      the unknown on the right (`f(...) = y`), optionally ONE small NLA system (a single non-isolated unknown without
      initial value, or 2 unknowns with initial guesses, linear or mildly non-linear, with a known exact solution).
    * every reference to a quantity of another component goes through a local variable joined by a <connection>;
      that local variable usually has COMPATIBLE-BUT-SCALED units (prefix name or number, multiplier, nested user
      units, compound units), so the analyser has to insert scaling factors; a class may have two members in an
      importing component.  Unit children with an exponent other than 1 never carry a prefix (libcellml's
      Units::scalingFactor mishandles that combination; it is C08's finding, not C03's).
      Equations are not dimensionally consistent in general: the analyser reports that as warnings only.
    * right-hand sides are random expression trees over the whole MathML operator set CellML supports (n-ary plus /
      times / and / or / xor / min / max, unary plus / minus, power, root and log with and without qualifier, all
      trigonometric families, relational and logical operators also used as numbers, piecewise with 1-3 pieces with
      and without otherwise, the constants, `infinity` only as a comparison operand, never `notanumber`), every
      operator allowed in every operand position, with numerically tame values: every sub-expression is evaluated with
      the reference evaluator in strict mode while it is built (finite, |v| <= 1e6, no comparison / floor / rem / min
      / max near a tie, no argument near a domain edge or pole, no heavy cancellation; arguments are wrapped into
      the function's domain, which adds nesting) and the finished model must pass a perturbation test (all outputs
      stable under relative 1e-12 noise on the literals).
    * references to SCALED variables (a <ci> whose units differ in scale from those of its class' primary variable, so
      that the analyser must insert a factor) are a first-class feature: they are preferred as leaves everywhere, and
      every model gets extra equations that place one exactly at requested syntactic positions (generate(positions=
      [...]) over BOOST_KINDS: operands of every operator family, unary minus / plus, function arguments, power base
      and exponent, degree of root, logbase of log, piecewise value / condition / otherwise, bare right-hand side,
      nested under a unary minus inside a function, rates on right-hand sides, initial values given by reference; NLA
      equations get a scaled known quantity on both sides; scaled views also of states and computed variables).
      `scaled_positions(desc, res, primaries)` counts them per position kind (POSITION_KINDS) on the final text;
      meta["scaled_positions"], meta["positions_requested"], meta["positions_boosted"].
    * exponents, degrees and logarithm bases hold arbitrary variables only in equations whose quantities all have a
      dimensionless units map (dimensionless, percent, permille, dozen: still scaled against each other); elsewhere
      they mention only numbers and variables with a NUMERIC initial_value in the same component:
      Analyser::analyseEquationUnits dereferences a null AST child (SIGSEGV) when an exponent's value is unknown and a
      later operand is not dimensionless, and Analyser::powerValue calls std::stod on an initial_value that is a
      variable name (uncaught std::invalid_argument); both are defects of their own, outside C03.
    * initial values are sometimes given as the NAME of a constant of the same component declared before it (also for
      the initial value of a state that sits on a scaled equivalent variable of another component).
    * unsafe models additionally plant: an initial value naming a variable declared later / naming a scaled view, the
      rate of one state inside the ODE of another, units with a prefix and an exponent on one unit child (family
      "volume", PLANT_FAMILIES), next to the mis-printed expression shapes.
    * shape safety: with `mdl` (path of the extracted Coq model `vf.ocaml_driver("gen")`) every right-hand side is
      converted to the AST exactly as Analyser::analyseNode + scaleEquationAst build it (`model_equation_asts`) and asked
      for safety in both profiles; in a SAFE model (default) unsafe candidates are re-drawn and the shapes
      `known = unknown` with a scaled bare known variable on the left, `y = d x/d t` with a scaled voi and
      `d x/d t = x` are avoided; in an UNSAFE model (probability unsafe_prob) known mis-printed shapes are planted on
      purpose (PLANTS, restricted to allowed_plants) and nothing is re-drawn.
      Without `mdl` nothing is filtered (meta["unfiltered"] = True).

`model_equation_asts(desc, res, primaries)` and `safety_query(mdl, asts, workdir, tag)` are public: the
check recomputes safety from the primaries the analyser really chose.
"""
import math
import os
import random
import subprocess
from fractions import Fraction

import astgen
import matheval

# --------------------------------------------------------------------------- units catalogue
# family -> list of (units name, definition = list of unit children)
def _u(units, prefix=None, multiplier=None, exponent=None):
    return {"units": units, "prefix": prefix, "multiplier": multiplier, "exponent": exponent}


FAMILIES = {
    "time": [("second", None), ("ms", [_u("second", "milli")]), ("cs", [_u("second", "-2")]),
             ("half_min", [_u("second", None, "30")]), ("das", [_u("second", "deca")])],
    "volt": [("volt", None), ("mV", [_u("volt", "milli")]), ("dV", [_u("volt", "deci")]),
             ("V2p5", [_u("volt", None, "2.5")]), ("hV", [_u("volt", "2")])],
    "conc": [("M", [_u("mole"), _u("litre", None, None, "-1")]), ("mM", [_u("M", "milli")]), ("cM", [_u("M", "centi")]),
             ("half_M", [_u("M", None, "0.5")]), ("mM_x4", [_u("mM", None, "4")])],
    "length": [("metre", None), ("cm", [_u("metre", "centi")]), ("dm", [_u("metre", "deci")]),
               ("inch", [_u("metre", None, "0.0254")]), ("mm", [_u("metre", "milli")])],
    "current": [("ampere", None), ("mA", [_u("ampere", "milli")]), ("dA", [_u("ampere", "-1")]),
                ("A_x8", [_u("ampere", None, "8")])],
    "dimless": [("dimensionless", None), ("percent", [_u("dimensionless", None, "0.01")]),
                ("permille", [_u("dimensionless", "milli")]), ("dozen", [_u("dimensionless", None, "12")])],
    "rate": [("V_per_s", [_u("volt"), _u("second", None, None, "-1")]), ("mV_per_s", [_u("volt", "milli"), _u("second", None, None, "-1")]),
             ("V_per_s_x5", [_u("V_per_s", None, "5")]), ("dV_per_s", [_u("volt", "deci"), _u("second", None, None, "-1")])],
    "area": [("m2", [_u("metre", None, None, "2")]), ("m2_c", [_u("m2", "centi")]), ("m2_x20", [_u("metre", None, "20", "2")]),
             ("half_m2", [_u("m2", None, "0.5")])],
}
# families only used when a known finding is planted: a unit child carrying BOTH a prefix and an exponent other than 1
# (Units::scalingFactor applies the prefix without the exponent: C03-prefix-with-exponent-scaling)
PLANT_FAMILIES = {
    "volume": [("m3", [_u("metre", None, None, "3")]), ("mm3", [_u("metre", "milli", None, "3")]),
               ("dm3", [_u("metre", "deci", None, "3")]), ("cm3_x2", [_u("metre", "centi", "2", "3")])],
}
ALL_FAMILIES = dict(FAMILIES, **PLANT_FAMILIES)
UNITS_DEF = {n: d for fam in ALL_FAMILIES.values() for n, d in fam if d is not None}
FAMILY_OF = {n: f for f, lst in ALL_FAMILIES.items() for n, _ in lst}

MATHML_TO_AST = {
    "plus": "PLUS", "minus": "MINUS", "times": "TIMES", "divide": "DIVIDE", "power": "POWER", "root": "ROOT", "abs": "ABS",
    "exp": "EXP", "ln": "LN", "log": "LOG", "ceiling": "CEILING", "floor": "FLOOR", "min": "MIN", "max": "MAX", "rem": "REM",
    "sin": "SIN", "cos": "COS", "tan": "TAN", "sec": "SEC", "csc": "CSC", "cot": "COT", "sinh": "SINH", "cosh": "COSH",
    "tanh": "TANH", "sech": "SECH", "csch": "CSCH", "coth": "COTH", "arcsin": "ASIN", "arccos": "ACOS", "arctan": "ATAN",
    "arcsec": "ASEC", "arccsc": "ACSC", "arccot": "ACOT", "arcsinh": "ASINH", "arccosh": "ACOSH", "arctanh": "ATANH",
    "arcsech": "ASECH", "arccsch": "ACSCH", "arccoth": "ACOTH", "eq": "EQ", "neq": "NEQ", "lt": "LT", "leq": "LEQ", "gt": "GT",
    "geq": "GEQ", "and": "AND", "or": "OR", "xor": "XOR", "not": "NOT"}
CONST_TO_AST = {"true": "TRUE", "false": "FALSE", "exponentiale": "E", "pi": "PI", "infinity": "INF", "notanumber": "NAN"}

TRIG = ["sin", "cos", "tan", "sec", "csc", "cot", "sinh", "cosh", "tanh", "sech", "csch", "coth", "arcsin", "arccos", "arctan",
        "arcsec", "arccsc", "arccot", "arcsinh", "arccosh", "arctanh", "arcsech", "arccsch", "arccoth"]
# domain every unary function wants for its argument (see _adapt)
DOMAIN = {"ln": "pos", "log": "pos", "root": "pos", "exp": "small", "sinh": "small", "cosh": "small", "tanh": "small",
          "sech": "small", "csch": "small_nz", "coth": "small_nz", "arcsin": "unit", "arccos": "unit", "arctanh": "unit",
          "arcsech": "unit_pos", "arcsec": "gt1", "arccsc": "gt1", "arccosh": "gt1", "arccoth": "gt1", "arccot": "nz", "arccsch": "nz",
          "tan": "any", "sec": "any", "csc": "any", "cot": "any", "sin": "any", "cos": "any", "arctan": "any", "arcsinh": "any"}

PLANTS = ["C03-not-operand", "C03-relational-operand", "C03-divide-by-negated-product", "C03-python-nested-conditional",
          "C03-double-minus", "C03-unary-plus-drops-parentheses", "C03-logbase-quotient", "C03-uppercase-exponent",
          "C03-state-on-rhs-of-own-ode", "C03-known-variable-on-lhs-not-scaled", "C03-bare-rate-on-rhs-voi-scaling",
          "C03-initial-value-reference-order", "C03-initial-value-reference-not-scaled", "C03-rate-used-before-computed",
          "C03-prefix-with-exponent-scaling"]

# syntactic positions in which a reference to a SCALED variable (a <ci> whose units differ in scale from the units of
# its equivalence class' primary variable, so that the analyser must insert a factor) is generated and counted
# (meta["scaled_positions"], summed into the evidence).  BOOST_KINDS can be requested through generate(positions=...).
BOOST_KINDS = ["diff:on_rhs", "operand:plus", "operand:minus", "operand:times", "operand:divide", "operand:unary_minus", "operand:unary_plus",
               "operand:relational", "operand:logical", "operand:not", "arg:power_base", "arg:power_exponent",
               "arg:root_radicand", "qualifier:degree", "arg:log_ln_exp", "qualifier:logbase", "arg:trig",
               "arg:abs_floor_ceiling", "arg:min_max_rem", "piecewise:value", "piecewise:condition", "piecewise:otherwise",
               "bare:rhs", "nested:unary_minus_in_function", "initial_value:reference"]
POSITION_KINDS = BOOST_KINDS[1:-2] + [
    "within:degree", "within:logbase", "within:power_exponent", "within:unary_minus", "within:piecewise_condition",
    "within:function_argument", "in:ode_rhs", "in:algebraic_rhs", "in:nla_equation", "diff:bvar", "diff:state",
    "diff:on_rhs", "initial_value:reference", "initial_value:holder_scaled"]
EXPONENT_KINDS = ("arg:power_exponent", "qualifier:degree", "qualifier:logbase")


# --------------------------------------------------------------------------- text forms
def fmt_factor(f):
    """text of a scaling factor (the library prints 15 significant digits); only its shape matters here"""
    return "%.15g" % f


def nice_number(rng, allow_negative=True, lo=0.1, hi=9.9):
    """a short decimal as Fraction"""
    kind = rng.random()
    if kind < 0.35:
        fr = Fraction(rng.randint(1, 9))
    elif kind < 0.8:
        fr = Fraction(rng.randint(1, 99), 10)
    elif kind < 0.93:
        fr = Fraction(rng.randint(1, 999), 100)
    else:
        fr = Fraction(rng.randint(11, 40))
    if allow_negative and rng.random() < 0.25:
        fr = -fr
    return fr


def dec_text(fr):
    """exact decimal text of a Fraction whose denominator divides a power of 10 (CellML basic real)"""
    fr = Fraction(fr)
    sign = "-" if fr < 0 else ""
    fr = abs(fr)
    k = 0
    while (fr * 10 ** k).denominator != 1:
        k += 1
        if k > 40:
            raise ValueError("not a finite decimal")
    digits = str(int(fr * 10 ** k))
    if k == 0:
        return sign + digits
    digits = digits.rjust(k + 1, "0")
    return sign + digits[:-k] + "." + digits[-k:]


def cn_variants(rng, fr, leading_dot=False):
    """one of the textual forms CellML allows for the same number: ('cn', text) or ('cne', mantissa, exponent).
    leading_dot: also ".5" (off by default: the extracted readers of the expression layer report a CN ".5" as
    unsafe because their lexer wants a digit first; the C compiler and CPython read it fine)"""
    t = dec_text(fr)
    r = rng.random()
    if r < 0.62:
        return ("cn", t)
    if r < 0.70 and "." not in t:
        return ("cn", t + ".")                         # "5."
    if r < 0.78 and leading_dot and (t.startswith("0.") or t.startswith("-0.")):
        return ("cn", t.replace("0.", ".", 1))          # ".5"
    if r < 0.84 and "." not in t:
        return ("cn", t + ".0")
    # e-notation
    e = rng.choice([-2, -1, 1, 2, 3])
    m = dec_text(Fraction(fr) / Fraction(10) ** e)
    es = str(e)
    if e > 0 and rng.random() < 0.3:
        es = "+" + es
    return ("cne", m, es)


def initial_value_text(rng, fr):
    t = dec_text(fr)
    r = rng.random()
    if r < 0.7:
        return t
    if r < 0.8:
        e = rng.choice([-1, 1, 2])
        return "%se%d" % (dec_text(Fraction(fr) / Fraction(10) ** e), e)
    if r < 0.88:
        return dec_text(Fraction(fr) / 10) + "e+1"
    if r < 0.94 and "." in t:
        return t + "E0"                                  # upper-case exponent WITH a decimal point: printed as is
    if r < 0.97 and (t.startswith("0.") or t.startswith("-0.")):
        return t.replace("0.", ".", 1)                   # ".5"
    if "." not in t:
        return t + "."                                   # "5."
    return t


# --------------------------------------------------------------------------- MathML text
def mathml(e, ind="      ", units_pool=("dimensionless",), rng=None):
    t = e[0]
    if t == "cn":
        return '%s<cn cellml:units="%s">%s</cn>\n' % (ind, e[2] if len(e) > 2 and e[2] else "dimensionless", e[1])
    if t == "cne":
        return '%s<cn cellml:units="%s" type="e-notation">%s<sep/>%s</cn>\n' % (
            ind, e[3] if len(e) > 3 and e[3] else "dimensionless", e[1], e[2])
    if t == "ci":
        return "%s<ci>%s</ci>\n" % (ind, e[1])
    if t == "k":
        return "%s<%s/>\n" % (ind, e[1])
    if t == "diff":
        return ("%s<apply>\n%s  <diff/>\n%s  <bvar>\n%s    <ci>%s</ci>\n%s  </bvar>\n%s  <ci>%s</ci>\n%s</apply>\n"
                % (ind, ind, ind, ind, e[2], ind, ind, e[1], ind))
    if t == "pw":
        s = "%s<piecewise>\n" % ind
        for v, c in e[1]:
            s += "%s  <piece>\n%s%s%s  </piece>\n" % (ind, mathml(v, ind + "    "), mathml(c, ind + "    "), ind)
        if e[2] is not None:
            s += "%s  <otherwise>\n%s%s  </otherwise>\n" % (ind, mathml(e[2], ind + "    "), ind)
        return s + "%s</piecewise>\n" % ind
    if t == "ap":
        s = "%s<apply>\n%s  <%s/>\n" % (ind, ind, e[1])
        q = e[3] if len(e) > 3 else None
        if q is not None:
            qn = "degree" if e[1] == "root" else "logbase"
            s += "%s  <%s>\n%s%s  </%s>\n" % (ind, qn, mathml(q, ind + "    "), ind, qn)
        for a in e[2]:
            s += mathml(a, ind + "  ")
        return s + "%s</apply>\n" % ind
    raise ValueError(t)


def to_xml(desc):
    used = set()
    for c in desc["components"]:
        for v in c["variables"]:
            used.add(v["units"])

    def cn_units(e):
        t = e[0]
        if t == "cn" and len(e) > 2 and e[2]:
            used.add(e[2])
        elif t == "cne" and len(e) > 3 and e[3]:
            used.add(e[3])
        elif t == "ap":
            if len(e) > 3 and e[3] is not None:
                cn_units(e[3])
            for a in e[2]:
                cn_units(a)
        elif t == "pw":
            for v, c in e[1]:
                cn_units(v)
                cn_units(c)
            if e[2] is not None:
                cn_units(e[2])
    for c in desc["components"]:
        for l, r in c["equations"]:
            cn_units(l)
            cn_units(r)
    s = '<?xml version="1.0" encoding="UTF-8"?>\n<model xmlns="http://www.cellml.org/cellml/2.0#" ' \
        'xmlns:cellml="http://www.cellml.org/cellml/2.0#" name="%s">\n' % desc["name"]
    for u in desc["units"]:
        s += '  <units name="%s">\n' % u["name"]
        for ch in u["unit"]:
            s += "    <unit"
            for k in ("prefix", "multiplier", "exponent", "units"):
                if ch.get(k) not in (None, ""):
                    s += ' %s="%s"' % (k, ch[k])
            s += "/>\n"
        s += "  </units>\n"
    for c in desc["components"]:
        s += '  <component name="%s">\n' % c["name"]
        for v in c["variables"]:
            s += '    <variable name="%s" units="%s"' % (v["name"], v["units"])
            if v.get("initial_value") not in (None, ""):
                s += ' initial_value="%s"' % v["initial_value"]
            if v.get("interface"):
                s += ' interface="%s"' % v["interface"]
            s += "/>\n"
        if c["equations"]:
            s += '    <math xmlns="http://www.w3.org/1998/Math/MathML">\n'
            for l, r in c["equations"]:
                s += "      <apply>\n        <eq/>\n" + mathml(l, "        ") + mathml(r, "        ") + "      </apply>\n"
            s += "    </math>\n"
        s += "  </component>\n"
    pairs = {}
    order = []
    for c1, v1, c2, v2 in desc["connections"]:
        key = (c1, c2) if (c1, c2) in pairs or (c2, c1) not in pairs else (c2, c1)
        if key not in pairs:
            pairs[key] = []
            order.append(key)
        pairs[key].append((v1, v2) if key == (c1, c2) else (v2, v1))
    for key in order:
        s += '  <connection component_1="%s" component_2="%s">\n' % key
        for v1, v2 in pairs[key]:
            s += '    <map_variables variable_1="%s" variable_2="%s"/>\n' % (v1, v2)
        s += "  </connection>\n"
    return s + "</model>\n"


# --------------------------------------------------------------------------- expression -> analyser AST
def _fold_right(typ, items):
    node = items[-1]
    for it in reversed(items[:-1]):
        node = (typ, None, it, node)
    return node


def expr_ast(e, scale_ci, scale_diff):
    """AST tuple (gen/astgen.py format) that Analyser::analyseNode builds for expression `e`, with the TIMES(CN, .)
    nodes scaleEquationAst inserts: scale_ci(name) -> factor or None, scale_diff(x, t) -> (1/f_t or None, f_x or None)"""
    t = e[0]
    if t == "cn":
        return ("CN", e[1], None, None)
    if t == "cne":
        return ("CN", e[1] + "e" + e[2], None, None)
    if t == "ci":
        f = scale_ci(e[1])
        node = ("CI", e[1], None, None)
        return node if f is None else ("TIMES", None, ("CN", fmt_factor(f), None, None), node)
    if t == "k":
        return (CONST_TO_AST[e[1]], None, None, None)
    if t == "diff":
        # printed as rates[i]: an atom.  The query uses a CI with a made-up name.
        node = ("CI", "d_%s_d_%s" % (e[1], e[2]), None, None)
        ft, fx = scale_diff(e[1], e[2])
        if ft is not None:
            node = ("TIMES", None, ("CN", fmt_factor(ft), None, None), node)
        if fx is not None:
            # second scaleAst call wraps the DIFF node itself, i.e. below the first TIMES
            inner = ("TIMES", None, ("CN", fmt_factor(fx), None, None), ("CI", "d_%s_d_%s" % (e[1], e[2]), None, None))
            node = inner if ft is None else ("TIMES", None, ("CN", fmt_factor(ft), None, None), inner)
        return node
    if t == "pw":
        pieces = [("PIECE", None, expr_ast(v, scale_ci, scale_diff), expr_ast(c, scale_ci, scale_diff)) for v, c in e[1]]
        if e[2] is not None:
            pieces.append(("OTHERWISE", None, expr_ast(e[2], scale_ci, scale_diff), None))
        # analyseNode: left = first child; right = last child, then PIECEWISE(child i, right) for i = n-2 .. 1
        if len(pieces) == 1:
            return ("PIECEWISE", None, pieces[0], None)
        right = pieces[-1]
        for pc in reversed(pieces[1:-1]):
            right = ("PIECEWISE", None, pc, right)
        return ("PIECEWISE", None, pieces[0], right)
    if t == "ap":
        typ = MATHML_TO_AST[e[1]]
        args = [expr_ast(a, scale_ci, scale_diff) for a in e[2]]
        q = e[3] if len(e) > 3 else None
        if q is not None:
            qa = ("DEGREE" if e[1] == "root" else "LOGBASE", None, expr_ast(q, scale_ci, scale_diff), None)
            return (typ, None, qa, args[0])
        if len(args) == 1:
            return (typ, None, args[0], None)
        return _fold_right(typ, args)
    raise ValueError(t)


def raw_ast(e):
    """AST tuple that Analyser::analyseNode builds for expression `e` BEFORE unit scaling, with real
    DIFF(BVAR(CI t), CI x) nodes (expr_ast replaces a derivative by a made-up CI because the generator prints it as an
    atom).  Input of the Coq model of the scaling pass (ScaleDefs.analysed_ast)."""
    if e[0] == "diff":
        return ("DIFF", None, ("BVAR", None, ("CI", e[2], None, None), None), ("CI", e[1], None, None))
    if e[0] == "pw":
        pieces = [("PIECE", None, raw_ast(v), raw_ast(c)) for v, c in e[1]]
        if e[2] is not None:
            pieces.append(("OTHERWISE", None, raw_ast(e[2]), None))
        if len(pieces) == 1:
            return ("PIECEWISE", None, pieces[0], None)
        right = pieces[-1]
        for pc in reversed(pieces[1:-1]):
            right = ("PIECEWISE", None, pc, right)
        return ("PIECEWISE", None, pieces[0], right)
    if e[0] == "ap":
        typ = MATHML_TO_AST[e[1]]
        args = [raw_ast(a) for a in e[2]]
        q = e[3] if len(e) > 3 else None
        if q is not None:
            return (typ, None, ("DEGREE" if e[1] == "root" else "LOGBASE", None, raw_ast(q), None), args[0])
        if len(args) == 1:
            return (typ, None, args[0], None)
        return _fold_right(typ, args)
    return expr_ast(e, lambda n: None, lambda x, t: (None, None))


def predicted_primaries(desc, ev=None):
    """{class index: (component, variable)} the analyser is expected to choose as AnalyserVariable::variable():
    voi: the member in the first component (document order) that has one; constants: the initialised variable;
    computed / algebraic variables, states and NLA unknowns: the variable of the component holding the equation."""
    res = ev or matheval.evaluate(desc)
    prim = {}
    for k, members in enumerate(res.classes):
        kind = res.kind[k]
        if kind == "voi":
            prim[k] = tuple(res.voi_var)
        elif kind == "state" and k in res.ode_def:
            comp, d, _ = res.ode_def[k]
            prim[k] = (comp, d[1])
        elif kind == "computed":
            comp, name, _ = res.expl_def[k]
            prim[k] = (comp, name)
        elif kind == "nla":
            sysm = [s for s in res.nla_systems if k in s[0]][0]
            comp = sysm[1][0][0]
            loc = [m for m in members if m[0] == comp]
            prim[k] = loc[0] if loc else members[0]
        elif k in res.init:
            prim[k] = res.init[k][0]
        else:
            prim[k] = members[0]
    return prim


def model_equation_asts(desc, res, primaries):
    """For every equation of the model (document order) the AST the generator prints for it, built as
    Analyser::analyseNode + scaleEquationAst build it.  `res` = matheval.evaluate(desc) (same desc object),
    primaries = {class index: (component, variable)} = AnalyserVariable::variable() of every class.
    Returns a list of {"comp", "kind": "ode"|"alg"|"nla", "defines": class index|None, "ast", "lhs", "rhs"}:
    ode: the ODE right-hand side (times the voi factor); alg: the defining side; nla: MINUS(lhs, rhs)."""
    out = []
    for c in desc["components"]:
        comp = c["name"]

        def factor(name, comp=comp):
            key = (comp, name)
            k = res.class_of[key]
            f = res.m(tuple(primaries[k])) / res.m(key)
            return None if abs(f - 1.0) <= 1e-12 else f

        def dfactor(x, t, factor=factor):
            ft = factor(t)
            return (None if ft is None else 1.0 / ft), factor(x)
        for lhs, rhs in c["equations"]:
            rec = {"comp": comp, "lhs": lhs, "rhs": rhs, "defines": None}
            done = False
            for k, (dc, d, body) in res.ode_def.items():
                if dc == comp and (d is lhs or d is rhs) and (body is lhs or body is rhs):
                    a = expr_ast(body, factor, dfactor)
                    ft = factor(d[2])
                    if ft is not None:
                        a = ("TIMES", None, ("CN", fmt_factor(ft), None, None), a)
                    rec.update(kind="ode", defines=k, ast=a, body=body)
                    done = True
                    break
            if not done:
                for k, (dc, name, body) in res.expl_def.items():
                    if dc == comp and (body is lhs or body is rhs):
                        rec.update(kind="alg", defines=k, ast=expr_ast(body, factor, dfactor), body=body)
                        done = True
                        break
            if not done:
                rec.update(kind="nla", ast=("MINUS", None, expr_ast(lhs, factor, dfactor), expr_ast(rhs, factor, dfactor)), body=None)
            out.append(rec)
    return out


_TRIG_SET = None


def _immediate_kind(op, idx, nargs):
    """position kind of argument idx of MathML operator op (see POSITION_KINDS)"""
    if op in ("plus", "minus") and nargs == 1:
        return "operand:unary_" + op
    if op in ("plus", "minus", "times", "divide"):
        return "operand:" + op
    if op in ("eq", "neq", "lt", "leq", "gt", "geq"):
        return "operand:relational"
    if op in ("and", "or", "xor"):
        return "operand:logical"
    if op == "not":
        return "operand:not"
    if op == "power":
        return "arg:power_base" if idx == 0 else "arg:power_exponent"
    if op == "root":
        return "arg:root_radicand"
    if op in ("log", "ln", "exp"):
        return "arg:log_ln_exp"
    if op in ("abs", "floor", "ceiling"):
        return "arg:abs_floor_ceiling"
    if op in ("min", "max", "rem"):
        return "arg:min_max_rem"
    return "arg:trig"


def scaled_positions(desc, res, primaries):
    """{position kind: number of references to SCALED variables at that position} over the whole model.
    A reference (a <ci>, the variables of a <diff>, a variable named by an initial_value) is scaled when the units
    of the variable differ in scale from those of its class' primary variable (`primaries`, as for
    model_equation_asts), i.e. exactly when Analyser::scaleEquationAst / Generator::generateInitialisationCode have to
    insert a factor.  One reference counts once for its immediate position and once for every enclosing context."""
    acc = {}

    def hit(key):
        acc[key] = acc.get(key, 0) + 1

    def scaled(comp, name):
        key = (comp, name)
        if key not in res.class_of:
            return False
        f = res.m(tuple(primaries[res.class_of[key]])) / res.m(key)
        return abs(f - 1.0) > 1e-12

    def walk(e, comp, imm, ctx, top):
        t = e[0]
        if t == "ci":
            if scaled(comp, e[1]):
                hit(imm)
                for c in ctx:
                    hit(c)
            return
        if t == "diff":
            if not top:
                if scaled(comp, e[2]) or scaled(comp, e[1]):
                    hit("diff:on_rhs")
            if scaled(comp, e[2]):
                hit("diff:bvar")
            if scaled(comp, e[1]):
                hit("diff:state")
            return
        if t == "pw":
            for v, c in e[1]:
                walk(v, comp, "piecewise:value", ctx, False)
                walk(c, comp, "piecewise:condition", ctx | {"within:piecewise_condition"}, False)
            if e[2] is not None:
                walk(e[2], comp, "piecewise:otherwise", ctx, False)
            return
        if t == "ap":
            op, args = e[1], e[2]
            q = e[3] if len(e) > 3 else None
            inner = set(ctx)
            if op not in ("plus", "minus", "times", "divide", "eq", "neq", "lt", "leq", "gt", "geq", "and", "or", "xor", "not"):
                inner.add("within:function_argument")
            if op == "minus" and len(args) == 1:
                inner.add("within:unary_minus")
            if q is not None:
                qk = "degree" if op == "root" else "logbase"
                walk(q, comp, "qualifier:" + qk, frozenset(inner | {"within:" + qk}), False)
            for i, a in enumerate(args):
                c2 = set(inner)
                if op == "power" and i == 1:
                    c2.add("within:power_exponent")
                walk(a, comp, _immediate_kind(op, i, len(args)), frozenset(c2), False)

    for rec in model_equation_asts(desc, res, primaries):
        comp = rec["comp"]
        where = {"ode": "in:ode_rhs", "alg": "in:algebraic_rhs", "nla": "in:nla_equation"}[rec["kind"]]
        for side in (rec["lhs"], rec["rhs"]):
            if rec["kind"] != "nla" and side is not rec["body"]:
                if side[0] == "diff":
                    walk(side, comp, None, frozenset(), True)
                continue                                         # the defined variable itself
            walk(side, comp, "bare:rhs", frozenset({where}), False)
    for c in desc["components"]:
        for v in c["variables"]:
            iv = (v.get("initial_value") or "").strip()
            if iv and (c["name"], iv) in res.class_of:
                hit("initial_value:reference")
                if scaled(c["name"], v["name"]):
                    hit("initial_value:holder_scaled")
                if scaled(c["name"], iv):
                    hit("initial_value:referenced_scaled")
    return acc


def safety_query(mdl, asts, workdir, tag):
    """ask the extracted Coq model about every AST: list of dicts {safeC, safePy, sitesC, sitesPy (parsed ASTs), genC, genPy}"""
    if not asts:
        return []
    lines = []
    for a in asts:
        if a[0] == "CI":
            a = ("PLUS", None, a, None)
        lines.append(astgen.line(a))
    p = os.path.join(workdir, "safety_%s.cases" % tag)
    with open(p, "w") as f:
        f.write("".join(x + "\n" for x in lines))
    out = subprocess.run([mdl, "ast", p], stdout=subprocess.PIPE, stderr=subprocess.DEVNULL, timeout=300).stdout.decode("utf-8", "replace")
    rows = out.split("\n")
    res = []
    for i in range(len(lines)):
        f = rows[i].split("\t") if i < len(rows) else []
        if len(f) != 10:
            raise RuntimeError("extracted model: malformed answer for %r: %r" % (lines[i], rows[i] if i < len(rows) else None))
        res.append({"genC": f[0], "genPy": f[1], "safeC": f[2] == "1", "safePy": f[3] == "1",
                    "sitesC": [astgen.parse_line(x) for x in f[8].split(" ;; ") if x],
                    "sitesPy": [astgen.parse_line(x) for x in f[9].split(" ;; ") if x]})
    try:
        os.remove(p)
    except OSError:
        pass
    return res


# --------------------------------------------------------------------------- random expressions
class Budget(Exception):
    pass


class ExprGen:
    """random expression over `leaves` = [(expr, value)], every node checked by the strict reference evaluator"""

    def __init__(self, rng, leaves, env, ops, pure_names=(), allow_impure=False, scaled_names=()):
        """pure_names: local variables that carry an initial_value; an exponent / degree may only mention those (and
        numbers), unless allow_impure (everything in the equation is dimensionless): Analyser::analyseEquationUnits
        dereferences a null AST child (SIGSEGV) when the value of an exponent is not available at analysis time and a
        later node of the same equation has a non-dimensionless left operand (reported as a separate defect)."""
        self.rng = rng
        self.leaves = leaves
        self.env = env
        self.ev = matheval.Evaluator(strict=True)
        self.ops = ops
        self.budget = 400
        self.pure_names = set(pure_names)
        self.allow_impure = allow_impure
        self.pure = 0
        # references to scaled variables are preferred as leaves: every position of the tree should meet them
        self.scaled_names = set(scaled_names)

    def value(self, e):
        return self.ev.ev(e, self.env)

    def ok(self, e):
        try:
            return self.value(e)
        except (matheval.EvalError, matheval.Hazard):
            return None

    def count(self, op):
        self.ops[op] = self.ops.get(op, 0) + 1

    def cn(self, fr=None, negative_ok=True):
        rng = self.rng
        if fr is None:
            fr = nice_number(rng, allow_negative=negative_ok)
        v = cn_variants(rng, fr)
        return v + ("dimensionless",)

    def leaf(self, kind="N"):
        rng = self.rng
        r = rng.random()
        if kind == "B" and r < 0.3:
            return ("k", rng.choice(["true", "false"]))
        leaves = self.leaves
        if self.pure:
            leaves = [l for l in leaves if l[0][0] == "ci" and l[0][1] in self.pure_names]
        if r < 0.6 and leaves:
            sc = [l for l in leaves if l[0][0] == "ci" and l[0][1] in self.scaled_names]
            if sc and rng.random() < 0.6:
                return rng.choice(sc)[0]
            return rng.choice(leaves)[0]
        if r < 0.92:
            return self.cn()
        return ("k", rng.choice(["pi", "exponentiale", "pi", "exponentiale", "true", "false"]))

    def adapt(self, c, dom):
        """wrap `c` so that its value lies in the domain `dom` (adds nesting on purpose)"""
        v = self.ok(c)
        if v is None:
            return None
        rng = self.rng

        def nice_above(x):
            for k in (1, 2, 5, 10, 20, 50, 100, 200, 500, 1000, 1e4, 1e5, 1e6, 1e7):
                if k >= x:
                    return Fraction(int(k))
            return None
        if dom == "any":
            return c
        if dom == "pos":
            if v > 0.05:
                return c
            return ("ap", "plus", [("ap", "abs", [c], None), self.cn(Fraction(rng.choice([5, 10, 15, 20]), 10))], None)
        if dom in ("small", "small_nz"):
            if abs(v) <= 8 and (dom == "small" or abs(v) > 0.05):
                return c
            if abs(v) > 8:
                k = nice_above(abs(v) / 4)
                return None if k is None else ("ap", "divide", [c, self.cn(k)], None)
            return ("ap", "plus", [("ap", "abs", [c], None), self.cn(Fraction(1, 2))], None)
        if dom == "unit":
            if abs(v) < 0.9:
                return c
            k = nice_above(abs(v) * 1.3)
            return None if k is None else ("ap", "divide", [c, self.cn(k)], None)
        if dom == "unit_pos":
            if 0.05 < v < 0.9:
                return c
            k = nice_above((abs(v) + 0.3) * 1.3)
            if k is None:
                return None
            return ("ap", "divide", [("ap", "plus", [("ap", "abs", [c], None), self.cn(Fraction(3, 10))], None), self.cn(k)], None)
        if dom == "gt1":
            if abs(v) > 1.1:
                return c
            return ("ap", "plus", [("ap", "abs", [c], None), self.cn(Fraction(rng.choice([15, 20, 25]), 10))], None)
        if dom == "nz":
            if abs(v) > 0.05:
                return c
            return ("ap", "plus", [("ap", "abs", [c], None), self.cn(Fraction(1, 2))], None)
        return c

    def gen(self, depth, kind="N"):
        """expression of the requested kind: N numeric, B boolean-valued"""
        self.budget -= 1
        if self.budget < 0:
            raise Budget()
        rng = self.rng
        if depth <= 0:
            for _ in range(6):
                e = self.leaf(kind)
                if self.ok(e) is not None:
                    return e
            return self.cn(Fraction(3, 2))
        for _attempt in range(6):
            e = self.node(depth, kind)
            if e is not None and self.ok(e) is not None:
                return e
            if self.budget < 0:
                raise Budget()
        return self.gen(0, kind)

    def node(self, depth, kind):
        rng = self.rng
        d = depth - 1
        sub = lambda k="N": self.gen(rng.choice([d, d, max(0, d - 1)]), k)

        def sub_exponent():
            if self.allow_impure:
                return sub()
            self.pure += 1
            try:
                return sub()
            finally:
                self.pure -= 1
        r = rng.random()
        if self.pure and kind == "N" and 0.80 <= r < 0.91:
            r = rng.random() * 0.8            # no piecewise inside an exponent
        if kind == "B":
            if r < 0.50:
                op = rng.choice(["eq", "neq", "lt", "leq", "gt", "geq", "lt", "gt", "leq", "geq"])
                self.count(op)
                a, b = sub(), sub()
                if rng.random() < 0.08:
                    b = ("k", "infinity")
                return ("ap", op, [a, b], None)
            if r < 0.78:
                op = rng.choice(["and", "or", "xor", "and", "or"])
                self.count(op)
                n = rng.choice([2, 2, 2, 3, 4])
                return ("ap", op, [sub(rng.choice(["B", "B", "B", "N"])) for _ in range(n)], None)
            if r < 0.90:
                self.count("not")
                return ("ap", "not", [sub(rng.choice(["B", "B", "N"]))], None)
            if r < 0.94:
                return ("k", rng.choice(["true", "false"]))
            return sub("N")
        # numeric
        if r < 0.30:
            op = rng.choice(["plus", "minus", "times", "divide", "plus", "minus", "times", "divide", "plus", "times"])
            self.count(op)
            if op in ("plus", "times") and rng.random() < 0.3:
                n = rng.choice([3, 3, 4, 5])
                return ("ap", op, [sub() for _ in range(n)], None)
            a, b = sub(), sub()
            if op == "divide":
                b = self.adapt(b, "nz")
                if b is None:
                    return None
            return ("ap", op, [a, b], None)
        if r < 0.38:
            op = rng.choice(["minus", "minus", "plus"])
            self.count("u" + op)
            return ("ap", op, [sub()], None)
        if r < 0.47:
            w = rng.random()
            if w < 0.45:
                self.count("power")
                mode = rng.random()
                if mode < 0.45:
                    ex = ("cn", str(rng.choice([2, 3, 2, -1, -2, 4])), "dimensionless")
                    base = self.adapt(sub(), "nz")
                elif mode < 0.70:
                    ex = self.cn(Fraction(rng.choice([5, 15, 25, -5]), 10))
                    base = self.adapt(sub(), "pos")
                else:
                    base = self.adapt(sub(), "pos")
                    ex = sub_exponent()
                    v = self.ok(ex)
                    if v is None:
                        return None
                    if abs(v) > 4:
                        ex = ("ap", "divide", [ex, self.cn(Fraction(int(abs(v) // 2) + 1))], None)
                if base is None or ex is None:
                    return None
                return ("ap", "power", [base, ex], None)
            self.count("root")
            x = self.adapt(sub(), "pos")
            if x is None:
                return None
            if w < 0.70:
                return ("ap", "root", [x], None)
            if rng.random() < 0.6:
                dg = self.cn(Fraction(rng.choice([2, 3, 4, 5])), False) if rng.random() < 0.8 else self.cn(Fraction(rng.choice([15, 25]), 10))
            else:
                dg = self.adapt(sub_exponent(), "gt1")
            if dg is None:
                return None
            self.count("root_degree")
            return ("ap", "root", [x], dg)
        if r < 0.56:
            op = rng.choice(["exp", "ln", "log", "log"])
            self.count(op)
            x = self.adapt(sub(), DOMAIN[op])
            if x is None:
                return None
            if op == "log" and rng.random() < 0.55:
                self.count("log_logbase")
                if rng.random() < 0.6:
                    b = self.cn(Fraction(rng.choice([2, 3, 10, 5, 10, 25, 7])) / (10 if rng.random() < 0.15 else 1), False)
                else:
                    b = self.adapt(sub(), "gt1")
                if b is None:
                    return None
                return ("ap", "log", [x], b)
            return ("ap", op, [x], None)
        if r < 0.66:
            op = rng.choice(["abs", "floor", "ceiling", "min", "max", "rem", "min", "max", "rem"])
            self.count(op)
            if op in ("abs", "floor", "ceiling"):
                return ("ap", op, [sub()], None)
            if op == "rem":
                b = self.adapt(sub(), "nz")
                return None if b is None else ("ap", "rem", [sub(), b], None)
            n = rng.choice([2, 2, 2, 3])
            return ("ap", op, [sub() for _ in range(n)], None)
        if r < 0.80:
            op = rng.choice(TRIG)
            self.count(op)
            x = self.adapt(sub(), DOMAIN[op])
            return None if x is None else ("ap", op, [x], None)
        if r < 0.91:
            self.count("piecewise")
            n = rng.choice([1, 1, 2, 2, 3])
            pieces = [[sub(), sub("B" if rng.random() < 0.9 else "N")] for _ in range(n)]
            other = sub() if rng.random() < 0.65 else None
            if other is None:
                # without otherwise the value is NaN when no condition holds: make the last condition true
                if not any(self.ok(c) for _, c in pieces):
                    pieces[-1][1] = ("k", "true") if rng.random() < 0.5 else ("ap", "not", [pieces[-1][1]], None)
            return ("pw", pieces, other)
        if r < 0.96:
            return sub("B")
        return self.leaf("N")


# --------------------------------------------------------------------------- planted shapes (unsafe models)
def plant(fid, g, rng):
    """expression containing the mis-printed shape `fid`, operands drawn from ExprGen g; None if not applicable"""
    N = lambda: g.gen(rng.choice([0, 0, 1]))
    B = lambda: g.gen(rng.choice([0, 1]), "B")
    if fid == "C03-not-operand":
        inner = rng.choice([lambda: ("ap", rng.choice(["and", "or"]), [B(), B()], None),
                            lambda: ("ap", rng.choice(["lt", "gt", "leq", "geq", "neq"]), [N(), N()], None),
                            lambda: ("ap", rng.choice(["plus", "minus", "times"]), [N(), N()], None)])()
        return ("ap", "not", [inner], None)
    if fid == "C03-relational-operand":
        inner = ("ap", rng.choice(["lt", "gt", "leq", "geq", "eq", "and", "or"]), [N(), N()], None)
        ops = [N(), inner]
        rng.shuffle(ops)
        return ("ap", rng.choice(["lt", "gt", "leq", "geq", "eq", "neq"]), ops, None)
    if fid == "C03-divide-by-negated-product":
        return ("ap", "divide", [N(), ("ap", "minus", [("ap", rng.choice(["times", "divide"]), [g.adapt(N(), "nz"), g.adapt(N(), "nz")], None)], None)], None)
    if fid == "C03-python-nested-conditional":
        inner = ("pw", [[N(), B()]], N())
        if rng.random() < 0.5:
            return ("pw", [[inner, B()]], N())           # as the value of a piece
        return ("pw", [[N(), inner]], N())                # as the condition of a piece
    if fid == "C03-double-minus":
        return ("ap", "minus", [g.cn(-abs(nice_number(rng, False)))], None)
    if fid == "C03-unary-plus-drops-parentheses":
        inner = ("ap", "plus", [("ap", rng.choice(["plus", "minus"]), [N(), N()], None)], None)
        return ("ap", rng.choice(["minus", "times"]), [N(), inner], None)
    if fid == "C03-logbase-quotient":
        x = g.adapt(N(), "pos")
        if x is None:
            return None
        return ("ap", "divide", [N(), ("ap", "log", [x], g.cn(Fraction(rng.choice([2, 3, 5, 7])), False))], None)
    return None


# --------------------------------------------------------------------------- the model generator
class _Model:
    def __init__(self, rng):
        self.rng = rng
        self.comps = []               # {"name", "variables": [], "equations": []}
        self.conns = []
        self.classes = []             # {"family", "members": [(comp index, name, units)], "q": float|None, "rate": None, "kind"}
        self.var_class = {}           # (comp index, name) -> class index
        self.counter = 0
        self.mult = {}                # units name -> float multiplier
        base = {"name": "x", "units": [{"name": n, "unit": d} for n, d in UNITS_DEF.items()], "components": [], "connections": []}
        self.multq = {}               # the same, exact where possible
        for n, m in matheval.units_multipliers(base).items():
            self.mult[n] = float(m)
            self.multq[n] = m

    def new_name(self, stem):
        self.counter += 1
        return "%s%d" % (stem, self.counter)

    def add_var(self, ci, name, units, init=None):
        self.comps[ci]["variables"].append({"name": name, "units": units, "initial_value": init, "interface": None})

    def new_class(self, family, kind):
        self.classes.append({"family": family, "members": [], "q": None, "rate": None, "kind": kind})
        return len(self.classes) - 1

    def add_member(self, k, ci, name, units, init=None):
        self.add_var(ci, name, units, init)
        self.classes[k]["members"].append((ci, name, units))
        self.var_class[(ci, name)] = k

    def local(self, k, ci, scaled_prob=0.7, allow_second=False):
        """name of a member of class k in component ci, importing it through a connection when needed"""
        rng = self.rng
        cl = self.classes[k]
        mem = [m for m in cl["members"] if m[0] == ci]
        others = [m for m in cl["members"] if m[0] != ci]
        # a second member of the class in the same component is legal (and interesting) but never in the
        # component that defines the class, and never for the voi
        second = allow_second and others and cl["members"][0][0] != ci and cl["kind"] != "voi" and rng.random() < 0.08
        if mem and not second:
            return rng.choice(mem)[1]
        fam = ALL_FAMILIES[cl["family"]]
        prim_units = cl["members"][0][2]
        if rng.random() < scaled_prob:
            units = rng.choice([n for n, _ in fam if n != prim_units] or [prim_units])
        else:
            units = prim_units
        name = self.new_name(rng.choice(["p", "q", "w", "in_", "k_"]))
        # join to the primary (star) or to any other member (chain); never to a member of the same component
        tgt = others[0] if (rng.random() < 0.6 and others[0][0] != ci) else rng.choice(others)
        self.add_member(k, ci, name, units)
        self.conns.append([self.comps[tgt[0]]["name"], tgt[1], self.comps[ci]["name"], name])
        return name

    def is_scaled(self, ci, name):
        """the local variable's units differ in scale from the units of the class' (predicted) primary variable"""
        k = self.var_class[(ci, name)]
        units = [m[2] for m in self.classes[k]["members"] if m[0] == ci and m[1] == name][0]
        return abs(self.mult[self.classes[k]["members"][0][2]] / self.mult[units] - 1.0) > 1e-12

    def scaled_local(self, k, ci):
        """a member of class k in component ci whose units are SCALED relative to the primary's; None if impossible
        (the primary itself lives in ci, or the family has no other scale)"""
        cl = self.classes[k]
        if cl["members"][0][0] == ci or cl["kind"] == "voi":
            return None
        for m in cl["members"]:
            if m[0] == ci and self.is_scaled(ci, m[1]):
                return m[1]
        prim_units = cl["members"][0][2]
        cand = [n for n, _ in ALL_FAMILIES[cl["family"]] if abs(self.mult[n] / self.mult[prim_units] - 1.0) > 1e-12]
        if not cand:
            return None
        units = self.rng.choice(cand)
        name = self.new_name(self.rng.choice(["p", "q", "w", "in_", "k_"]))
        others = [m for m in cl["members"] if m[0] != ci]
        tgt = others[0] if self.rng.random() < 0.6 else self.rng.choice(others)
        self.add_member(k, ci, name, units)
        self.conns.append([self.comps[tgt[0]]["name"], tgt[1], self.comps[ci]["name"], name])
        return name

    def value(self, ci, name):
        k = self.var_class[(ci, name)]
        units = [m[2] for m in self.classes[k]["members"] if m[0] == ci and m[1] == name][0]
        return self.classes[k]["q"] / self.mult[units]

    def desc(self, name):
        used = set()
        for c in self.comps:
            for v in c["variables"]:
                used.add(v["units"])
        for c in self.comps:
            for v in c["variables"]:
                v["interface"] = None
        for c1, v1, c2, v2 in self.conns:
            for cn, vn in ((c1, v1), (c2, v2)):
                for c in self.comps:
                    if c["name"] == cn:
                        for v in c["variables"]:
                            if v["name"] == vn:
                                v["interface"] = "public"
        # units definitions: the used ones and what they refer to, parents first
        out, seen = [], set()

        def need(n):
            if n in seen or n not in UNITS_DEF:
                return
            seen.add(n)
            for ch in UNITS_DEF[n]:
                need(ch["units"])
            out.append({"name": n, "unit": [dict(ch) for ch in UNITS_DEF[n]]})
        for n in sorted(used):
            need(n)
        return {"name": name, "units": out,
                "components": [{"name": c["name"], "variables": [dict(v) for v in c["variables"]],
                                "equations": [[l, r] for l, r in c["equations"]]} for c in self.comps],
                "connections": [list(x) for x in self.conns]}


def _leaves(mdl_, ci, ks, rate_of=None):
    out = []
    env = {}
    for k in ks:
        name = mdl_.local(k, ci, allow_second=True)
        v = mdl_.value(ci, name)
        env[name] = v
        out.append((("ci", name), v))
    return out, env


def generate(seed, mdl=None, workdir=None, unsafe_prob=0.15, nla_prob=0.08, max_tries=40, allowed_plants=None, positions=None):
    """see module docstring.  allowed_plants: finding ids that may be planted in unsafe models (default: all of PLANTS).
    positions: BOOST_KINDS for which one extra equation (or initial value) with a reference to a scaled variable at
    exactly that syntactic position is added (default: two kinds drawn at random)"""
    master = random.Random(seed)
    last = None
    for attempt in range(max_tries):
        sub = master.getrandbits(48)
        try:
            out = _generate_once(sub, mdl, workdir, unsafe_prob, nla_prob, "%s_%d" % (seed, attempt),
                                 set(PLANTS if allowed_plants is None else allowed_plants), positions)
        except (Budget, matheval.EvalError, matheval.Hazard) as ex:
            last = ex
            continue
        if out is not None:
            out["meta"]["seed"] = seed
            out["meta"]["attempts"] = attempt + 1
            return out
    raise RuntimeError("mathmodel_gen: no tame model after %d attempts for seed %r (%r)" % (max_tries, seed, last))


def _is_number(text):
    try:
        matheval.number(text)
        return True
    except Exception:
        return False


def _terminating(fr):
    d = Fraction(fr).denominator
    for q in (2, 5):
        while d % q == 0:
            d //= q
    return d == 1


def _generate_once(seed, mdl, workdir, unsafe_prob, nla_prob, tag, allowed, positions=None):
    rng = random.Random(seed)
    M = _Model(rng)
    if positions is None:
        positions = rng.sample(BOOST_KINDS, 2)
    positions = list(positions)
    boosted = {}
    ops = ops_extra = {}
    ncomp = rng.choice([2, 2, 3, 3, 3, 4])
    M.comps = [{"name": "c%d_%s" % (i, rng.choice(["env", "membrane", "gate", "pool", "main", "aux"])), "variables": [], "equations": []}
               for i in range(ncomp)]
    has_ode = rng.random() < 0.75 or "diff:on_rhs" in positions
    want_nla = rng.random() < nla_prob
    unsafe = rng.random() < unsafe_prob
    planted = []
    voi_value = float(rng.choice([0.25, 0.5, 0.75, 1.25, 1.5, 2.0, 3.0])) if has_ode else 0.0

    # ---- voi and states
    voi_k = None
    states = []
    pre_consts = []
    if has_ode:
        nst = rng.choice([1, 1, 2, 2, 3])
        homes = [rng.randrange(ncomp) for _ in range(nst)]
        voi_k = M.new_class("time", "voi")
        with_t = sorted(set(homes) | {i for i in range(ncomp) if rng.random() < 0.5})
        first = True
        for ci in with_t:
            units = rng.choice([n for n, _ in FAMILIES["time"]])
            name = rng.choice(["t", "time", "tau"]) if rng.random() < 0.8 else M.new_name("t")
            if first:
                M.add_member(voi_k, ci, name, units)
                M.classes[voi_k]["q"] = voi_value * M.mult[units]
                first = False
            else:
                others = [m for m in M.classes[voi_k]["members"]]
                tgt = others[0] if rng.random() < 0.6 else rng.choice(others)
                M.add_member(voi_k, ci, name, units)
                M.conns.append([M.comps[tgt[0]]["name"], tgt[1], M.comps[ci]["name"], name])
        for ci in homes:
            fam = rng.choice(["volt", "conc", "dimless", "length", "current", "dimless", "area"])
            units = rng.choice([n for n, _ in FAMILIES[fam]])
            k = M.new_class(fam, "state")
            iv = nice_number(rng)
            name = M.new_name(rng.choice(["x", "V", "n", "s"]))
            if ncomp > 1 and rng.random() < 0.15:
                # the initial value sits on an equivalent variable of another component
                cj = rng.choice([j for j in range(ncomp) if j != ci])
                units2 = rng.choice([n for n, _ in FAMILIES[fam]])
                name2 = M.new_name("init_")
                M.add_member(k, ci, name, units)                       # ODE variable first: it is the primary
                ivtext = initial_value_text(rng, iv)
                if rng.random() < 0.5:
                    # ... given as the NAME of a constant of that component, declared before it, in the same units
                    c0 = M.new_name("c0_")
                    k0 = M.new_class(fam, "constant")
                    M.add_member(k0, cj, c0, units2, ivtext)
                    M.classes[k0]["q"] = float(iv) * M.mult[units2]
                    pre_consts.append(k0)
                    ivtext = c0
                M.add_member(k, cj, name2, units2, ivtext)
                M.conns.append([M.comps[ci]["name"], name, M.comps[cj]["name"], name2])
                M.classes[k]["q"] = float(iv) * M.mult[units2]
            else:
                M.add_member(k, ci, name, units, initial_value_text(rng, iv))
                M.classes[k]["q"] = float(iv) * M.mult[units]
            states.append((k, ci, name))

    # ---- constants
    consts = []
    vol_classes = []
    for _ in range(rng.choice([2, 3, 3, 4, 5])):
        ci = rng.randrange(ncomp)
        fam = rng.choice(list(FAMILIES))
        if fam == "time" and has_ode:
            fam = "dimless"
        units = rng.choice([n for n, _ in FAMILIES[fam]])
        k = M.new_class(fam, "constant")
        iv = nice_number(rng)
        txt = initial_value_text(rng, iv)
        if unsafe and "C03-uppercase-exponent" in allowed and rng.random() < 0.12 and "." not in dec_text(iv):
            txt = dec_text(iv) + "E0"                                   # C03-uppercase-exponent
            planted.append("C03-uppercase-exponent")
        M.add_member(k, ci, M.new_name(rng.choice(["a", "b", "g", "K"])), units, txt)
        M.classes[k]["q"] = float(iv) * M.mult[units]
        consts.append(k)
    consts = pre_consts + consts
    # at least two constants of the dimensionless family (dimensionless, percent, permille, dozen): equations over
    # that family only may hold any variable inside exponents, degrees and logarithm bases
    while sum(1 for k in consts if M.classes[k]["family"] == "dimless") < 2:
        ci = rng.randrange(ncomp)
        units = rng.choice([n for n, _ in FAMILIES["dimless"]])
        k = M.new_class("dimless", "constant")
        iv = abs(nice_number(rng, False, 1.2, 6.0)) + 1
        M.add_member(k, ci, M.new_name(rng.choice(["n_", "h", "e_"])), units, dec_text(iv))
        M.classes[k]["q"] = float(iv) * M.mult[units]
        consts.append(k)

    def init_by_reference(order_ok=True, referenced_scaled=False):
        """a constant whose initial_value is the NAME of another variable of its component (same units)"""
        ci = rng.randrange(ncomp)
        fam = rng.choice([f for f in FAMILIES if not (f == "time" and has_ode)])
        units = rng.choice([n for n, _ in FAMILIES[fam]])
        iv = nice_number(rng)
        ref = M.new_name("ref_")
        kr = M.new_class(fam, "constant")
        vname = M.new_name(rng.choice(["a", "b", "g"]))
        kv = M.new_class(fam, "constant")
        if referenced_scaled:
            # the named variable is only a scaled view of a constant defined in another component
            others = [j for j in range(ncomp) if j != ci]
            if not others:
                return False
            up = rng.choice([n for n, _ in FAMILIES[fam] if abs(M.mult[n] / M.mult[units] - 1.0) > 1e-12] or [None])
            if up is None:
                return False
            pv = Fraction(iv) * M.multq[units] / M.multq[up] if not isinstance(M.multq[units], float) and not isinstance(M.multq[up], float) else None
            if pv is None or not _terminating(pv) or not (Fraction(1, 10000) <= abs(pv) <= 10 ** 6):
                return False
            cj = rng.choice(others)
            prim = M.new_name("K")
            M.add_member(kr, cj, prim, up, dec_text(pv))
            M.add_member(kr, ci, ref, units)
            M.conns.append([M.comps[cj]["name"], prim, M.comps[ci]["name"], ref])
            M.add_member(kv, ci, vname, units, ref)
        elif order_ok:
            M.add_member(kr, ci, ref, units, initial_value_text(rng, iv))
            M.add_member(kv, ci, vname, units, ref)
        else:
            M.add_member(kv, ci, vname, units, ref)                        # named before it is declared
            M.add_member(kr, ci, ref, units, initial_value_text(rng, iv))
        M.classes[kr]["q"] = float(iv) * M.mult[units]
        M.classes[kv]["q"] = float(iv) * M.mult[units]
        consts.extend([kr, kv])
        return True

    if "initial_value:reference" in positions or rng.random() < 0.25:
        if init_by_reference():
            boosted["initial_value:reference"] = boosted.get("initial_value:reference", 0) + 1
    if unsafe and "C03-initial-value-reference-order" in allowed and rng.random() < 0.2:
        if init_by_reference(order_ok=False):
            planted.append("C03-initial-value-reference-order")
    if unsafe and "C03-initial-value-reference-not-scaled" in allowed and rng.random() < 0.2:
        if init_by_reference(referenced_scaled=True):
            planted.append("C03-initial-value-reference-not-scaled")
    if unsafe and "C03-prefix-with-exponent-scaling" in allowed and rng.random() < 0.2 and ncomp > 1:
        # a constant in cubic metres; its views in other components are in mm3 / dm3 / 2 cm3 (prefix AND exponent)
        ci = rng.randrange(ncomp)
        k = M.new_class("volume", "constant")
        iv = nice_number(rng, False)
        M.add_member(k, ci, M.new_name("vol"), "m3", initial_value_text(rng, iv))
        M.classes[k]["q"] = float(iv) * M.mult["m3"]
        consts.append(k)
        vol_classes.append(k)
        planted.append("C03-prefix-with-exponent-scaling")

    plant_queue = []
    if unsafe:
        pool = [p for p in PLANTS[:7] if p in allowed]
        plant_queue = [rng.choice(pool) for _ in range(rng.choice([1, 1, 2, 3]))] if pool else []

    def draw_rhs(ci, lv, depth, extra_leaves=(), extra_env=None, kind="N", plant_id=None, lhs_units=None):
        """candidate right-hand side over the leaves lv = _leaves(M, ci, classes) of component ci"""
        leaves = list(lv[0]) + list(extra_leaves)
        env = dict(lv[1])
        env.update(extra_env or {})
        local = {v["name"]: v for v in M.comps[ci]["variables"]}
        # an exponent / degree may only mention variables with a NUMERIC initial value (Analyser::powerValue calls
        # std::stod on the initial_value text, also when it is the name of a variable) ...
        pure = [n for n in lv[1] if local[n].get("initial_value") and _is_number(local[n]["initial_value"])]
        # ... unless every quantity of the equation has a dimensionless units map (dimensionless, percent, permille,
        # dozen): then the null dereference in analyseEquationUnits cannot be reached
        impure_ok = (lhs_units is not None and FAMILY_OF.get(lhs_units) == "dimless" and not extra_leaves
                     and all(FAMILY_OF.get(local[n]["units"]) == "dimless" for n in lv[1]))
        g = ExprGen(rng, leaves, env, ops, pure, impure_ok, [n for n in lv[1] if M.is_scaled(ci, n)])
        if plant_id is not None:
            e = plant(plant_id, g, rng)
            if e is not None and rng.random() < 0.5:
                e = ("ap", rng.choice(["plus", "times"]), [g.gen(1), e], None)
        else:
            e = g.gen(depth, kind)
            if e[0] == "ci" and rng.random() < 0.7:
                e = ("ap", rng.choice(["plus", "times", "minus"]), [e, g.gen(1)], None)
        if e is None:
            raise matheval.Hazard("plant failed")
        v = g.value(e)
        return e, v

    def pick_safe(ci, kind_of_eq, make, lhs_for_ast):
        """draw candidates until one is safe in both profiles (safe models), else the first one"""
        if mdl is None or unsafe:
            return make()
        for _round in range(4):
            batch = []
            for _ in range(3):
                try:
                    batch.append(make())
                except (matheval.Hazard, matheval.EvalError, Budget):
                    continue
            if not batch:
                continue
            asts = [lhs_for_ast(e) for e, _ in batch]
            ans = safety_query(mdl, asts, workdir, tag)
            for (e, v), a in zip(batch, ans):
                if a["safeC"] and a["safePy"]:
                    return e, v
        raise matheval.Hazard("no safe candidate")

    def scaled_ast_of(ci, rhs, ode_t=None):
        """AST of rhs as the analyser will scale it, using the predicted primaries (= first member of each class,
        by construction: members[0] is always the defining variable)"""
        def factor(name):
            k = M.var_class[(ci, name)]
            units = [m[2] for m in M.classes[k]["members"] if m[0] == ci and m[1] == name][0]
            p = M.classes[k]["members"][0]
            f = M.mult[p[2]] / M.mult[units]
            return None if abs(f - 1.0) <= 1e-12 else f

        def dfactor(x, t):
            ft = factor(t)
            return (None if ft is None else 1.0 / ft), factor(x)
        a = expr_ast(rhs, factor, dfactor)
        if ode_t is not None:
            ft = factor(ode_t)
            if ft is not None:
                a = ("TIMES", None, ("CN", fmt_factor(ft), None, None), a)
        return a

    # ---- computed constants and algebraic variables
    defined = list(consts)                   # classes usable on right-hand sides, in definition order
    dynamic = [k for k, _, _ in states] + ([voi_k] if voi_k is not None else [])
    nvars = rng.choice([2, 3, 4, 5, 6, 7])
    for j in range(nvars):
        ci = rng.randrange(ncomp)
        fam = rng.choice(list(FAMILIES))
        if fam == "time" and has_ode:
            fam = "dimless"
        units = rng.choice([n for n, _ in FAMILIES[fam]])
        pool = list(defined)
        dyn_pool = list(dynamic)
        if rng.random() < 0.3:
            # an equation over the dimensionless family only: variables (also scaled ones: percent, permille, dozen)
            # may then sit inside exponents, degrees and logarithm bases
            fam = "dimless"
            units = rng.choice([n for n, _ in FAMILIES[fam]])
            pool = [k for k in defined if M.classes[k]["family"] == "dimless"]
            dyn_pool = [k for k in dynamic if M.classes[k]["family"] == "dimless"]
        want_dyn = dyn_pool and rng.random() < 0.55
        ks = []
        if want_dyn:
            cand = [k for k in dyn_pool if k != voi_k or any(m[0] == ci for m in M.classes[voi_k]["members"])]
            if cand:
                ks.append(rng.choice(cand))
        for _ in range(rng.choice([1, 2, 2, 3])):
            k = rng.choice(pool + [k2 for k2 in dyn_pool if k2 != voi_k])
            if k not in ks:
                ks.append(k)
        ks = [k for k in ks if k != voi_k or any(m[0] == ci for m in M.classes[voi_k]["members"])]
        name = M.new_name(rng.choice(["y", "i_", "alpha", "m", "z"]))
        depth = rng.choice([1, 2, 2, 3, 3, 4])
        pid = plant_queue.pop() if plant_queue and rng.random() < 0.6 else None
        # make the imports now so that every candidate sees the same local names
        lv = _leaves(M, ci, ks)
        make = lambda: draw_rhs(ci, lv, depth, plant_id=pid, lhs_units=units)
        rhs, val = pick_safe(ci, "alg", make, lambda e: scaled_ast_of(ci, e))
        if pid is not None:
            planted.append(pid)
        k = M.new_class(fam, "computed")
        M.add_member(k, ci, name, units)
        M.classes[k]["q"] = val * M.mult[units]
        swap = rng.random() < 0.12
        if swap and rhs[0] == "ci":
            # `known = unknown` with a bare known variable on the left: the analyser does not scale it
            # (C03-known-variable-on-lhs-not-scaled): only in unsafe models
            kk = M.var_class[(ci, rhs[1])]
            scaled = abs(M.mult[M.classes[kk]["members"][0][2]] / M.mult[[m[2] for m in M.classes[kk]["members"] if m[0] == ci and m[1] == rhs[1]][0]] - 1.0) > 1e-12
            if scaled:
                if unsafe and "C03-known-variable-on-lhs-not-scaled" in allowed:
                    planted.append("C03-known-variable-on-lhs-not-scaled")
                else:
                    swap = False
        if swap:
            M.comps[ci]["equations"].append((rhs, ("ci", name)))        # unknown on the right-hand side
        else:
            M.comps[ci]["equations"].append((("ci", name), rhs))
        defined.append(k)
        if any(k2 in dynamic for k2 in ks):
            dynamic.append(k)

    # ---- one equation per requested position kind, with a reference to a SCALED variable exactly there
    def boost(kind):
        nonlocal unsafe
        if kind in ("initial_value:reference", "diff:on_rhs"):
            return True                                      # handled with the constants / after the ODEs
        if kind == "operand:not" and not unsafe:
            # not(s) with a scaled s is printed "!f*s" by the C profile (C03-not-operand): an unsafe model by design
            if "C03-not-operand" not in allowed:
                return False
            unsafe = True
        for _attempt in range(10):
            ci = rng.randrange(ncomp)
            dimless_only = kind in EXPONENT_KINDS or rng.random() < 0.3
            fams = ["dimless"] if dimless_only else [f for f in FAMILIES if not (f == "time" and has_ode)]
            src = None
            if rng.random() < 0.4:
                # a view of an existing quantity (constant, computed or algebraic variable, state)
                cands = [k for k in defined + [st[0] for st in states] if M.classes[k]["family"] in fams]
                rng.shuffle(cands)
                for k in cands[:4]:
                    sname = M.scaled_local(k, ci)
                    if sname is not None:
                        src = (k, sname)
                        break
            if src is None:
                # a fresh constant defined in another component, seen here in units of another scale, with a tame value
                if ncomp < 2:
                    return False
                fam = rng.choice(fams)
                names = [n for n, _ in FAMILIES[fam]]
                up, us = rng.sample(names, 2)
                if abs(M.mult[up] / M.mult[us] - 1.0) <= 1e-12 or isinstance(M.multq[up], float) or isinstance(M.multq[us], float):
                    continue
                vs = Fraction(rng.choice([15, 20, 25, 30, 35, 40, 45]), 10)
                pv = vs * M.multq[us] / M.multq[up]
                if not _terminating(pv) or not (Fraction(1, 10000) <= pv <= 10 ** 6):
                    continue
                cj = rng.choice([j for j in range(ncomp) if j != ci])
                k = M.new_class(fam, "constant")
                M.add_member(k, cj, M.new_name(rng.choice(["a", "b", "g", "K"])), up, dec_text(pv))
                M.classes[k]["q"] = float(pv) * M.mult[up]
                sname = M.new_name(rng.choice(["p", "q", "w", "in_", "k_"]))
                M.add_member(k, ci, sname, us)
                M.conns.append([M.comps[cj]["name"], M.classes[k]["members"][0][1], M.comps[ci]["name"], sname])
                consts.append(k)
                defined.append(k)
                src = (k, sname)
            k, sname = src
            sv = M.value(ci, sname)
            S = ("ci", sname)
            g = ExprGen(rng, [(S, sv)], {sname: sv}, ops, (), dimless_only, [sname])
            g0 = ExprGen(rng, [], {}, ops)                    # operands without variables

            def make():
                A = lambda: g0.gen(rng.choice([0, 0, 1]))
                Bc = lambda: ("ap", rng.choice(["lt", "gt", "leq", "geq", "neq"]), [A(), A()], None)

                def fit(dom):
                    x = g.adapt(S, dom)
                    if x is None:
                        raise matheval.Hazard("no fit")
                    return x
                if kind == "operand:plus":
                    args = [A(), S] + ([A()] if rng.random() < 0.3 else [])
                    rng.shuffle(args)
                    e = ("ap", "plus", args, None)
                elif kind == "operand:minus":
                    args = [A(), S]
                    rng.shuffle(args)
                    e = ("ap", "minus", args, None)
                elif kind == "operand:times":
                    args = [A(), S] + ([A()] if rng.random() < 0.3 else [])
                    rng.shuffle(args)
                    e = ("ap", "times", args, None)
                elif kind == "operand:divide":
                    e = ("ap", "divide", [A(), fit("nz")], None) if rng.random() < 0.6 else ("ap", "divide", [S, g0.adapt(A(), "nz")], None)
                elif kind == "operand:unary_minus":
                    e = ("ap", "minus", [S], None)
                    if rng.random() < 0.5:
                        e = ("ap", rng.choice(["plus", "times"]), [A(), e], None)
                elif kind == "operand:unary_plus":
                    e = ("ap", rng.choice(["minus", "plus"]), [A(), ("ap", "plus", [S], None)], None)
                elif kind == "operand:relational":
                    args = [S, A()]
                    rng.shuffle(args)
                    e = ("ap", rng.choice(["lt", "gt", "leq", "geq", "neq", "eq"]), args, None)
                elif kind == "operand:logical":
                    args = [S, Bc()]
                    rng.shuffle(args)
                    e = ("ap", rng.choice(["and", "or", "xor"]), args, None)
                elif kind == "operand:not":
                    e = ("ap", "not", [S], None)
                elif kind == "arg:power_base":
                    e = ("ap", "power", [fit("pos"), rng.choice([("cn", "2", "dimensionless"), ("cn", "3", "dimensionless"), g0.cn(Fraction(3, 2))])], None)
                elif kind == "arg:power_exponent":
                    ex = S if abs(sv) <= 4.5 else ("ap", "divide", [S, g0.cn(Fraction(int(abs(sv) // 2) + 1))], None)
                    e = ("ap", "power", [g0.adapt(A(), "pos"), ex], None)
                elif kind == "arg:root_radicand":
                    e = ("ap", "root", [fit("pos")], g0.cn(Fraction(3)) if rng.random() < 0.3 else None)
                elif kind == "qualifier:degree":
                    e = ("ap", "root", [g0.adapt(A(), "pos")], fit("gt1"))
                elif kind == "arg:log_ln_exp":
                    op = rng.choice(["ln", "log", "exp"])
                    e = ("ap", op, [fit(DOMAIN[op])], None)
                elif kind == "qualifier:logbase":
                    e = ("ap", "log", [g0.adapt(A(), "pos")], fit("gt1"))
                elif kind == "arg:trig":
                    op = rng.choice(TRIG)
                    e = ("ap", op, [fit(DOMAIN[op])], None)
                elif kind == "arg:abs_floor_ceiling":
                    e = ("ap", rng.choice(["abs", "floor", "ceiling"]), [S], None)
                elif kind == "arg:min_max_rem":
                    op = rng.choice(["min", "max", "rem"])
                    if op == "rem":
                        e = ("ap", "rem", [S, g0.adapt(A(), "nz")], None) if rng.random() < 0.5 else ("ap", "rem", [A(), fit("nz")], None)
                    else:
                        args = [S, A()] + ([A()] if rng.random() < 0.3 else [])
                        rng.shuffle(args)
                        e = ("ap", op, args, None)
                elif kind == "piecewise:value":
                    e = ("pw", [[S, Bc()]], A())
                elif kind == "piecewise:condition":
                    e = ("pw", [[A(), S]], A())
                elif kind == "piecewise:otherwise":
                    e = ("pw", [[A(), Bc()]], S)
                elif kind == "bare:rhs":
                    e = S
                elif kind == "nested:unary_minus_in_function":
                    op = rng.choice(["sin", "cos", "arctan", "abs", "exp", "tanh"])
                    inner = ("ap", "minus", [S], None)
                    x = g.adapt(inner, DOMAIN.get(op, "any"))
                    if x is None:
                        raise matheval.Hazard("no fit")
                    e = ("ap", op, [x], None)
                else:
                    raise ValueError(kind)
                if kind not in ("bare:rhs", "operand:not") and rng.random() < 0.3:
                    e = ("ap", rng.choice(["plus", "times"]), [A(), e], None)
                return e, g.value(e)
            fam_l = "dimless" if dimless_only else rng.choice([f for f in FAMILIES if not (f == "time" and has_ode)])
            units = rng.choice([n for n, _ in FAMILIES[fam_l]])
            try:
                rhs, val = pick_safe(ci, "alg", make, lambda e: scaled_ast_of(ci, e))
            except (matheval.Hazard, matheval.EvalError, Budget):
                continue
            kk = M.new_class(fam_l, "computed")
            M.add_member(kk, ci, M.new_name(rng.choice(["y", "z", "m", "u_"])), units)
            M.classes[kk]["q"] = val * M.mult[units]
            M.comps[ci]["equations"].append((("ci", M.classes[kk]["members"][0][1]), rhs))
            defined.append(kk)
            if k in dynamic:
                dynamic.append(kk)
            if kind == "operand:not":
                planted.append("C03-not-operand")
            return True
        return False

    for kind in positions:
        if boost(kind):
            boosted[kind] = boosted.get(kind, 0) + 1

    # ---- ODEs
    for (k, ci, name) in states:
        tname = [m[1] for m in M.classes[voi_k]["members"] if m[0] == ci][0]
        if unsafe and "C03-state-on-rhs-of-own-ode" in allowed and rng.random() < 0.10:
            rhs = ("ci", name)                                             # dx/dt = x
            planted.append("C03-state-on-rhs-of-own-ode")
            val = M.value(ci, name)
        else:
            ks = [k] if rng.random() < 0.5 else []
            for _ in range(rng.choice([1, 2, 3])):
                k2 = rng.choice(defined + [s[0] for s in states] + [voi_k])
                if k2 not in ks:
                    ks.append(k2)
            lv = _leaves(M, ci, ks)
            depth = rng.choice([1, 2, 2, 3, 3])
            pid = plant_queue.pop() if plant_queue and rng.random() < 0.5 else None
            make = lambda: draw_rhs(ci, lv, depth, plant_id=pid)
            rhs, val = pick_safe(ci, "ode", make, lambda e: scaled_ast_of(ci, e, ode_t=tname))
            if rhs[0] == "ci" and rhs[1] == name:
                rhs = ("ap", "times", [("cn", "1", "dimensionless"), rhs], None)
            if pid is not None:
                planted.append(pid)
        lhs = ("diff", name, tname)
        units_x = [m[2] for m in M.classes[k]["members"] if m[0] == ci and m[1] == name][0]
        units_t = [m[2] for m in M.classes[voi_k]["members"] if m[0] == ci and m[1] == tname][0]
        M.classes[k]["rate"] = val * M.mult[units_x] / M.mult[units_t]
        M.comps[ci]["equations"].append((lhs, rhs))

    # ---- planted: the rate of one state used in the ODE of another (computeRates emits the ODEs in index order, so
    # the rate may be read before it is assigned: C03-rate-used-before-computed)
    if unsafe and len(states) >= 2 and "C03-rate-used-before-computed" in allowed and rng.random() < 0.3:
        (ka, cia, na), (kb, _cib, _nb) = rng.sample(states, 2)
        ta = [m for m in M.classes[voi_k]["members"] if m[0] == cia][0]
        xb = M.local(kb, cia)
        uxb = [m[2] for m in M.classes[kb]["members"] if m[0] == cia and m[1] == xb][0]
        uxa = [m[2] for m in M.classes[ka]["members"] if m[0] == cia and m[1] == na][0]
        rate_b_local = M.classes[kb]["rate"] * M.mult[ta[2]] / M.mult[uxb]
        cf = abs(nice_number(rng, False))
        eqs_a = M.comps[cia]["equations"]
        for i, (l, r) in enumerate(eqs_a):
            if l == ("diff", na, ta[1]):
                d = ("diff", xb, ta[1])
                eqs_a[i] = (l, ("ap", "plus", [r, ("ap", "times", [cn_variants(rng, cf) + ("dimensionless",), d], None)], None))
                M.classes[ka]["rate"] += float(cf) * rate_b_local * M.mult[uxa] / M.mult[ta[2]]
                planted.append("C03-rate-used-before-computed")
                break

    # ---- the rate of a state used on a right-hand side (rare)
    if has_ode and (rng.random() < 0.10 or "diff:on_rhs" in positions):
        k = rng.choice(states)[0]
        ci = rng.choice(sorted({m[0] for m in M.classes[voi_k]["members"]}))
        # preferably through a view of the state in units of another scale
        xn = M.scaled_local(k, ci) or M.local(k, ci)
        tn = [m[1] for m in M.classes[voi_k]["members"] if m[0] == ci][0]
        ux = [m[2] for m in M.classes[k]["members"] if m[0] == ci and m[1] == xn][0]
        ut = [m[2] for m in M.classes[voi_k]["members"] if m[0] == ci and m[1] == tn][0]
        rate_local = M.classes[k]["rate"] * M.mult[ut] / M.mult[ux]
        d = ("diff", xn, tn)
        ks = [rng.choice(defined)]
        lv = _leaves(M, ci, ks)
        make = lambda: draw_rhs(ci, lv, rng.choice([1, 2]), extra_leaves=[(d, rate_local)] * 3, extra_env={d: rate_local})

        voi_scaled = abs(M.mult[M.classes[voi_k]["members"][0][2]] / M.mult[ut] - 1.0) > 1e-12
        bare_ok = (not voi_scaled) or (unsafe and "C03-bare-rate-on-rhs-voi-scaling" in allowed)

        def with_rate():
            for _ in range(20):
                e, v = make()
                if e[0] == "diff" and not bare_ok:
                    # `y = d x/d t` with a scaled voi is mis-scaled by the analyser (C03-bare-rate-on-rhs-voi-scaling)
                    e = ("ap", "times", [("cn", "1", "dimensionless"), e], None)
                if matheval.variables_in(e)[1]:
                    return e, v
            raise matheval.Hazard("no rate in candidate")
        rhs, val = pick_safe(ci, "alg", with_rate, lambda e: scaled_ast_of(ci, e))
        if rhs[0] == "diff" and voi_scaled:
            planted.append("C03-bare-rate-on-rhs-voi-scaling")
        fam = rng.choice(["dimless", "rate", "volt"])
        units = rng.choice([n for n, _ in FAMILIES[fam]])
        kk = M.new_class(fam, "computed")
        nm = M.new_name("r")
        M.add_member(kk, ci, nm, units)
        M.classes[kk]["q"] = val * M.mult[units]
        M.comps[ci]["equations"].append((("ci", nm), rhs))
        ops["diff_on_rhs"] = ops.get("diff_on_rhs", 0) + 1

    # ---- one small NLA system
    n_nla = 0
    if want_nla:
        ci = rng.randrange(ncomp)
        form = rng.choice(["single_linear", "single_cubic", "linear2", "nonlinear2"])
        units = rng.choice(["dimensionless", "dimensionless", "volt", "mM"])
        fam = FAMILY_OF[units]
        cnf = lambda fr: cn_variants(rng, fr) + ("dimensionless",)
        ci_ = lambda n: ("ci", n)
        if form in ("single_linear", "single_cubic"):
            x0 = nice_number(rng)
            k = M.new_class(fam, "nla")
            xn = M.new_name("u")
            M.add_member(k, ci, xn, units)                                 # no initial value: guess 0
            M.classes[k]["q"] = float(x0) * M.mult[units]
            a = abs(nice_number(rng, False))
            if form == "single_linear":
                b = nice_number(rng)
                lhs = ("ap", "plus", [("ap", "times", [cnf(a), ci_(xn)], None), cnf(b)], None)
                rhs = cnf(a * x0 + b)
            else:
                lhs = ("ap", "plus", [("ap", "times", [ci_(xn), ci_(xn), ci_(xn)], None), ("ap", "times", [cnf(a), ci_(xn)], None)], None)
                rhs = cnf(x0 ** 3 + a * x0)
            eqs = [(lhs, rhs)]
        else:
            x0, y0 = nice_number(rng), nice_number(rng)
            kx, ky = M.new_class(fam, "nla"), M.new_class(fam, "nla")
            xn, yn = M.new_name("u"), M.new_name("v")
            gx = x0 + Fraction(rng.choice([-1, 1]), 10)
            gy = y0 + Fraction(rng.choice([-1, 1]), 10)
            M.add_member(kx, ci, xn, units, dec_text(gx))
            M.add_member(ky, ci, yn, units, dec_text(gy))
            M.classes[kx]["q"] = float(x0) * M.mult[units]
            M.classes[ky]["q"] = float(y0) * M.mult[units]
            if form == "linear2":
                while True:
                    a, b, c, d = [nice_number(rng) for _ in range(4)]
                    if abs(a * d - b * c) > Fraction(1, 2):
                        break
                eqs = [(("ap", "plus", [("ap", "times", [cnf(a), ci_(xn)], None), ("ap", "times", [cnf(b), ci_(yn)], None)], None), cnf(a * x0 + b * y0)),
                       (("ap", "minus", [("ap", "times", [cnf(c), ci_(xn)], None), ("ap", "times", [cnf(-d), ci_(yn)], None)], None), cnf(c * x0 + d * y0))]
            else:
                if abs(2 * x0 + 1) < 1:
                    x0 = x0 + 2
                    M.classes[kx]["q"] = float(x0) * M.mult[units]
                    M.comps[ci]["variables"][-2]["initial_value"] = dec_text(x0 + Fraction(1, 10))
                eqs = [(("ap", "plus", [("ap", "times", [ci_(xn), ci_(xn)], None), ci_(yn)], None), cnf(x0 * x0 + y0)),
                       (("ap", "minus", [ci_(xn), ci_(yn)], None), cnf(x0 - y0))]
        # a known quantity, seen in units of another scale, added on both sides of the first equation: the solution
        # stays the same and the analyser has to scale a reference inside an NLA equation
        wn = None
        cands = [k2 for k2 in consts if M.classes[k2]["members"][0][0] != ci and k2 not in vol_classes]
        rng.shuffle(cands)
        for k2 in cands[:4]:
            wn = M.scaled_local(k2, ci)
            if wn is not None:
                break
        if wn is not None:
            l0, r0 = eqs[0]
            eqs[0] = (("ap", "plus", [l0, ("ci", wn)], None), ("ap", "plus", [r0, ("ci", wn)], None))
        for l, r in eqs:
            M.comps[ci]["equations"].append((l, r))
        n_nla = 1
        ops["nla_" + form] = 1

    # ---- finish: shuffle declaration order a little (does not change the voi's first component) and check
    for c in M.comps:
        if rng.random() < 0.3:
            rng.shuffle(c["equations"])
    desc = M.desc("m_%s" % tag.replace("-", "_"))
    # every component must hold at least one variable to be worth keeping; empty components are legal but dull
    desc["components"] = [c for c in desc["components"] if c["variables"]]
    if len(desc["components"]) < 1:
        return None
    res = matheval.evaluate(desc, voi=voi_value, strict=True)
    if res.errors:
        return None
    if not stable(desc, res, voi_value, rng):
        return None
    if mdl is not None and not unsafe:
        recs = model_equation_asts(desc, res, predicted_primaries(desc, res))
        ans = safety_query(mdl, [r["ast"] for r in recs], workdir, tag)
        if any(not (a["safeC"] and a["safePy"]) for a in ans):
            return None
    nscaled = 0
    for c1, v1, c2, v2 in desc["connections"]:
        if abs(res.m((c1, v1)) / res.m((c2, v2)) - 1.0) > 1e-12:
            nscaled += 1
    nested = 0
    for c in desc["components"]:
        for l, r in c["equations"]:
            for side in (l, r):
                if side[0] not in ("ci", "diff"):
                    a = expr_ast(side, lambda n: None, lambda x, t: (None, None))
                    if astgen.nested_operator_pairs(a) >= 1:
                        nested += 1
    ops = {}
    for c in desc["components"]:
        for l, r in c["equations"]:
            count_ops(l, ops)
            count_ops(r, ops)
    for key in [k for k in ops_extra if k.startswith("nla_")]:
        ops[key] = ops_extra[key]
    meta = {"voi": voi_value, "unsafe": unsafe, "planted": planted, "nla": n_nla, "scaled_connections": nscaled,
            "components": len(desc["components"]), "ops": ops, "has_ode": has_ode, "states": len(states),
            "equations": sum(len(c["equations"]) for c in desc["components"]), "nested_equations": nested,
            "unfiltered": mdl is None, "positions_requested": positions, "positions_boosted": boosted,
            "scaled_positions": scaled_positions(desc, res, predicted_primaries(desc, res))}
    return {"desc": desc, "xml": to_xml(desc), "meta": meta}


def count_ops(e, acc):
    """operator histogram of an expression (final model text, not generation attempts)"""
    t = e[0]
    if t == "ap":
        name = e[1]
        if name in ("plus", "minus") and len(e[2]) == 1:
            name = "unary_" + name
        elif name in ("plus", "times", "and", "or", "xor", "min", "max") and len(e[2]) > 2:
            acc["nary_" + name] = acc.get("nary_" + name, 0) + 1
        if len(e) > 3 and e[3] is not None:
            name += "_with_" + ("degree" if e[1] == "root" else "logbase")
            count_ops(e[3], acc)
        acc[name] = acc.get(name, 0) + 1
        for a in e[2]:
            count_ops(a, acc)
    elif t == "pw":
        key = "piecewise_%d%s" % (len(e[1]), "_otherwise" if e[2] is not None else "")
        acc[key] = acc.get(key, 0) + 1
        for v, c in e[1]:
            count_ops(v, acc)
            count_ops(c, acc)
        if e[2] is not None:
            count_ops(e[2], acc)
    elif t == "k":
        acc["const_" + e[1]] = acc.get("const_" + e[1], 0) + 1
    elif t == "cne":
        acc["cn_e_notation"] = acc.get("cn_e_notation", 0) + 1
    elif t == "cn":
        acc["cn"] = acc.get("cn", 0) + 1
    elif t == "ci":
        acc["ci"] = acc.get("ci", 0) + 1
    elif t == "diff":
        acc["diff"] = acc.get("diff", 0) + 1
    return acc


def _perturb(e, rng, eps):
    t = e[0]
    if t in ("cn", "cne"):
        v = matheval.Evaluator().ev(e, {})
        if v == 0.0 or v != v or v in (math.inf, -math.inf):
            return e
        return ("cn", repr(v * (1.0 + eps * rng.choice([-1.0, 1.0]))), "dimensionless")
    if t == "ap":
        args = [_perturb(a, rng, eps) for a in e[2]]
        if e[1] == "power" and e[2][1][0] in ("cn", "cne") and float(matheval.Evaluator().ev(e[2][1], {})).is_integer():
            args[1] = e[2][1]                      # an integer exponent stays an integer (negative bases)
        return ("ap", e[1], args, None if len(e) < 4 or e[3] is None else _perturb(e[3], rng, eps))
    if t == "pw":
        return ("pw", [[_perturb(v, rng, eps), _perturb(c, rng, eps)] for v, c in e[1]], None if e[2] is None else _perturb(e[2], rng, eps))
    if t == "k" and e[1] in ("pi", "exponentiale"):
        # the generator prints pi and e with 15 significant digits (convertToString): they are inputs with a relative
        # error of about 1e-15 too, so an output that is ill-conditioned in them (tan(pi), sin(pi), ln(e)-1, ...) is
        # not comparable at 1e-9
        v = math.pi if e[1] == "pi" else math.e
        return ("cn", repr(v * (1.0 + eps * rng.choice([-1.0, 1.0]))), "dimensionless")
    return e


def stable(desc, res, voi_value, rng, eps=1e-12, tol=1e-10):
    """all class values and rates of the model move by less than `tol` (relative) when every literal and initial
    value is perturbed by a relative `eps`: the model is well enough conditioned for a 1e-9 comparison"""
    prng = random.Random(rng.getrandbits(32))
    d2 = {"name": desc["name"], "units": desc["units"], "connections": desc["connections"], "components": []}
    for c in desc["components"]:
        vs = []
        for v in c["variables"]:
            v = dict(v)
            if v.get("initial_value") and _is_number(v["initial_value"]):
                x = matheval.number(v["initial_value"])
                if x != 0.0:
                    v["initial_value"] = repr(x * (1.0 + eps * prng.choice([-1.0, 1.0])))
            vs.append(v)
        d2["components"].append({"name": c["name"], "variables": vs,
                                 "equations": [[l if l[0] in ("ci", "diff") else _perturb(l, prng, eps),
                                                r if r[0] in ("ci", "diff") else _perturb(r, prng, eps)] for l, r in c["equations"]]})
    try:
        r2 = matheval.evaluate(d2, voi=voi_value * (1.0 + eps), strict=False)
    except matheval.EvalError:
        return False
    if r2.errors:
        return False

    def close(a, b):
        if a != a or b != b:
            return a != a and b != b
        return abs(a - b) <= tol * max(abs(a), abs(b)) + 1e-13
    for k, q in res.q.items():
        if not close(q, r2.q.get(k, math.nan)):
            return False
    for k, q in res.rate_q.items():
        if not close(q, r2.rate_q.get(k, math.nan)):
            return False
    return True
