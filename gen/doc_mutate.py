"""Seeded, structure-aware mutation of CellML documents (C01; reusable by other properties).

    mutate(data, rng)            -> (bytes <= 64 KiB, label)   one structure-aware or raw mutation of a document
    gen_wf_math(rng, depth)      -> ET element <math>           a document of the grammar MathSpec.WellFormedMath
    math_tokens(elem)            -> str                         prefix form read by ocaml/math/driver.ml (eval mode)
    parse_xml(bytes)             -> ET root or None             comments kept

No property logic lives here: the generators only produce inputs; verdicts come from the extracted Coq model and
from the library."""
import re
import xml.etree.ElementTree as ET

CELLML2 = "http://www.cellml.org/cellml/2.0#"
CELLML11 = "http://www.cellml.org/cellml/1.1#"
CELLML10 = "http://www.cellml.org/cellml/1.0#"
MATHML = "http://www.w3.org/1998/Math/MathML"
XLINK = "http://www.w3.org/1999/xlink"
MAXLEN = 64 * 1024
DUP_CAP = 5000     # largest multiplicity of m_subtree_duplicate (the quick tier of C01 lowers it: hundreds of imports validate slowly)

for _p, _u in (("", CELLML2), ("mathml", MATHML), ("xlink", XLINK)):
    try:
        ET.register_namespace(_p, _u)
    except ValueError:
        pass

# values aimed at the numeric guards (utilities.cpp isCellMLReal / isCellMLInteger / convertToDouble / convertToInt /
# convertPrefixToInt) and at places that are only screened, not converted (initial_value)
HOSTILE_NUMBERS = [
    "-", ".", "-.", "+", "e", "-e1", ".e1", "1e", "1e+", "1e-", "1e400", "-1e400", "1e-400", "1e309", "1.8e308",
    "1.7976931348623157e308", "4.9e-324", "2e-324", "9" * 400, "-" + "9" * 400, "0." + "0" * 400 + "1", "1" + "0" * 310,
    "2147483647", "2147483648", "-2147483648", "-2147483649", "99999999999999999999", "+1", " 1", "1 ", "1\t", "0x10", "1f",
    "inf", "-inf", "nan", "NaN", "infinity", "1,5", "1..2", "--1", "1e1e1", "", "0", "-0", "0e0", "1E5", "1.E5", ".5",
    "١", "1e99999999999", "1e-99999999999", "1e+2147483648",
]
HOSTILE_NAMES = [
    "", " ", "1abc", "a b", "a-b", "a.b", "_", "__", "a" * 5000, "été", "\U0001F600", "a&b", "a<b", "a\"b", "a'b",
    "second", "metre", "dimensionless", "kilogram", "x", "t", "time", "math", "model", "units", "none", "public",
    "public_and_private", "private", "xmlns", "cellml:units", "../x", "%s%s%n", "\x7f", "a\nb", "-", ".", "1e400",
]
PREFIXES = ["yotta", "kilo", "milli", "yocto", "bogus", "1", "-24", "25", "2147483648", "-", ""]
INTERFACES = ["none", "public", "private", "public_and_private", "both", ""]


def parse_xml(data):
    try:
        parser = ET.XMLParser(target=ET.TreeBuilder(insert_comments=True))
        parser.feed(data)
        return parser.close()
    except Exception:
        return None


def _serialise(root):
    try:
        return b'<?xml version="1.0" encoding="UTF-8"?>\n' + ET.tostring(root, encoding="utf-8")
    except Exception:
        return None


def _elements(root):
    return [e for e in root.iter() if isinstance(e.tag, str)]


def _local(tag):
    return tag.rsplit("}", 1)[-1] if isinstance(tag, str) else ""


def _parent_map(root):
    return {c: p for p in root.iter() for c in p}


def _hostile_for(attr_local, rng):
    if attr_local in ("exponent", "multiplier", "order", "initial_value"):
        pool = HOSTILE_NUMBERS + (["x", "y", "time", "nosuch"] if attr_local == "initial_value" else [])
    elif attr_local == "prefix":
        pool = PREFIXES + HOSTILE_NUMBERS[:20]
    elif attr_local in ("interface", "public_interface", "private_interface"):
        pool = INTERFACES
    elif attr_local == "href":
        pool = ["", ".", "..", "nosuch.cellml", "m?a=1&b=2", "a<b", "file:///nonexistent", "http://example.invalid/x", "SELF", "a" * 3000]
    else:
        pool = HOSTILE_NAMES + HOSTILE_NUMBERS[:12]
    return rng.choice(pool)


# ------------------------------------------------------------------------------------------------ tree mutators

def m_attr_value(root, rng):
    cands = [(e, k) for e in _elements(root) for k in e.attrib]
    if not cands:
        return None
    n = rng.choice([1, 1, 1, 2, 3, 8])
    names = []
    for _ in range(n):
        e, k = rng.choice(cands)
        v = _hostile_for(_local(k), rng)
        e.set(k, v)
        names.append(_local(k))
    return "attr:" + ",".join(names)


def m_attr_copy(root, rng):
    """make two names collide / reference each other: copy one attribute value onto another attribute"""
    cands = [(e, k) for e in _elements(root) for k in e.attrib if _local(k) in
             ("name", "units", "units_ref", "component", "component_1", "component_2", "variable_1", "variable_2", "variable",
              "test_variable", "component_ref", "initial_value")]
    if len(cands) < 2:
        return None
    (e1, k1), (e2, k2) = rng.sample(cands, 2)
    e1.set(k1, e2.get(k2))
    return "attrcopy:%s<-%s" % (_local(k1), _local(k2))


def m_attr_drop_or_add(root, rng):
    els = _elements(root)
    e = rng.choice(els)
    if e.attrib and rng.random() < 0.6:
        k = rng.choice(list(e.attrib))
        del e.attrib[k]
        return "attrdrop:" + _local(k)
    k = rng.choice(["name", "units", "id", "interface", "initial_value", "exponent", "prefix", "multiplier", "order",
                    "{%s}units" % CELLML2, "{%s}href" % XLINK, "type", "base", "bogus"])
    e.set(k, _hostile_for(_local(k), rng))
    return "attradd:" + _local(k)


def m_namespace_swap(root, rng):
    src = rng.choice([CELLML2, CELLML2, MATHML, CELLML10, CELLML11])
    dst = rng.choice([CELLML10, CELLML11, CELLML2, MATHML, "http://www.cellml.org/cellml/3.0#", "", "urn:x"])
    scope = rng.choice(["all", "one", "attrs"])
    els = _elements(root)
    if scope == "one":
        els = [rng.choice(els)]
    changed = 0
    for e in els:
        if scope != "attrs" and e.tag.startswith("{%s}" % src):
            e.tag = ("{%s}" % dst if dst else "") + _local(e.tag)
            changed += 1
        for k in list(e.attrib):
            if k.startswith("{%s}" % src):
                v = e.attrib.pop(k)
                e.set(("{%s}" % dst if dst else "") + _local(k), v)
                changed += 1
    return "ns:%s->%s/%s" % (src[-8:], dst[-8:], scope) if changed else None


def m_subtree_delete(root, rng):
    pm = _parent_map(root)
    cands = [e for e in root.iter() if e in pm]
    if not cands:
        return None
    e = rng.choice(cands)
    p = pm[e]
    # keep the tail text so that mixed content stays where it was
    p.remove(e)
    return "del:" + (_local(e.tag) or "comment")


def _copy(e):
    return ET.fromstring(ET.tostring(e)) if isinstance(e.tag, str) else ET.Comment(e.text)


def m_subtree_duplicate(root, rng):
    pm = _parent_map(root)
    cands = [e for e in _elements(root) if e in pm]
    if not cands:
        return None
    e = rng.choice(cands)
    p = pm[e]
    size = max(1, len(ET.tostring(e)))
    n = rng.choice([1, 1, 2, 3, 10, 100, 1000, 5000])
    n = max(1, min(n, (MAXLEN // 2) // size, DUP_CAP))
    idx = list(p).index(e)
    for i in range(n):
        p.insert(idx + 1, _copy(e))
    return "dup:%s*%d" % (_local(e.tag), n)


def m_subtree_move(root, rng):
    pm = _parent_map(root)
    cands = [e for e in _elements(root) if e in pm]
    if len(cands) < 2:
        return None
    e = rng.choice(cands)
    target = rng.choice(_elements(root))
    if target is e or any(x is target for x in e.iter()):
        return None
    pm[e].remove(e)
    target.insert(rng.randrange(len(target) + 1), e)
    return "move:%s->%s" % (_local(e.tag), _local(target.tag))


def m_nest_deep(root, rng):
    """wrap an element into copies of an ancestor-like shell, as deep as 64 KiB allow"""
    pm = _parent_map(root)
    cands = [e for e in _elements(root) if e in pm]
    if not cands:
        return None
    e = rng.choice(cands)
    p = pm[e]
    shell_tag = rng.choice([e.tag, p.tag, "{%s}apply" % MATHML, "{%s}component" % CELLML2, "{%s}component_ref" % CELLML2,
                            "{%s}units" % CELLML2, "{%s}piecewise" % MATHML, "{%s}a" % CELLML2])
    depth = rng.choice([3, 20, 255, 257, 1000, 4000, 10000])
    per = 2 * len(_local(shell_tag)) + 5 + 20
    depth = max(1, min(depth, (MAXLEN - 2000) // per))
    idx = list(p).index(e)
    p.remove(e)
    top = cur = ET.Element(shell_tag, {"name": "n0"} if "component" in shell_tag or "units" in shell_tag else {})
    if "component_ref" in shell_tag:
        cur.set("component", "n0")
    for i in range(1, depth):
        nxt = ET.SubElement(cur, shell_tag)
        cur = nxt
    cur.append(e)
    p.insert(idx, top)
    return "nest:%s^%d" % (_local(shell_tag), depth)


def _model_root(root):
    return root if _local(root.tag) == "model" else None


def m_unit_cycle(root, rng):
    m = _model_root(root)
    if m is None:
        return None
    ns = m.tag[:-len("model")]
    kind = rng.choice(["self", "two", "three", "existing", "viaprefix"])
    names = {"self": ["cyc_a"], "two": ["cyc_a", "cyc_b"], "three": ["cyc_a", "cyc_b", "cyc_c"], "viaprefix": ["cyc_a", "cyc_b"]}
    if kind == "existing":
        us = [e for e in m if _local(e.tag) == "units" and e.get("name")]
        if not us:
            kind = "two"
        else:
            u = rng.choice(us)
            v = rng.choice(us)
            ET.SubElement(u, ns + "unit", {"units": v.get("name")})
            if v is not u:
                ET.SubElement(v, ns + "unit", {"units": u.get("name")})
            used = u.get("name")
    if kind != "existing":
        nm = names[kind]
        for i, n in enumerate(nm):
            u = ET.Element(ns + "units", {"name": n})
            attrs = {"units": nm[(i + 1) % len(nm)]}
            if kind == "viaprefix":
                attrs["prefix"] = "milli"
                attrs["exponent"] = "2"
            ET.SubElement(u, ns + "unit", attrs)
            m.insert(rng.randrange(len(m) + 1), u)
        used = nm[0]
    # make something use the cyclic units: a variable, a cn, both sides of a connection
    how = rng.choice(["variable", "cn", "connection", "none"])
    vs = [e for e in m.iter() if _local(e.tag) == "variable"]
    if how in ("variable", "connection") and vs:
        for v in rng.sample(vs, min(len(vs), rng.choice([1, 2, len(vs)]))):
            v.set("units", used)
    elif how == "cn":
        for e in m.iter():
            if _local(e.tag) == "cn":
                e.set("{%s}units" % CELLML2, used)
    return "unitcycle:%s/%s" % (kind, how)


def m_import_tweak(root, rng):
    m = _model_root(root)
    if m is None:
        return None
    ns = m.tag[:-len("model")]
    imp = ET.Element(ns + "import", {"{%s}href" % XLINK: rng.choice(["SELF", "nosuch.cellml", "", ".", "SELF"])})
    kind = rng.choice(["units", "component", "both"])
    if kind in ("units", "both"):
        ET.SubElement(imp, ns + "units", {"name": rng.choice(["imp_u", "cyc_a", "second"]), "units_ref": rng.choice(["imp_u", "u", "nosuch"])})
    if kind in ("component", "both"):
        ET.SubElement(imp, ns + "component", {"name": rng.choice(["imp_c", "c"]), "component_ref": rng.choice(["imp_c", "c", "nosuch"])})
    m.insert(rng.randrange(len(m) + 1), imp)
    return "import:" + kind


def m_text(root, rng):
    cands = [e for e in _elements(root) if _local(e.tag) in ("cn", "ci", "sep") or (e.text and e.text.strip())]
    if not cands:
        return None
    e = rng.choice(cands)
    e.text = rng.choice(HOSTILE_NUMBERS + HOSTILE_NAMES[:12])
    return "text:" + _local(e.tag)


MATH_OPS = ["eq", "neq", "lt", "and", "or", "xor", "not", "plus", "minus", "times", "divide", "power", "root", "abs", "exp", "ln",
            "log", "floor", "ceiling", "min", "max", "rem", "diff", "sin", "arccoth", "piecewise", "piece", "otherwise", "bvar",
            "degree", "logbase", "ci", "cn", "sep", "apply", "pi", "true", "notanumber", "infinity", "mi", "math", "semantics"]


def m_math_shape(root, rng):
    """aimed at the validator/analyser contract: arity, order and kind of MathML children"""
    ms = [e for e in _elements(root) if e.tag.startswith("{%s}" % MATHML)]
    if not ms:
        return None
    pm = _parent_map(root)
    e = rng.choice(ms)
    k = rng.choice(["rename", "dropkids", "dropone", "addkid", "comment", "reverse", "emptyel", "wrap"])
    if k == "rename":
        e.tag = "{%s}%s" % (MATHML, rng.choice(MATH_OPS))
    elif k == "dropkids":
        for c in list(e):
            e.remove(c)
        if rng.random() < 0.5:
            e.text = None
    elif k == "dropone" and len(e):
        e.remove(rng.choice(list(e)))
    elif k == "addkid":
        c = ET.Element("{%s}%s" % (MATHML, rng.choice(MATH_OPS)))
        if rng.random() < 0.3:
            c.text = rng.choice(["x", "1", "", " "])
        e.insert(rng.randrange(len(e) + 1), c)
    elif k == "comment":
        e.insert(0, ET.Comment("c"))
        if e.text:
            e[0].tail = e.text
            e.text = None
    elif k == "reverse" and len(e) > 1:
        kids = list(e)
        for c in kids:
            e.remove(c)
        for c in reversed(kids):
            e.append(c)
    elif k == "emptyel":
        e.insert(rng.randrange(len(e) + 1), ET.Element("{%s}%s" % (MATHML, rng.choice(["piecewise", "apply", "bvar", "degree", "ci", "cn", "min"]))))
    elif k == "wrap" and e in pm:
        p = pm[e]
        i = list(p).index(e)
        p.remove(e)
        w = ET.Element("{%s}%s" % (MATHML, rng.choice(["apply", "degree", "bvar", "logbase", "piecewise", "piece", "otherwise"])))
        w.append(e)
        p.insert(i, w)
    else:
        return None
    return "math:" + k


RUNS = [" ", "\n", "\t", " \n\t", "0", "9", "a", "Z", ".", "-", "e", "+", "_", "\u00e9"]


def m_long_run(root, rng):
    """size stress for every lexical class the code scans: a long run of one character class in a text node, an attribute
    value, an element name or an attribute name"""
    els = _elements(root)
    ch = rng.choice(RUNS)
    n = rng.choice([1024, 16384, 60000])
    room = MAXLEN - len(ET.tostring(root)) - 200
    n = max(16, min(n, room // max(1, len(ch.encode()))))
    run = (ch * (n // len(ch) + 1))[:n]
    where = rng.choice(["text", "text", "text-math", "tail", "attr", "attr", "attr-num", "elname", "attrname", "manyattrs"])
    place = rng.choice(["prefix", "suffix", "both", "whole", "middle"])

    def put(old):
        old = old or ""
        if place == "prefix":
            return run + old
        if place == "suffix":
            return old + run
        if place == "both":
            return run[: n // 2] + old + run[: n // 2]
        if place == "middle" and old:
            k = rng.randrange(len(old) + 1)
            return old[:k] + run + old[k:]
        return run
    if where in ("text", "text-math", "tail"):
        cands = [e for e in els if (where != "text-math" or e.tag.startswith("{%s}" % MATHML))]
        pref = [e for e in cands if _local(e.tag) in ("ci", "cn")]
        e = rng.choice(pref if pref and rng.random() < 0.6 else cands or els)
        if where == "tail":
            e.tail = put(e.tail)
        else:
            e.text = put(e.text)
        return "run:%s/%s*%d/%s@%s" % (where, repr(ch)[1:-1], n, place, _local(e.tag))
    if where in ("attr", "attr-num"):
        cands = [(e, k) for e in els for k in e.attrib
                 if where == "attr" or _local(k) in ("initial_value", "exponent", "multiplier", "prefix", "order")]
        if not cands:
            return None
        e, k = rng.choice(cands)
        e.set(k, put(e.get(k)))
        return "run:attr/%s*%d/%s@%s" % (repr(ch)[1:-1], n, place, _local(k))
    if not (ch.isalnum() or ch in "._-"):
        ch = "a"
        run = ch * n
    if where == "elname":
        e = rng.choice(els)
        ns = e.tag[: e.tag.index("}") + 1] if e.tag.startswith("{") else ""
        e.tag = ns + "a" + run
        return "run:element-name*%d" % n
    if where == "attrname":
        rng.choice(els).set("a" + run, "1")
        return "run:attribute-name*%d" % n
    e = rng.choice(els)
    for i in range(min(3000, room // 8)):
        e.set("a%d" % i, "1")
    return "run:many-attributes"


TREE_MUTATORS = [
    (m_attr_value, 30), (m_attr_copy, 8), (m_attr_drop_or_add, 8), (m_namespace_swap, 8), (m_subtree_delete, 10),
    (m_subtree_duplicate, 8), (m_subtree_move, 6), (m_nest_deep, 5), (m_unit_cycle, 8), (m_import_tweak, 4), (m_text, 8),
    (m_math_shape, 14), (m_long_run, 14),
]


# ------------------------------------------------------------------------------------------------ raw byte mutators

def raw_mutate(data, rng):
    b = bytearray(data[:MAXLEN])
    k = rng.choice(["flip", "insert", "delete", "truncate", "dupchunk", "token", "random", "encoding", "entity"])
    if not b:
        b = bytearray(b"<model/>")
    if k == "flip":
        for _ in range(rng.choice([1, 1, 2, 8, 64])):
            i = rng.randrange(len(b))
            b[i] ^= 1 << rng.randrange(8)
    elif k == "insert":
        i = rng.randrange(len(b) + 1)
        b[i:i] = bytes(rng.randrange(256) for _ in range(rng.choice([1, 2, 16, 300])))
    elif k == "delete":
        i = rng.randrange(len(b))
        del b[i:i + rng.choice([1, 2, 10, 100, 1000])]
    elif k == "truncate":
        del b[rng.randrange(len(b)):]
    elif k == "dupchunk":
        i = rng.randrange(len(b))
        j = min(len(b), i + rng.choice([5, 50, 500]))
        b[j:j] = bytes(b[i:j]) * rng.choice([1, 3, 50])
    elif k == "token":
        toks = [b"<", b">", b"/>", b"</", b"\"", b"'", b"&", b"&amp;", b"&#0;", b"&#x110000;", b"<!--", b"-->", b"<![CDATA[", b"]]>",
                b"<?xml", b"?>", b"<!DOCTYPE x [<!ENTITY a \"aaaa\">]>", b"xmlns=\"\"", b"\x00", b"\xff\xfe", b"\xef\xbb\xbf"]
        for _ in range(rng.choice([1, 2, 5])):
            i = rng.randrange(len(b) + 1)
            b[i:i] = rng.choice(toks)
    elif k == "random":
        b = bytearray(rng.randrange(256) for _ in range(rng.choice([0, 1, 10, 1000, MAXLEN])))
    elif k == "encoding":
        enc = rng.choice([b"UTF-16", b"ISO-8859-1", b"bogus", b"UTF-7", b"EBCDIC-CP-US"])
        b = bytearray(re.sub(rb'encoding="[^"]*"', b'encoding="' + enc + b'"', bytes(b), count=1))
    elif k == "entity":
        bomb = b'<?xml version="1.0"?><!DOCTYPE m [<!ENTITY a "aaaaaaaaaa"><!ENTITY b "&a;&a;&a;&a;&a;&a;&a;&a;"><!ENTITY c "&b;&b;&b;&b;&b;&b;&b;&b;"><!ENTITY d "&c;&c;&c;&c;&c;&c;&c;&c;">]>'
        body = re.sub(rb"<\?xml[^>]*\?>", b"", bytes(b), count=1)
        body = re.sub(rb'name="([^"]*)"', b'name="&d;"', body, count=1)
        b = bytearray(bomb + body)
    return bytes(b[:MAXLEN]), "raw:" + k


def mutate(data, rng, own_name="self.cellml"):
    """one mutation (sometimes two stacked) of a document; always returns <= 64 KiB"""
    if rng.random() < 0.18:
        return raw_mutate(data, rng)
    root = parse_xml(data)
    if root is None:
        return raw_mutate(data, rng)
    labels = []
    fns = [f for f, w in TREE_MUTATORS for _ in range(w)]
    for _ in range(rng.choice([1, 1, 1, 2, 3])):
        f = rng.choice(fns)
        try:
            lab = f(root, rng)
        except Exception as ex:   # a mutator that cannot apply is skipped
            lab = None
        if lab:
            labels.append(lab)
    out = _serialise(root)
    if out is None or not labels:
        return raw_mutate(data, rng)
    out = out.replace(b"SELF", own_name.encode())
    if len(out) > MAXLEN:
        out = out[:MAXLEN]
        labels.append("cut64k")
    return out, "+".join(labels)


# ------------------------------------------------------------------------------------------------ well-formed MathML

OPS1 = ["not", "abs", "exp", "ln", "ceiling", "floor", "minus", "plus", "root", "log",
        "sin", "cos", "tan", "sec", "csc", "cot", "sinh", "cosh", "tanh", "sech", "csch", "coth",
        "arcsin", "arccos", "arctan", "arcsec", "arccsc", "arccot", "arcsinh", "arccosh", "arctanh", "arcsech", "arccsch", "arccoth"]
OPS2 = ["eq", "neq", "lt", "leq", "gt", "geq", "divide", "power", "minus", "plus", "times", "and", "or", "xor", "min", "max", "rem"]
OPS3 = ["plus", "times", "and", "or", "xor", "min", "max"]
CONSTS = ["true", "false", "exponentiale", "pi", "infinity", "notanumber"]
VARS = ["t", "x", "y", "z"]


def _m(n, kids=(), attrs=None, text=None):
    e = ET.Element("{%s}%s" % (MATHML, n), attrs or {})
    e.text = text
    for k in kids:
        e.append(k)
    return e


def _cn(v):
    return _m("cn", attrs={"{%s}units" % CELLML2: "dimensionless"}, text=v)


def _cn_e(m, x):
    e = _m("cn", attrs={"{%s}units" % CELLML2: "dimensionless", "type": "e-notation"}, text=m)
    s = _m("sep")
    s.tail = x
    e.append(s)
    return e


def gen_wf_expr(rng, depth):
    """an expression of MathSpec.WFExpr"""
    if depth <= 0 or rng.random() < 0.25:
        r = rng.random()
        if r < 0.45:
            return _m("ci", text=rng.choice(VARS))
        if r < 0.75:
            return _cn(rng.choice(["1", "0", "2.5", "-3", ".5", "3.", "-0.25", " 7 ", "100000000000000000000"]))
        if r < 0.85:
            return _cn_e(rng.choice(["1", "-2.5", ".5"]), rng.choice(["2", "-3", "+4", "0", "30"]))
        return _m(rng.choice(CONSTS))
    sub = lambda: gen_wf_expr(rng, depth - 1)
    r = rng.random()
    if r < 0.25:
        return _m("apply", [_m(rng.choice(OPS1)), sub()])
    if r < 0.60:
        return _m("apply", [_m(rng.choice(OPS2)), sub(), sub()])
    if r < 0.72:
        return _m("apply", [_m(rng.choice(OPS3)), sub(), sub(), sub()])
    if r < 0.79:
        return _m("apply", [_m("root"), _m("degree", [sub()]), sub()])
    if r < 0.86:
        return _m("apply", [_m("log"), _m("logbase", [sub()]), sub()])
    k = rng.choice([1, 2, 3])
    if k == 1:
        return _m("piecewise", [_m("piece", [sub(), sub()])])
    if k == 2:
        return _m("piecewise", [_m("piece", [sub(), sub()]), _m("otherwise", [sub()])])
    return _m("piecewise", [_m("piece", [sub(), sub()]), _m("piece", [sub(), sub()]), _m("otherwise", [sub()])])


def gen_wf_math(rng, depth=3, neq=None):
    """a <math> element of MathSpec.WellFormedMath"""
    eqs = []
    for _ in range(neq if neq is not None else rng.choice([1, 1, 2, 3])):
        if rng.random() < 0.3:
            lhs = _m("apply", [_m("diff"), _m("bvar", [_m("ci", text=rng.choice(VARS))]), _m("ci", text=rng.choice(VARS))])
        else:
            lhs = gen_wf_expr(rng, rng.choice([0, 0, 1]))
        eqs.append(_m("apply", [_m("eq"), lhs, gen_wf_expr(rng, depth)]))
    return _m("math", eqs)


def _esc(t, attr=False):
    t = t.replace("&", "&amp;").replace("<", "&lt;").replace(">", "&gt;")
    return t.replace('"', "&quot;") if attr else t


def _ser(e, out):
    if not isinstance(e.tag, str):
        out.append("<!--%s-->" % (e.text or ""))
        return
    ns, name = ("", e.tag)
    if e.tag.startswith("{"):
        ns, name = e.tag[1:].split("}", 1)
    out.append("<" + name)
    if ns != MATHML:
        out.append(' xmlns="%s"' % _esc(ns, True))
    for k, v in e.attrib.items():
        ans, an = ("", k)
        if k.startswith("{"):
            ans, an = k[1:].split("}", 1)
        out.append(' %s%s="%s"' % ("cellml:" if ans == CELLML2 else "", an, _esc(v, True)))
    if e.text is None and len(e) == 0:
        out.append("/>")
        return
    out.append(">")
    if e.text:
        out.append(_esc(e.text))
    for c in e:
        _ser(c, out)
        if c.tail:
            out.append(_esc(c.tail))
    out.append("</%s>" % name)


def math_body(math_elem):
    """XML text of the children of a <math> element, with the prefixes the C++ math wrapper declares
    (default namespace MathML, cellml: for CellML 2.0 attributes)"""
    out = []
    if math_elem.text:
        out.append(_esc(math_elem.text))
    for c in math_elem:
        _ser(c, out)
        if c.tail:
            out.append(_esc(c.tail))
    return "".join(out)


# ------------------------------------------------------------------------------------------------ model glue

def _hx(s):
    return s.encode("utf-8", "surrogatepass").hex() if s else "-"


def math_tokens(e):
    """prefix form of an element tree for ocaml/math/driver.ml:  E ns name nattrs (ns name value)* nkids kid* | T text | C text"""
    out = []

    def node(x):
        if not isinstance(x.tag, str):
            out.append("C " + _hx(x.text or ""))
            return
        ns, name = ("", x.tag)
        if x.tag.startswith("{"):
            ns, name = x.tag[1:].split("}", 1)
        attrs = []
        for k, v in x.attrib.items():
            ans, an = ("", k)
            if k.startswith("{"):
                ans, an = k[1:].split("}", 1)
            attrs.append("%s %s %s" % (_hx(ans), _hx(an), _hx(v)))
        kids = []
        if x.text:
            kids.append(("T", x.text))
        for c in x:
            kids.append(("N", c))
            if c.tail:
                kids.append(("T", c.tail))
        out.append("E %s %s %d %s %d" % (_hx(ns), _hx(name), len(attrs), " ".join(attrs), len(kids)))
        for kind, c in kids:
            if kind == "T":
                out.append("T " + _hx(c))
            else:
                node(c)

    node(e)
    return " ".join(out)
