"""Deterministic sweeps over VALID base models (C01): every document is a complete model that reaches the validator
(mapped variables), the analyser (equations, scaling between mapped variables) and the generators, with ONE position changed.

    read_tables(repo)            names of every table the code consults (parsed from /repo/src on every run)
    vocabulary_sweep(tables)     every name of every table in every position where a name of that kind is consumed
    nearmiss_sweep()             near-miss numbers (from the boundaries of C16's automata) in every numeric position
    stress_sweep()               long runs (1 KiB, 16 KiB, ~60 KiB) of one character class in text nodes, attribute values,
                                 element names and attribute names, many attributes
each returns a list of (label, bytes); every document is <= 64 KiB.  No verdicts here: inputs only."""
import os
import re

MAXLEN = 64 * 1024
C20 = "http://www.cellml.org/cellml/2.0#"
C11 = "http://www.cellml.org/cellml/1.1#"
C10 = "http://www.cellml.org/cellml/1.0#"
MML = "http://www.w3.org/1998/Math/MathML"


# ------------------------------------------------------------------------------------------------ tables

def _keys(src, decl):
    m = re.search(re.escape(decl) + r"\s*=\s*\{(.*?)\};", src, flags=re.S)
    if not m:
        raise RuntimeError("table %s not found" % decl)
    return m.group(1)


def read_tables(repo):
    uh = open(os.path.join(repo, "src", "utilities.h")).read()
    uc = open(os.path.join(repo, "src", "utilities.cpp")).read()
    pc = open(os.path.join(repo, "src", "parser.cpp")).read()
    t = {}
    t["standard_units"] = re.findall(r'\{\s*"([a-z_]+)"\s*,\s*\{\{', _keys(uh, "standardUnitsList"))
    t["standard_multipliers"] = re.findall(r'\{\s*"([a-z_]+)"\s*,', _keys(uh, "standardMultiplierList"))
    t["base_units"] = re.findall(r'"([a-z_]+)"', _keys(uh, "baseUnitsList"))
    t["mathml"] = re.findall(r'"([a-z]+)"', _keys(uh, "supportedMathMLElements"))
    t["interfaces"] = re.findall(r'"([a-z_]+)"', _keys(uh, "interfaceTypeToString"))
    t["prefixes"] = re.findall(r'\{\s*"([a-z]+)"\s*,', _keys(uc, "standardPrefixList"))
    t["units_1x"] = sorted(set(re.findall(r'unitsName == "([a-z]+)"', pc)))          # liter, meter
    for k, v in t.items():
        if len(v) < 2:
            raise RuntimeError("table %s has an unexpected shape" % k)
    t["all_units"] = sorted(set(t["standard_units"]) | set(t["standard_multipliers"]) | set(t["base_units"]) | set(t["units_1x"])
                            | {"celsius", "liter", "meter"})
    return t


# ------------------------------------------------------------------------------------------------ base models

def esc_attr(v):
    out = []
    for ch in v:
        if ch == "&":
            out.append("&amp;")
        elif ch == "<":
            out.append("&lt;")
        elif ch == ">":
            out.append("&gt;")
        elif ch == '"':
            out.append("&quot;")
        elif ch in "\t\n\r":
            out.append("&#%d;" % ord(ch))     # a literal one would be normalised to a space
        else:
            out.append(ch)
    return "".join(out)


def esc_text(v):
    return v.replace("&", "&amp;").replace("<", "&lt;").replace(">", "&gt;")


DEFAULTS = dict(U="metre", P="milli", E="1", M="1", IV="1", IK="0.5", IEXP="2", I="public", CN="2", CNM="1.5", CNE="3", O="1",
                NAMEX="x", NAMEC="c1", NAMEU="derived", ID="id1", CIX="x", TXT="", TXTMATH="", OP=None, RESET=False,
                EXTRA_ATTR="", ELEM="", CNU=None)


def base20(**kw):
    """a valid CellML 2.0 model: x is a state (dx/dt = k), d = x + cn is mapped (with a prefix: scaling) to c2.d, y uses d in a
    power whose exponent is the initial value of n"""
    p = dict(DEFAULTS)
    p.update(kw)
    a = {k: esc_attr(v) if isinstance(v, str) else v for k, v in p.items()}
    cnu = a["CNU"] if p["CNU"] is not None else a["U"]
    op = p["OP"] or '<apply><power/><ci>d</ci><ci>n</ci></apply>'
    reset = ""
    if p["RESET"]:
        reset = ('<reset variable="%s" test_variable="t" order="%s"><test_value><math xmlns="%s" xmlns:cellml="%s">'
                 '<cn cellml:units="second">1</cn></math></test_value><reset_value><math xmlns="%s" xmlns:cellml="%s">'
                 '<cn cellml:units="%s">0</cn></math></reset_value></reset>') % (a["NAMEX"], a["O"], MML, C20, MML, C20, cnu)
    s = ('<?xml version="1.0" encoding="UTF-8"?>\n<model xmlns="%s" name="sweep" id="%s">%s'
         '<units name="%s"><unit units="%s" prefix="%s" exponent="%s" multiplier="%s"/></units>'
         '<units name="per_time"><unit units="%s"/><unit units="second" exponent="-1"/></units>'
         '<component name="%s">'
         '<variable name="t" units="second" interface="public"/>'
         '<variable name="%s" units="%s" initial_value="%s" interface="%s"%s/>'
         '<variable name="k" units="per_time" initial_value="%s"/>'
         '<variable name="d" units="%s" interface="public"/>%s'
         '<math xmlns="%s" xmlns:cellml="%s">%s'
         '<apply><eq/><apply><diff/><bvar><ci>t</ci></bvar><ci>%s</ci></apply><ci>k</ci></apply>'
         '<apply><eq/><ci>d</ci><apply><plus/><ci>%s</ci><cn cellml:units="%s">%s</cn></apply></apply>'
         '</math>%s</component>'
         '<component name="c2">'
         '<variable name="t" units="second" interface="public"/>'
         '<variable name="d" units="%s" interface="public"/>'
         '<variable name="n" units="dimensionless" initial_value="%s"/>'
         '<variable name="y" units="dimensionless"/><variable name="z" units="dimensionless"/>'
         '<math xmlns="%s" xmlns:cellml="%s">'
         '<apply><eq/><ci>y</ci>%s</apply>'
         '<apply><eq/><ci>z</ci><cn cellml:units="dimensionless" type="e-notation">%s<sep/>%s</cn></apply>'
         '</math></component>'
         '<connection component_1="%s" component_2="c2"><map_variables variable_1="d" variable_2="d"/>'
         '<map_variables variable_1="t" variable_2="t"/></connection></model>\n') % (
        C20, a["ID"], esc_text(p["TXT"]),
        a["NAMEU"], a["U"], a["P"], a["E"], a["M"],
        a["U"],
        a["NAMEC"],
        a["NAMEX"], a["U"], a["IV"], a["I"], p["EXTRA_ATTR"],
        a["IK"],
        a["NAMEU"], p["ELEM"],
        MML, C20, esc_text(p["TXTMATH"]),
        esc_text(p["CIX"]),
        esc_text(p["CIX"]), cnu, esc_text(p["CN"]),
        reset,
        a["U"],
        a["IEXP"],
        MML, C20,
        op,
        esc_text(p["CNM"]), esc_text(p["CNE"]),
        a["NAMEC"])
    return s.encode("utf-8", "surrogatepass")


def base1x(ns, U="metre", P="milli", I_out="out", I_in="in"):
    """the same idea in CellML 1.0 / 1.1 syntax (permissive parser transforms it)"""
    s = ('<?xml version="1.0" encoding="UTF-8"?>\n<model xmlns="%s" xmlns:cellml="%s" name="sweep1x">'
         '<units name="derived"><unit units="%s" prefix="%s"/></units>'
         '<component name="c1"><variable name="a" units="%s" initial_value="1" public_interface="%s"/>'
         '<variable name="d" units="derived" public_interface="%s"/>'
         '<math xmlns="%s"><apply><eq/><ci>d</ci><apply><plus/><ci>a</ci><cn cellml:units="%s">2</cn></apply></apply></math></component>'
         '<component name="c2"><variable name="d" units="%s" public_interface="%s"/><variable name="y" units="%s"/>'
         '<math xmlns="%s"><apply><eq/><ci>y</ci><ci>d</ci></apply></math></component>'
         '<connection><map_components component_1="c1" component_2="c2"/><map_variables variable_1="d" variable_2="d"/></connection>'
         '</model>\n') % (ns, ns, esc_attr(U), esc_attr(P), esc_attr(U), esc_attr(I_out), esc_attr(I_out), MML, esc_attr(U),
                          esc_attr(U), esc_attr(I_in), esc_attr(U), MML)
    return s.encode()


# ------------------------------------------------------------------------------------------------ sweeps

def vocabulary_sweep(t):
    out = []
    for u in t["all_units"] + ["nosuch_units"]:
        out.append(("vocab:units=" + u, base20(U=u)))
        out.append(("vocab:units-defined=" + u, base20(NAMEU=u)))
        for ns, tag in ((C10, "1.0"), (C11, "1.1")):
            out.append(("vocab:units%s=%s" % (tag, u), base1x(ns, U=u)))
    for p in t["prefixes"] + ["", "0", "3", "-3", "24", "-24", "25", "bogus"]:
        out.append(("vocab:prefix=" + p, base20(P=p)))
        out.append(("vocab:prefix1.1=" + p, base1x(C11, P=p)))
    for i in t["interfaces"] + ["in", "out", "both", ""]:
        out.append(("vocab:interface=" + i, base20(I=i)))
        out.append(("vocab:interface1.0=" + i, base1x(C10, I_out=i)))
        out.append(("vocab:interface1.0in=" + i, base1x(C10, I_in=i)))
    cn = '<cn cellml:units="dimensionless">2</cn>'
    ci = "<ci>n</ci>"
    for e in t["mathml"]:
        # every arity at once: three equations' worth of forms in one operand list would change the arity, so one document
        # per form, but only the forms that differ per element class (the arity sweep of the math contract covers the rest)
        forms = ["<apply><%s/>%s</apply>" % (e, ci), "<apply><%s/>%s%s</apply>" % (e, ci, cn), "<%s/>" % e]
        if e == "root":
            forms.append("<apply><root/><degree>%s</degree>%s</apply>" % (cn, ci))
        if e == "log":
            forms.append("<apply><log/><logbase>%s</logbase>%s</apply>" % (cn, ci))
        if e in ("piecewise", "piece", "otherwise"):
            forms.append("<piecewise><piece>%s<apply><lt/>%s%s</apply></piece><otherwise>%s</otherwise></piecewise>" % (ci, ci, cn, cn))
        if e == "diff":
            forms = []      # diff is in every base model
        for k, f in enumerate(forms):
            out.append(("vocab:mathml=%s/%d" % (e, k), base20(U="dimensionless", OP=f)))
    return out


NEAR_MISS = [" 1.0", "1.0 ", " 1 ", "\t1", "1\n", "+1", "+1.5", "1.", ".5", ".", "-", "-.", "+", "1e", "1e+", "1e-", "e5", "1e5", "1E5",
             "1e+5", "1.5e-3", "1e400", "-1e400", "1e-400", "1e309", "0x10", "1f", "1,5", "1 2", "--1", "1..2", "01", "-0", "0", "١",
             "１", "NaN", "nan", "inf", "-inf", "x", "t", "k", "nosuch", "", "1_0", "2147483647", "2147483648", "-2147483649",
             "9" * 30, "0." + "0" * 30 + "1"]
NUMERIC_POSITIONS = ["IV", "IK", "IEXP", "E", "M", "P", "CN", "CNM", "CNE", "O"]


def nearmiss_sweep():
    out = []
    for pos in NUMERIC_POSITIONS:
        for v in NEAR_MISS:
            kw = {pos: v}
            if pos == "O":
                kw["RESET"] = True
            out.append(("nearmiss:%s=%r" % (pos, v), base20(**kw)))
    return out


RUN_CLASSES = [("space", " "), ("newline", "\n"), ("tab", "\t"), ("mixedws", " \n\t "), ("zero", "0"), ("nine", "9"), ("letter", "a"),
               ("dot", "."), ("minus", "-"), ("e", "e"), ("utf8", "é")]
WS = {"space", "newline", "tab", "mixedws"}
# (label, keyword of base20, valid token kept beside a whitespace run, is-name)
RUN_POSITIONS = [
    ("text-ci", "CIX", "x", False), ("text-cn", "CN", "2", False), ("text-cn-mantissa", "CNM", "1.5", False),
    ("text-cn-exponent", "CNE", "3", False), ("text-in-math", "TXTMATH", "", False), ("text-in-model", "TXT", "", False),
    ("attr-initial_value", "IV", "1", False), ("attr-exponent", "E", "1", False), ("attr-multiplier", "M", "1", False),
    ("attr-prefix", "P", "milli", False), ("attr-units-ref", "U", "metre", False), ("attr-variable-name", "NAMEX", "x", True),
    ("attr-component-name", "NAMEC", "c1", True), ("attr-units-name", "NAMEU", "derived", True), ("attr-id", "ID", "id1", False),
    ("attr-interface", "I", "public", False), ("attr-order", "O", "1", False),
]


def _run(ch, n):
    r = (ch * (n // len(ch) + 1))[:n]
    return r


def stress_sweep():
    out = []
    overhead = len(base20()) + 300
    big = MAXLEN - overhead
    for cname, ch in RUN_CLASSES:
        lens = [1024, 16384, big] if cname in WS else [big]
        for n in lens:
            n = min(n, big // len(ch.encode()) if len(ch.encode()) > 1 else big)
            run = _run(ch, n)
            for plabel, key, token, isname in RUN_POSITIONS:
                if cname not in WS:
                    vals = [("", run)]
                elif n < big:
                    vals = [("both", run[: n // 2] + token + run[: n // 2])]
                else:       # the longest run on ONE side of a valid token: leading, then trailing
                    vals = [("lead", run + token), ("trail", token + run)]
                for side, val in vals:
                    kw = {key: val}
                    if key == "O":
                        kw["RESET"] = True
                    if key == "U":
                        kw["CNU"] = "metre"
                    doc = base20(**kw)
                    if len(doc) <= MAXLEN:
                        out.append(("stress:%s/%s%s*%d" % (plabel, cname, "-" + side if side else "", n), doc))
            # element name and attribute name (only name characters are well-formed there)
            if cname in ("letter", "nine", "dot", "minus", "e", "zero", "utf8") and n == big:
                nm = "a" + run[: big - 10]
                out.append(("stress:element-name/%s*%d" % (cname, len(nm)), base20(ELEM="<%s/>" % nm)))
                out.append(("stress:attribute-name/%s*%d" % (cname, len(nm)), base20(EXTRA_ATTR=' %s="1"' % nm)))
    # many attributes / many children / same element repeated
    many = "".join(' a%d="1"' % i for i in range(4000))
    out.append(("stress:many-attributes*4000", base20(EXTRA_ATTR=many)))
    out.append(("stress:many-variables*2500", base20(ELEM="".join('<variable name="v%d" units="second"/>' % i for i in range(1200)))))
    out.append(("stress:same-element*6000", base20(ELEM="<b/>" * 6000)))
    out.append(("stress:deep-apply*250", base20(U="dimensionless", OP="<apply><abs/>" * 250 + "<ci>n</ci>" + "</apply>" * 250)))
    out.append(("stress:wide-plus*800", base20(U="dimensionless", OP="<apply><plus/>" + "<ci>n</ci>" * 800 + "</apply>")))
    out.append(("stress:deep-plus-left*240", base20(U="dimensionless", OP="<apply><plus/>" * 240 + "<ci>n</ci>" + "<ci>n</ci></apply>" * 240)))
    return [(l, d) for l, d in out if len(d) <= MAXLEN]


RAW = "@@RAW@@"
XML_FEATURES = [
    ("cdata", "<![CDATA[x]]>"), ("cdata-empty", "<![CDATA[]]>"), ("cdata-markup", "<![CDATA[<ci>x</ci>]]>"),
    ("entity-ref", "&foo;"), ("entity-ref-markup", "&bar;"), ("char-ref", "&#120;"), ("char-ref-nul", "&#1;"),
    ("pi", "<?target some data?>"), ("comment", "<!-- c -->"), ("comment-dashes", "<!-- a - b -->"),
    ("foreign-element", '<f:e xmlns:f="urn:f" f:a="1">t</f:e>'), ("xml-attrs", '<b xml:space="preserve" xml:lang="en" xml:base="x/"> </b>'),
    ("nested-model", '<model xmlns="%s" name="inner"/>' % C20), ("nested-math", '<math xmlns="%s"/>' % MML),
]
DOCTYPE = '<!DOCTYPE model [<!ENTITY foo "x"><!ENTITY bar "<ci>x</ci>"><!ATTLIST variable extra CDATA "dflt">]>\n'


def xmlfeature_sweep():
    """XML constructs other than elements / text / attributes, in every kind of position of a valid model"""
    out = []
    for flabel, raw in XML_FEATURES:
        for plabel, key in (("in-model", "TXT"), ("in-math", "TXTMATH"), ("in-ci", "CIX"), ("in-cn", "CN"), ("in-component", "ELEM")):
            if key == "ELEM":
                doc = base20(ELEM=RAW)
            elif key == "CIX":
                doc = base20(CIX="x" + RAW)      # also the diff operand and the plus operand
            else:
                doc = base20(**{key: ("2" if key == "CN" else "") + RAW})
            doc = doc.replace(RAW.encode(), raw.encode())
            doc = doc.replace(b'<?xml version="1.0" encoding="UTF-8"?>\n', b'<?xml version="1.0" encoding="UTF-8"?>\n' + DOCTYPE.encode(), 1)
            out.append(("xml:%s/%s" % (flabel, plabel), doc))
    b = base20()
    out.append(("xml:bom", b"\xef\xbb\xbf" + b))
    out.append(("xml:utf16", b.decode().replace('encoding="UTF-8"', 'encoding="UTF-16"').encode("utf-16")))
    out.append(("xml:latin1-decl", b.replace(b'encoding="UTF-8"', b'encoding="ISO-8859-1"').replace(b'name="sweep"', b'name="sw\xe9\xe9p"')))
    out.append(("xml:no-decl", b.split(b"\n", 1)[1]))
    out.append(("xml:standalone", b.replace(b'encoding="UTF-8"?>', b'encoding="UTF-8" standalone="yes"?>')))
    out.append(("xml:prefixed", b.replace(b'<model xmlns="%s"' % C20.encode(), b'<c:model xmlns:c="%s"' % C20.encode()).replace(b"</model>", b"</c:model>")))
    out.append(("xml:external-entity", b.replace(b'<?xml version="1.0" encoding="UTF-8"?>\n', b'<?xml version="1.0"?>\n<!DOCTYPE model [<!ENTITY ext SYSTEM "file:///etc/hostname">]>\n').replace(b'name="sweep"', b'name="a&ext;"')))
    out.append(("xml:entity-in-attribute", (b'<?xml version="1.0"?>\n' + DOCTYPE.encode() + b.split(b"\n", 1)[1]).replace(b'name="sweep"', b'name="a&foo;"')))
    return out
