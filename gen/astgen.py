"""Random / systematic AnalyserEquationAst trees for C03 (expression layer).

An AST is None or a tuple (TYPE, value_or_None, left, right).  `line(ast)` is the case-file form read by
harness/c03_driver.cpp and ocaml/gen/driver.ml:   node ::= "_" | TYPE VAL node node,  VAL ::= "-" | "="text.

Shapes are the ones Analyser::analyseNode builds (binary operators with two children, n-ary ones folded to the
right, unary plus/minus with a null right child, qualifiers DEGREE/LOGBASE as left child of ROOT/LOG,
PIECEWISE = (PIECE(value, condition), null | PIECE | OTHERWISE | PIECEWISE)), with every operator allowed in
every operand position.
"""

INFIX = ["EQ", "NEQ", "LT", "LEQ", "GT", "GEQ", "AND", "OR", "XOR", "PLUS", "MINUS", "TIMES", "DIVIDE", "POWER"]
FUN1 = ["ABS", "EXP", "LN", "CEILING", "FLOOR", "SIN", "COS", "TAN", "SEC", "CSC", "COT", "SINH", "COSH", "TANH",
        "SECH", "CSCH", "COTH", "ASIN", "ACOS", "ATAN", "ASEC", "ACSC", "ACOT", "ASINH", "ACOSH", "ATANH", "ASECH",
        "ACSCH", "ACOTH"]
FUN2 = ["MIN", "MAX", "REM"]
CONST = ["TRUE", "FALSE", "E", "PI", "INF", "NAN"]
NAMES = ["a", "b", "c", "x", "y", "z0", "v_1", "Vm"]
NUMS = ["1", "2", "3", "0.5", "2.0", "10", "3.5", "-3", "-0.5", "-2.0", "0", "-0", "1e5", "1.5e-3", "-2e2", "100",
        "0.25", "7", "1.0e+2", "12.75", "5e-1", "10.0", "-10", "2e0"]
RARE_NUMS = ["1E5", "2.5E-3", "-1E2"]            # upper-case exponent: accepted by the CellML grammar
# every construct that takes part in parenthesisation decisions, used by the systematic enumeration
SHAPES = INFIX + ["UPLUS", "UMINUS", "NOT", "PIECEWISE", "PIECEWISE2", "LOGB", "ROOTD", "NEGCN", "SIN", "MIN", "CI", "CN"]


def leaf(rng):
    k = rng.random()
    if k < 0.5:
        return ("CI", rng.choice(NAMES), None, None)
    if k < 0.9:
        if rng.random() < 0.03:
            return ("CN", rng.choice(RARE_NUMS), None, None)
        return ("CN", rng.choice(NUMS), None, None)
    return (rng.choice(CONST), None, None, None)


def piecewise(rng, depth, sub):
    """PIECEWISE chain with 1..3 pieces and an optional otherwise"""
    n = rng.choice([1, 1, 2, 3])
    pieces = [("PIECE", None, sub(depth - 1), sub(depth - 1)) for _ in range(n)]
    other = ("OTHERWISE", None, sub(depth - 1), None) if rng.random() < 0.6 else None
    if other is not None:
        tail = other
        rest = pieces
    else:
        tail = pieces[-1] if n > 1 else None
        rest = pieces[:-1] if n > 1 else pieces
    node = None
    for pc in reversed(rest):
        node = ("PIECEWISE", None, pc, tail if node is None else node)
        tail = node
    return node


def build(shape, sub, depth, rng):
    """one construct of the given shape whose operands come from sub(depth-1)"""
    s = lambda: sub(depth - 1)
    if shape in INFIX:
        return (shape, None, s(), s())
    if shape == "UPLUS":
        return ("PLUS", None, s(), None)
    if shape == "UMINUS":
        return ("MINUS", None, s(), None)
    if shape == "NOT":
        return ("NOT", None, s(), None)
    if shape == "PIECEWISE":
        return piecewise(rng, depth, sub)
    if shape == "PIECEWISE2":
        return ("PIECEWISE", None, ("PIECE", None, s(), s()), ("OTHERWISE", None, s(), None))
    if shape == "LOGB":
        return ("LOG", None, ("LOGBASE", None, s(), None), s())
    if shape == "ROOTD":
        return ("ROOT", None, ("DEGREE", None, s(), None), s())
    if shape == "NEGCN":
        return ("CN", rng.choice(["-3", "-0.5", "-2e2"]), None, None)
    if shape in FUN1:
        return (shape, None, s(), None)
    if shape in FUN2:
        return (shape, None, s(), s())
    if shape == "LOG":
        return ("LOG", None, s(), None)
    if shape == "ROOT":
        return ("ROOT", None, s(), None)
    if shape == "CI":
        return ("CI", rng.choice(NAMES), None, None)
    if shape == "CN":
        return ("CN", rng.choice(NUMS), None, None)
    raise ValueError(shape)


def rand_ast(rng, depth, root=True):
    """random AST of depth <= depth; the root is never a bare CI (the generator dereferences its parent)"""
    def sub(d):
        return rand_ast(rng, d, False)
    if depth <= 0:
        a = leaf(rng)
    else:
        k = rng.random()
        if k < 0.12 and not root:
            a = leaf(rng)
        elif k < 0.60:
            a = build(rng.choice(INFIX), sub, depth, rng)
        elif k < 0.75:
            a = build(rng.choice(["UPLUS", "UMINUS", "UMINUS", "NOT", "NOT"]), sub, depth, rng)
        elif k < 0.85:
            a = build(rng.choice(["PIECEWISE", "PIECEWISE2"]), sub, depth, rng)
        elif k < 0.91:
            a = build(rng.choice(["LOGB", "ROOTD", "LOG", "ROOT"]), sub, depth, rng)
        else:
            a = build(rng.choice(FUN1 + FUN2 * 3), sub, depth, rng)
    if root and a[0] == "CI":
        a = ("PLUS", None, a, None)
    return a


def systematic(rng, levels):
    """every chain parent -> child (-> grandchild when levels == 3) over SHAPES, the nested construct placed in
    each operand position in turn, the other operands being leaves"""
    out = []

    def chain(shapes, positions):
        # build inner-most first
        def mk(i):
            if i == len(shapes):
                return leaf(rng)
            cnt = [0]

            def sub(_d):
                cnt[0] += 1
                if cnt[0] - 1 == positions[i]:
                    return mk(i + 1)
                return leaf(rng)
            return build(shapes[i], sub, 1, rng)
        return mk(0)

    inner = [s for s in SHAPES if s not in ("CI", "CN")]
    if levels >= 2:
        for p in inner:
            for c in SHAPES:
                for pos in range(2):
                    out.append(chain([p, c], [pos, 0]))
    if levels >= 3:
        core = ["LT", "EQ", "AND", "OR", "PLUS", "MINUS", "TIMES", "DIVIDE", "UPLUS", "UMINUS", "NOT", "PIECEWISE2", "LOGB",
                "NEGCN", "POWER"]
        for p in core:
            for c in core:
                for g in core:
                    for pos in range(2):
                        for pos2 in range(2):
                            out.append(chain([p, c, g], [pos, pos2, 0]))
    res = []
    for a in out:
        if a[0] == "CI":
            a = ("PLUS", None, a, None)
        res.append(a)
    return res


def line(a):
    if a is None:
        return "_"
    t, v, l, r = a
    return "%s %s %s %s" % (t, "-" if v is None else "=" + v, line(l), line(r))


def parse_line(s):
    toks = s.split(" ")
    pos = [0]

    def node():
        t = toks[pos[0]]
        pos[0] += 1
        if t == "_":
            return None
        v = toks[pos[0]]
        pos[0] += 1
        l = node()
        r = node()
        return (t, None if v == "-" else v[1:], l, r)
    a = node()
    assert pos[0] == len(toks)
    return a


def ast_depth(a):
    return 0 if a is None else 1 + max(ast_depth(a[2]), ast_depth(a[3]))


def ast_size(a):
    return 0 if a is None else 1 + ast_size(a[2]) + ast_size(a[3])


def types_in(a, acc=None):
    acc = {} if acc is None else acc
    if a is not None:
        acc[a[0]] = acc.get(a[0], 0) + 1
        types_in(a[2], acc)
        types_in(a[3], acc)
    return acc


OPERATOR_TYPES = set(INFIX) | {"NOT", "PIECEWISE", "LOG", "ROOT"}


def nested_operator_pairs(a):
    """number of (parent, child) pairs where both are operator constructs: a parenthesisation decision"""
    if a is None:
        return 0
    n = 0
    for ch in (a[2], a[3]):
        if ch is not None:
            if a[0] in OPERATOR_TYPES and (ch[0] in OPERATOR_TYPES or (ch[0] == "CN" and ch[1].startswith("-"))):
                n += 1
            n += nested_operator_pairs(ch)
    return n


# ---------------------------------------------------------------------------- shrinking
def shrink_candidates(a):
    """smaller ASTs obtained by replacing a node by one of its children or by a leaf"""
    if a is None:
        return
    t, v, l, r = a
    for ch in (l, r):
        if ch is not None and ch[0] not in ("PIECE", "OTHERWISE", "DEGREE", "LOGBASE", "BVAR"):
            yield ch
    if t not in ("CI", "CN") and l is not None:
        pass
    for i, ch in ((2, l), (3, r)):
        if ch is None:
            continue
        if ch[0] not in ("CI", "CN", "PIECE", "OTHERWISE", "DEGREE", "LOGBASE") and ast_size(ch) > 1:
            lst = list(a)
            lst[i] = ("CI", "q", None, None)
            yield tuple(lst)
        for sub in shrink_candidates(ch):
            lst = list(a)
            lst[i] = sub
            yield tuple(lst)


def shrink(a, still_fails, budget=200):
    """greedy structural shrinking; still_fails(ast) -> bool"""
    cur = a
    improved = True
    while improved and budget > 0:
        improved = False
        for cand in shrink_candidates(cur):
            budget -= 1
            if budget <= 0:
                break
            if cand[0] == "CI":
                cand = ("PLUS", None, cand, None)
            if ast_size(cand) < ast_size(cur) and still_fails(cand):
                cur = cand
                improved = True
                break
    return cur
