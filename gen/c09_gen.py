"""c09_gen.py -- op sequences ("API scripts", harness/common/script.hpp syntax) for C09.

Universe (slot = position): 2 models, 4 components, 4 variables, 2 units, 2 resets; names are identical on purpose so
that structurally equal siblings ("look-alikes") are the common case.
"""
import itertools

from script_gen import S

UNIVERSE = ["m:m", "m:m", "c:a", "c:a", "c:a", "c:b", "v:x", "v:x", "v:x", "v:y", "u:u", "u:u", "r", "r"]
MODELS = [0, 1]
COMPS = [2, 3, 4, 5]
VARS = [6, 7, 8, 9]
UNITS = [10, 11]
RESETS = [12, 13]
NAMES_C = ["a", "b", "zz"]
NAMES_V = ["x", "y", "zz"]
NAMES_U = ["u", "zz"]

# start states: (name, setup ops).  Every case starts from the freshly created universe + one of these prefixes.
START = [
    ("empty", []),
    # look-alike siblings everywhere: m0{ c2{c4; v6 v7; r12 r13}  c3{v8}  ; u10 }  m1{ u11 }   6~8, units of 6,7 = u10
    ("tree", ["addcomponent 0 2", "addcomponent 0 3", "addcomponent 2 4", "addvariable 2 6", "addvariable 2 7",
              "addvariable 3 8", "addunits 0 10", "addunits 1 11", "addreset 2 12", "addreset 2 13",
              "addequivalence 6 8", "setunits_p 6 10", "setunits_p 7 10", "setvariable 12 6"]),
    # owners destroyed: model 1 and component 3 are gone, variable 8 (still held) has lost its owner, 6~8 remains;
    # component 4 is held only by its parent (released handle)
    ("orphans", ["addcomponent 0 2", "addvariable 2 6", "addvariable 2 7", "addcomponent 1 3", "addvariable 3 8",
                 "addcomponent 2 4", "addunits 1 11", "setunits_p 8 11", "addequivalence 6 8", "addequivalence 7 8",
                 "release 3", "release 1", "release 4"]),
    # every residue a history can leave behind, at once:
    #   6 holds an EXPIRED equivalence entry (its partner 9 was destroyed, no equivalence edit since) besides the live 6~7;
    #   component 3 and units 11 outlived their model 1 (3 still holds variable 7, reset 13 and component 4 was moved out);
    #   variable 7's units 11 have lost their model; reset 12 refers to variable 8 whose component 5 was destroyed;
    #   model 0 had its units list emptied by removeAllUnits; component 4 was moved from 3 to 2
    ("residues", ["addcomponent 0 2", "addcomponent 1 3", "addvariable 2 6", "addvariable 3 7", "addequivalence 6 7",
                  "addequivalence 6 9", "release 9", "addunits 1 11", "setunits_p 7 11", "addreset 3 13", "setvariable 13 7",
                  "addcomponent 3 4", "addcomponent 2 4", "addvariable 5 8", "addreset 2 12", "setvariable 12 8", "release 5",
                  "addunits 0 10", "removeallunits 0", "release 1"]),
]


def nul(x):
    return "null" if x is None else str(x)


def b(x):
    return "true" if x else "false"


def ops_components(E, C, idx, names, deep):
    out = []
    for e in E:
        for c in C:
            out.append("addcomponent %d %s" % (e, nul(c)))
        for i in idx:
            out.append("removecomponent_i %d %d" % (e, i))
            out.append("takecomponent_i %d %d" % (e, i))
            for c in C:
                out.append("replacecomponent_i %d %d %s" % (e, i, nul(c)))
        for n in names:
            for d in deep:
                out.append("removecomponent_n %d %s %s" % (e, S(n), b(d)))
                out.append("takecomponent_n %d %s %s" % (e, S(n), b(d)))
                for c in C:
                    out.append("replacecomponent_n %d %s %s %s" % (e, S(n), nul(c), b(d)))
        for c in C:
            for d in deep:
                out.append("removecomponent_p %d %s %s" % (e, nul(c), b(d)))
                for c2 in C:
                    out.append("replacecomponent_p %d %s %s %s" % (e, nul(c), nul(c2), b(d)))
        out.append("removeallcomponents %d" % e)
    return out


def ops_variables(Cs, V, idx, names):
    out = []
    for c in Cs:
        for v in V:
            out.append("addvariable %d %s" % (c, nul(v)))
            out.append("removevariable_p %d %s" % (c, nul(v)))
        for i in idx:
            out.append("removevariable_i %d %d" % (c, i))
            out.append("takevariable_i %d %d" % (c, i))
        for n in names:
            out.append("removevariable_n %d %s" % (c, S(n)))
            out.append("takevariable_n %d %s" % (c, S(n)))
        out.append("removeallvariables %d" % c)
    return out


def ops_resets(Cs, R, idx):
    out = []
    for c in Cs:
        for r in R:
            out.append("addreset %d %s" % (c, nul(r)))
            out.append("removereset_p %d %s" % (c, nul(r)))
        for i in idx:
            out.append("removereset_i %d %d" % (c, i))
            out.append("takereset %d %d" % (c, i))
        out.append("removeallresets %d" % c)
    return out


def ops_units(Ms, U, idx, names):
    out = []
    for m in Ms:
        for u in U:
            out.append("addunits %d %s" % (m, nul(u)))
            out.append("removeunits_p %d %s" % (m, nul(u)))
            for u2 in U:
                out.append("replaceunits_p %d %s %s" % (m, nul(u), nul(u2)))
        for i in idx:
            out.append("removeunits_i %d %d" % (m, i))
            out.append("takeunits_i %d %d" % (m, i))
            for u in U:
                out.append("replaceunits_i %d %d %s" % (m, i, nul(u)))
        for n in names:
            out.append("removeunits_n %d %s" % (m, S(n)))
            out.append("takeunits_n %d %s" % (m, S(n)))
            for u in U:
                out.append("replaceunits_n %d %s %s" % (m, S(n), nul(u)))
        out.append("removeallunits %d" % m)
    return out


def ops_equiv(V):
    out = []
    for a in V:
        for c in V:
            out.append("addequivalence %s %s" % (nul(a), nul(c)))
            out.append("addequivalence_ids %s %s %s %s" % (nul(a), nul(c), S("m"), S("c")))
            out.append("removeequivalence %s %s" % (nul(a), nul(c)))
        if a is not None:
            out.append("removeallequivalences %d" % a)
    return out


def ops_links(V, U, R):
    out = []
    for v in V:
        if v is None:
            continue
        for u in U:
            out.append("setunits_p %d %s" % (v, nul(u)))
    for r in R:
        if r is None:
            continue
        for v in V:
            out.append("setvariable %d %s" % (r, nul(v)))
            out.append("settestvariable %d %s" % (r, nul(v)))
    return out


def ops_queries(E, C, Cs, V, Ms, U, R, idx):
    """the queries of the object model that take an entity, an index or a name (incl. null, one past the end, unknown name)"""
    out = []
    for e in E:
        for n in NAMES_C:
            for d in (True, False):
                out.append("containscomponent_n %d %s %s" % (e, S(n), b(d)))
                out.append("component_n %d %s %s" % (e, S(n), b(d)))
        for c in C:
            for d in (True, False):
                out.append("containscomponent_p %d %s %s" % (e, nul(c), b(d)))
        for i in idx:
            out.append("component_i %d %d" % (e, i))
    for c in Cs:
        for n in NAMES_V:
            out.append("hasvariable_n %d %s" % (c, S(n)))
            out.append("variable_n %d %s" % (c, S(n)))
        for v in V:
            out.append("hasvariable_p %d %s" % (c, nul(v)))
        for r in R:
            out.append("hasreset %d %s" % (c, nul(r)))
        for i in idx:
            out.append("variable_i %d %d" % (c, i))
            out.append("reset_i %d %d" % (c, i))
    for m in Ms:
        for n in NAMES_U:
            out.append("hasunits_n %d %s" % (m, S(n)))
            out.append("units_n %d %s" % (m, S(n)))
        for u in U:
            out.append("hasunits_p %d %s" % (m, nul(u)))
        for i in idx[:2]:
            out.append("units_i %d %d" % (m, i))
    for v in V:
        if v is None:
            continue
        for w in V:
            out.append("hasequivalentvariable %d %s false" % (v, nul(w)))
            out.append("hasequivalentvariable %d %s true" % (v, nul(w)))
        for i in idx[:2]:
            out.append("equivalentvariable %d %d" % (v, i))
        out.append("getunits %d" % v)
    for x in (2, 4, 6, 8, 10, 12):
        out.append("parent %d" % x)
        out.append("hasparent %d" % x)
        for y in (0, 2, 3, None):
            out.append("hasancestor %d %s" % (x, nul(y)))
    for r in R:
        if r is not None:
            out.append("getvariable %d" % r)
            out.append("testvariable %d" % r)
    return out


def full_ops():
    """every op form with arguments over a representative part of the universe (incl. null, one past the end, unknown name)"""
    o = []
    o += ops_components([0, 2, 3], [2, 3, 4, None], [0, 1, 2], NAMES_C, [True, False])
    o += ops_variables([2, 3], [6, 7, 8, None], [0, 1, 2], NAMES_V)
    o += ops_resets([2, 3], [12, 13, None], [0, 1, 2])
    o += ops_units([0, 1], [10, 11, None], [0, 1], NAMES_U)
    o += ops_equiv([6, 7, 8, None])
    o += ops_links([6, 7, 8], [10, 11, None], [12, 13])
    o += ["release %d" % s for s in (0, 1, 2, 3, 4, 6, 8, 10, 12)]
    o += ops_queries([0, 2, 3], [2, 3, 4, None], [2, 3], [6, 7, 8, None], [0, 1], [10, 11, None], [12, 13, None], [0, 1, 2])
    return o


def reduced_ops():
    """the op set of the exhaustive enumeration: one or two instances of every op family, chosen so that moves between
    parents, look-alike lookups, self/ancestor insertion, null arguments and releases of owners all occur"""
    return [
        "addcomponent 0 2", "addcomponent 0 3", "addcomponent 1 3", "addcomponent 2 3", "addcomponent 3 2", "addcomponent 2 2",
        "addcomponent 3 4", "addcomponent 0 null",
        "removecomponent_i 0 0", "removecomponent_n 0 %s true" % S("a"), "removecomponent_p 0 3 true", "removecomponent_p 2 3 false",
        "takecomponent_i 2 0", "takecomponent_n 0 %s true" % S("a"),
        "replacecomponent_i 0 0 3", "replacecomponent_i 2 0 2", "replacecomponent_n 0 %s 4 true" % S("a"),
        "replacecomponent_p 0 2 4 true", "replacecomponent_i 0 0 null", "removeallcomponents 0",
        "addvariable 2 6", "addvariable 2 7", "addvariable 3 7", "addvariable 3 6", "addvariable 2 null",
        "removevariable_i 2 0", "removevariable_n 2 %s" % S("x"), "removevariable_p 2 7", "removevariable_p 3 6",
        "takevariable_i 2 1", "takevariable_n 3 %s" % S("x"), "removeallvariables 2",
        "addreset 2 12", "addreset 2 13", "addreset 3 13", "removereset_i 2 0", "removereset_p 2 13", "takereset 2 0", "removeallresets 2",
        "addunits 0 10", "addunits 0 11", "addunits 1 11", "removeunits_i 0 0", "removeunits_n 0 %s" % S("u"), "removeunits_p 0 11",
        "takeunits_i 0 0", "takeunits_n 1 %s" % S("u"), "replaceunits_i 0 0 11", "replaceunits_n 0 %s 11" % S("u"),
        "replaceunits_p 0 10 11", "replaceunits_i 0 0 null", "removeallunits 0",
        "addequivalence 6 7", "addequivalence 7 6", "addequivalence 6 6", "addequivalence_ids 6 null %s %s" % (S("m"), S("c")),
        "removeequivalence 6 7", "removeallequivalences 6",
        "setunits_p 6 10", "setunits_p 7 11", "setvariable 12 6",
        "release 0", "release 2", "release 3", "release 6", "release 7", "release 8", "release 10",
    ]


def reduced_ops3():
    """quick tier, length-3 enumeration: R without the null forms (every null form is in F) and a few near-duplicates"""
    drop = {"addcomponent 0 null", "replacecomponent_i 0 0 null", "addvariable 2 null", "replaceunits_i 0 0 null",
            "addequivalence_ids 6 null %s %s" % (S("m"), S("c")), "addequivalence 6 6", "removecomponent_p 2 3 false",
            "takecomponent_n 0 %s true" % S("a"), "replacecomponent_n 0 %s 4 true" % S("a"), "removevariable_p 3 6",
            "takevariable_n 3 %s" % S("x"), "removereset_i 2 0", "takeunits_n 1 %s" % S("u"), "replaceunits_n 0 %s 11" % S("u"),
            "removeunits_n 0 %s" % S("u"), "setunits_p 7 11"}
    out = [o for o in reduced_ops() if o not in drop]
    assert len(out) == len(reduced_ops()) - len(drop)
    return out


def reduced_ops4():
    """a smaller set for the length-4 enumeration of the thorough tier: one instance per op family"""
    return [
        "addcomponent 0 2", "addcomponent 0 3", "addcomponent 2 3", "addcomponent 3 2",
        "removecomponent_p 0 3 true", "removecomponent_i 0 0", "takecomponent_n 0 %s true" % S("a"),
        "replacecomponent_i 0 0 3", "replacecomponent_p 0 2 4 true", "removeallcomponents 0",
        "addvariable 2 6", "addvariable 2 7", "addvariable 3 7", "removevariable_p 2 7", "removevariable_n 2 %s" % S("x"), "takevariable_i 2 0",
        "addreset 2 12", "addreset 3 12", "removereset_p 2 13",
        "addunits 0 10", "addunits 1 10", "removeunits_p 0 11", "replaceunits_i 0 0 11", "takeunits_n 0 %s" % S("u"),
        "addequivalence 6 7", "removeequivalence 7 6", "removeallequivalences 6", "setunits_p 6 10", "setvariable 12 6",
        "release 2", "release 6", "release 0",
    ]


def op_slots(o):
    """the slots an op names (receiver and entity arguments; indices are not slots)"""
    t = o.split()
    if t[0].endswith("_i") or t[0] in ("takereset", "equivalentvariable"):
        return [int(t[1])] + [int(x) for x in t[3:] if x.isdigit()]
    return [int(x) for x in t[1:] if x.isdigit()]


def uses_released(ops):
    """script.hpp refuses a released slot (ERR, nothing called): such sequences are not API histories"""
    rel = set()
    for o in ops:
        if any(s in rel for s in op_slots(o)):
            return True
        if o.startswith("release "):
            rel.add(int(o.split()[1]))
    return False


SETUPS = dict(START)


def exhaustive(name, alphabet, n, last=None):
    """all sequences of n ops over alphabet (the last op from `last` when given) after the named set-up"""
    pre = "@%s;" % name
    rel0 = frozenset(int(o.split()[1]) for o in SETUPS[name] if o.startswith("release "))
    info = {}
    for o in set(alphabet) | set(last or []):
        info[o] = (frozenset(op_slots(o)), int(o.split()[1]) if o.startswith("release ") else None)

    def rec(prefix, rel, k):
        pool = last if (k == n - 1 and last is not None) else alphabet
        for o in pool:
            sl, r = info[o]
            if sl & rel:
                continue
            if k == n - 1:
                yield pre + ";".join(prefix + [o])
            else:
                yield from rec(prefix + [o], rel | {r} if r is not None else rel, k + 1)
    yield from rec([], rel0, 0)


WEIGHTED = None


def random_sequence(rng, name, n):
    """n random ops over the whole universe; released slots are not used again"""
    setup = SETUPS[name]
    E = MODELS + COMPS
    live = set(range(len(UNIVERSE)))
    for o in setup:
        if o.startswith("release"):
            live.discard(int(o.split()[1]))
    ops = []

    def pick(pool, null=0.08):
        c = [x for x in pool if x in live]
        if not c or rng.random() < null:
            return None
        return rng.choice(c)

    def recv(pool):
        c = [x for x in pool if x in live]
        return rng.choice(c) if c else None

    while len(ops) < n:
        fam = rng.choices(["comp", "var", "reset", "units", "equiv", "link", "release", "query"], [30, 22, 10, 14, 12, 8, 4, 14])[0]
        i = rng.choice([0, 0, 0, 1, 1, 2, 3])
        d = b(rng.random() < 0.5)
        if fam == "comp":
            e = recv(E)
            if e is None:
                continue
            k = rng.choices(["add", "rm_i", "rm_n", "rm_p", "tk_i", "tk_n", "rp_i", "rp_n", "rp_p", "rmall"],
                            [40, 6, 6, 8, 5, 5, 8, 6, 8, 2])[0]
            nm = S(rng.choice(NAMES_C))
            c, c2 = nul(pick(COMPS)), nul(pick(COMPS))
            ops.append({"add": "addcomponent %d %s" % (e, c), "rm_i": "removecomponent_i %d %d" % (e, i),
                        "rm_n": "removecomponent_n %d %s %s" % (e, nm, d), "rm_p": "removecomponent_p %d %s %s" % (e, c, d),
                        "tk_i": "takecomponent_i %d %d" % (e, i), "tk_n": "takecomponent_n %d %s %s" % (e, nm, d),
                        "rp_i": "replacecomponent_i %d %d %s" % (e, i, c), "rp_n": "replacecomponent_n %d %s %s %s" % (e, nm, c, d),
                        "rp_p": "replacecomponent_p %d %s %s %s" % (e, c, c2, d), "rmall": "removeallcomponents %d" % e}[k])
        elif fam == "var":
            e = recv(COMPS)
            if e is None:
                continue
            k = rng.choices(["add", "rm_i", "rm_n", "rm_p", "tk_i", "tk_n", "rmall"], [45, 8, 8, 12, 6, 6, 2])[0]
            nm = S(rng.choice(NAMES_V))
            v = nul(pick(VARS))
            ops.append({"add": "addvariable %d %s" % (e, v), "rm_i": "removevariable_i %d %d" % (e, i),
                        "rm_n": "removevariable_n %d %s" % (e, nm), "rm_p": "removevariable_p %d %s" % (e, v),
                        "tk_i": "takevariable_i %d %d" % (e, i), "tk_n": "takevariable_n %d %s" % (e, nm),
                        "rmall": "removeallvariables %d" % e}[k])
        elif fam == "reset":
            e = recv(COMPS)
            if e is None:
                continue
            k = rng.choices(["add", "rm_i", "rm_p", "tk", "rmall"], [50, 12, 18, 12, 4])[0]
            r = nul(pick(RESETS))
            ops.append({"add": "addreset %d %s" % (e, r), "rm_i": "removereset_i %d %d" % (e, i),
                        "rm_p": "removereset_p %d %s" % (e, r), "tk": "takereset %d %d" % (e, i),
                        "rmall": "removeallresets %d" % e}[k])
        elif fam == "units":
            e = recv(MODELS)
            if e is None:
                continue
            k = rng.choices(["add", "rm_i", "rm_n", "rm_p", "tk_i", "tk_n", "rp_i", "rp_n", "rp_p", "rmall"],
                            [40, 6, 6, 10, 5, 5, 8, 6, 10, 2])[0]
            nm = S(rng.choice(NAMES_U))
            u, u2 = nul(pick(UNITS)), nul(pick(UNITS))
            ops.append({"add": "addunits %d %s" % (e, u), "rm_i": "removeunits_i %d %d" % (e, i),
                        "rm_n": "removeunits_n %d %s" % (e, nm), "rm_p": "removeunits_p %d %s" % (e, u),
                        "tk_i": "takeunits_i %d %d" % (e, i), "tk_n": "takeunits_n %d %s" % (e, nm),
                        "rp_i": "replaceunits_i %d %d %s" % (e, i, u), "rp_n": "replaceunits_n %d %s %s" % (e, nm, u),
                        "rp_p": "replaceunits_p %d %s %s" % (e, u, u2), "rmall": "removeallunits %d" % e}[k])
        elif fam == "equiv":
            k = rng.choices(["add", "add4", "rm", "rmall"], [50, 15, 25, 10])[0]
            v, w = pick(VARS), pick(VARS)
            if k == "rmall":
                if v is None:
                    continue
                ops.append("removeallequivalences %d" % v)
            else:
                ops.append({"add": "addequivalence %s %s" % (nul(v), nul(w)),
                            "add4": "addequivalence_ids %s %s %s %s" % (nul(v), nul(w), S("m"), S("c")),
                            "rm": "removeequivalence %s %s" % (nul(v), nul(w))}[k])
        elif fam == "link":
            k = rng.choice(["units", "var", "tvar"])
            if k == "units":
                v = recv(VARS)
                if v is None:
                    continue
                ops.append("setunits_p %d %s" % (v, nul(pick(UNITS, 0.2))))
            else:
                r = recv(RESETS)
                if r is None:
                    continue
                ops.append("%s %d %s" % ("setvariable" if k == "var" else "settestvariable", r, nul(pick(VARS, 0.2))))
        elif fam == "query":
            k = rng.choice(["cc_n", "cc_p", "c_i", "c_n", "hv_n", "hv_p", "v_i", "v_n", "hr", "r_i", "hu_n", "hu_p", "u_i", "u_n",
                            "heq", "heq", "heq", "eqv", "par", "hpar", "hanc", "gu", "gv", "tv"])
            e, c, m = recv(E), recv(COMPS), recv(MODELS)
            v, r = recv(VARS), recv(RESETS)
            x = recv(COMPS + VARS + UNITS + RESETS)
            if None in (e, c, m, v, r, x):
                continue
            ops.append({
                "cc_n": "containscomponent_n %d %s %s" % (e, S(rng.choice(NAMES_C)), d),
                "cc_p": "containscomponent_p %d %s %s" % (e, nul(pick(COMPS, 0.2)), d),
                "c_i": "component_i %d %d" % (e, i), "c_n": "component_n %d %s %s" % (e, S(rng.choice(NAMES_C)), d),
                "hv_n": "hasvariable_n %d %s" % (c, S(rng.choice(NAMES_V))), "hv_p": "hasvariable_p %d %s" % (c, nul(pick(VARS, 0.2))),
                "v_i": "variable_i %d %d" % (c, i), "v_n": "variable_n %d %s" % (c, S(rng.choice(NAMES_V))),
                "hr": "hasreset %d %s" % (c, nul(pick(RESETS, 0.2))), "r_i": "reset_i %d %d" % (c, i),
                "hu_n": "hasunits_n %d %s" % (m, S(rng.choice(NAMES_U))), "hu_p": "hasunits_p %d %s" % (m, nul(pick(UNITS, 0.2))),
                "u_i": "units_i %d %d" % (m, i), "u_n": "units_n %d %s" % (m, S(rng.choice(NAMES_U))),
                "heq": "hasequivalentvariable %d %s %s" % (v, nul(pick(VARS, 0.3)), d), "eqv": "equivalentvariable %d %d" % (v, i),
                "par": "parent %d" % x, "hpar": "hasparent %d" % x,
                "hanc": "hasancestor %d %s" % (x, nul(pick(E, 0.25))),
                "gu": "getunits %d" % v, "gv": "getvariable %d" % r, "tv": "testvariable %d" % r}[k])
        else:
            c = sorted(live)
            if len(c) <= 4:
                continue
            h = rng.choice(c)
            live.discard(h)
            ops.append("release %d" % h)
    return "@%s;" % name + ";".join(ops)


QUERY_CMDS = ("containscomponent_n", "containscomponent_p", "component_i", "component_n", "hasvariable_n", "hasvariable_p",
              "variable_i", "variable_n", "hasreset", "reset_i", "hasunits_n", "hasunits_p", "units_i", "units_n",
              "hasequivalentvariable", "equivalentvariable", "parent", "hasparent", "hasancestor", "getunits", "getvariable",
              "testvariable")
