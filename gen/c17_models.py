"""Model set of C17 (declared structure of generated code matches the analysed model).

    extra_models(rng, count=None)   the systematic family: ONE helper-requiring operator placed in ONE position of a
                                    small hand-shaped model, in one of the model kinds (algebraic / ODE / NLA / DAE,
                                    with and without external variables).  count=None -> the whole product.
    invalid_models()                one model per non-valid AnalyserModel::Type
    pick_externals(rng, xml)        a random choice of variables of an arbitrary model to hand to
                                    Analyser::addExternalVariable
    mml_of_xml(xml)                 the MathML of a CellML text as token lines for the extracted model
                                    (ocaml/emit/driver.ml) + the multiset of MathML element names (the check's own
                                    oracle for "which helpers are needed"); uses xml.etree only, never libcellml.

Every model here is dimensionless (Analyser::analyseEquationUnits crashes on some exponent shapes with units: a
defect outside C17, see design_notes/C03.md) and avoids the text shapes behind C03's known findings (`--3.0`,
`1E5.0`, operands that lose their parentheses): operands of the planted operator are bare variables.

Model dict: {"name", "xml", "externals": ["comp.var", ...], "meta": {...}}.
"""
import itertools
import re
import xml.etree.ElementTree as ET

CELLML_NS = "http://www.cellml.org/cellml/2.0#"
MATHML_NS = "http://www.w3.org/1998/Math/MathML"

# helper flag name (order of AnalyserModel::need*Function in harness/c17_driver.cpp) -> MathML element, arity
HELPERS = [("eq", "eq", 2), ("neq", "neq", 2), ("lt", "lt", 2), ("leq", "leq", 2), ("gt", "gt", 2), ("geq", "geq", 2),
           ("and", "and", 2), ("or", "or", 2), ("xor", "xor", 2), ("not", "not", 1), ("min", "min", 2), ("max", "max", 2),
           ("sec", "sec", 1), ("csc", "csc", 1), ("cot", "cot", 1), ("sech", "sech", 1), ("csch", "csch", 1), ("coth", "coth", 1),
           ("asec", "arcsec", 1), ("acsc", "arccsc", 1), ("acot", "arccot", 1), ("asech", "arcsech", 1), ("acsch", "arccsch", 1),
           ("acoth", "arccoth", 1)]
FLAG_NAMES = [h[0] for h in HELPERS]
ELEMENT_OF_FLAG = {h[0]: h[1] for h in HELPERS}
FLAG_OF_ELEMENT = {h[1]: h[0] for h in HELPERS}

PLACEMENTS = ["top", "logbase", "degree", "piece_value", "piece_condition", "otherwise", "nary_tail", "child_component",
              "ode_rhs", "nla_equation", "initial_guess_system", "nested_qualifier", "external_only"]
KINDS = ["algebraic", "ode", "nla", "dae", "algebraic_ext", "ode_ext", "nla_ext", "dae_ext"]

_HDR = ('<?xml version="1.0" encoding="UTF-8"?>\n<model xmlns="http://www.cellml.org/cellml/2.0#" '
        'xmlns:cellml="http://www.cellml.org/cellml/2.0#" name="%s">\n')
_MATH = '    <math xmlns="http://www.w3.org/1998/Math/MathML">\n%s    </math>\n'


def ci(x):
    return "<ci>%s</ci>" % x


def cn(x):
    return '<cn cellml:units="dimensionless">%s</cn>' % x


def ap(op, *a):
    return "<apply><%s/>%s</apply>" % (op, "".join(a))


def pw(pieces, other=None):
    return "<piecewise>%s%s</piecewise>" % ("".join("<piece>%s%s</piece>" % p for p in pieces),
                                            "" if other is None else "<otherwise>%s</otherwise>" % other)


def eqn(l, r):
    return "      <apply><eq/>%s%s</apply>\n" % (l, r)


def var(name, init=None, iface=None):
    return '    <variable name="%s" units="dimensionless"%s%s/>\n' % (
        name, "" if init is None else ' initial_value="%s"' % init, "" if iface is None else ' interface="%s"' % iface)


def planted(element, arity, a="a", b="b"):
    return ap(element, ci(a)) if arity == 1 else ap(element, ci(a), ci(b))


def build(flag, placement, kind, long_names=False):
    """one model: operator `flag` only in position `placement`, model kind `kind`"""
    element, arity = ELEMENT_OF_FLAG[flag], dict((h[0], h[2]) for h in HELPERS)[flag]
    name = "%s__%s__%s" % (flag, placement, kind)
    main = "main" if not long_names else "main_component_with_a_rather_long_name_%s" % flag
    # names of different lengths so that the three buffer sizes are decided by different entries
    va, vb, vc, vy = ("a", "b", "c", "y") if not long_names else ("a", "b_longer_variable_name", "c", "y")
    H = planted(element, arity, va, vb)
    variables = [var(va, "2", "public_and_private"), var(vb, "3", "public_and_private"), var(vc, "1", "public_and_private"), var(vy)]
    eqs = []
    extra_components = ""
    encaps = ""
    connections = ""
    externals = []
    ode = kind.startswith(("ode", "dae"))
    nla = kind.startswith(("nla", "dae"))
    ext = kind.endswith("_ext")

    if placement == "top":
        eqs.append(eqn(ci(vy), H))
    elif placement == "logbase":
        eqs.append(eqn(ci(vy), ap("log", "<logbase>%s</logbase>" % H, ci(vc))))
    elif placement == "degree":
        eqs.append(eqn(ci(vy), ap("root", "<degree>%s</degree>" % H, ci(vc))))
    elif placement == "piece_value":
        eqs.append(eqn(ci(vy), pw([(H, ci(vc))], ci(va))))
    elif placement == "piece_condition":
        eqs.append(eqn(ci(vy), pw([(ci(va), H)], ci(vc))))
    elif placement == "otherwise":
        eqs.append(eqn(ci(vy), pw([(ci(va), ci(vc))], H)))
    elif placement == "nary_tail":
        eqs.append(eqn(ci(vy), ap("plus", ci(va), ci(vc), ap("times", ci(vb), ci(vc), H))))
    elif placement == "nested_qualifier":
        # the operator sits in a piecewise condition inside a logbase inside a degree
        inner = ap("log", "<logbase>%s</logbase>" % pw([(ci(va), H)], ci(vb)), ci(vc))
        eqs.append(eqn(ci(vy), ap("root", "<degree>%s</degree>" % inner, ci(vc))))
    elif placement == "child_component":
        # the only use is in a component encapsulated two levels down (a reset-free component, no variable of it is
        # referenced by the parent's equations)
        eqs.append(eqn(ci(vy), ap("plus", ci(va), ci(vc))))
        extra_components = ('  <component name="middle">\n' + var("am", None, "public_and_private") + var("bm", None, "public_and_private") +
                            "  </component>\n"
                            '  <component name="leaf">\n' + var("al", None, "public") + var("bl", None, "public") + var("w") +
                            _MATH % eqn(ci("w"), planted(element, arity, "al", "bl")) + "  </component>\n")
        encaps = ('  <encapsulation>\n    <component_ref component="%s">\n      <component_ref component="middle">\n'
                  '        <component_ref component="leaf"/>\n      </component_ref>\n    </component_ref>\n  </encapsulation>\n' % main)
        connections = ('  <connection component_1="%s" component_2="middle">\n    <map_variables variable_1="%s" variable_2="am"/>\n'
                       '    <map_variables variable_1="%s" variable_2="bm"/>\n  </connection>\n'
                       '  <connection component_1="middle" component_2="leaf">\n    <map_variables variable_1="am" variable_2="al"/>\n'
                       '    <map_variables variable_1="bm" variable_2="bl"/>\n  </connection>\n' % (main, va, vb))
    elif placement == "ode_rhs":
        ode = True
        eqs.append(eqn(ci(vy), ap("plus", ci(va), ci(vc))))
    elif placement == "nla_equation":
        nla = True
        eqs.append(eqn(ci(vy), ap("plus", ci(va), ci(vc))))
    elif placement == "initial_guess_system":
        nla = True
        eqs.append(eqn(ci(vy), ap("plus", ci(va), ci(vc))))
    elif placement == "external_only":
        # the only equation that uses the operator computes a variable that is marked external
        ext = True
        eqs.append(eqn(ci(vy), H))
        externals.append("%s.%s" % (main, vy))
        variables.append(var("k"))
        eqs.append(eqn(ci("k"), ap("plus", ci(vy), ci(vc))))
    else:
        raise ValueError(placement)

    if ode:
        variables += [var("t"), var("x", "1")]
        rhs = H if placement == "ode_rhs" else ap("minus", ci(va), ci("x"))
        eqs.append(eqn(ap("diff", "<bvar>%s</bvar>" % ci("t"), ci("x")), rhs))
    if nla:
        if placement == "initial_guess_system":
            variables += [var("u", "1"), var("v", "1")]
            eqs.append(eqn(ap("plus", ci("u"), ci("v")), H))
            eqs.append(eqn(ap("minus", ci("u"), ci("v")), ci(vc)))
        else:
            variables += [var("z")]
            lhs = ap("plus", ci("z"), ap("times", ci(vb), ci("z")))
            eqs.append(eqn(lhs, H if placement == "nla_equation" else ci(va)))
    if ext and placement != "external_only":
        externals.append("%s.%s" % (main, va))      # a constant becomes external
        if ode and flag in ("eq", "min", "sec", "acoth"):
            externals.append("%s.%s" % (main, vy))   # and, sometimes, a computed variable
    xml = (_HDR % name + '  <component name="%s">\n' % main + "".join(variables) + _MATH % "".join(eqs) + "  </component>\n" +
           extra_components + connections + encaps + "</model>\n")
    return {"name": name, "xml": xml, "externals": externals,
            "meta": {"family": "extra", "flag": flag, "placement": placement, "kind": kind, "long_names": long_names}}


def extra_models(rng, count=None):
    combos = list(itertools.product(FLAG_NAMES, PLACEMENTS, KINDS))
    if count is not None and count < len(combos):
        # stratified: every flag, every placement, every kind at least once when count allows
        rng.shuffle(combos)
        chosen, seen = [], {"f": set(), "p": set(), "k": set()}
        for c in combos:
            if len(chosen) >= count:
                break
            if c[0] not in seen["f"] or c[1] not in seen["p"] or c[2] not in seen["k"]:
                chosen.append(c)
                seen["f"].add(c[0]); seen["p"].add(c[1]); seen["k"].add(c[2])
        for c in combos:
            if len(chosen) >= count:
                break
            if c not in chosen:
                chosen.append(c)
        combos = chosen
    out = []
    for i, (f, p, k) in enumerate(combos):
        out.append(build(f, p, k, long_names=(i % 3 == 1)))
    return out


def control_models():
    """models that need NO helper at all (the helper set must be empty) and a model using every helper at once"""
    out = []
    body = "".join([var("a", "2"), var("b", "3"), var("y"), var("t"), var("x", "1")])
    eqs = eqn(ci("y"), ap("plus", ci("a"), ap("sin", ci("b")))) + eqn(ap("diff", "<bvar>%s</bvar>" % ci("t"), ci("x")), ap("times", ci("a"), ci("x")))
    out.append({"name": "no_helper_ode", "xml": _HDR % "no_helper_ode" + '  <component name="main">\n' + body + _MATH % eqs + "  </component>\n</model>\n",
                "externals": [], "meta": {"family": "control", "kind": "ode"}})
    body = "".join([var("a", "2"), var("b", "3")] + [var("y%d" % i) for i in range(len(HELPERS))])
    eqs = "".join(eqn(ci("y%d" % i), planted(h[1], h[2])) for i, h in enumerate(HELPERS))
    out.append({"name": "all_helpers", "xml": _HDR % "all_helpers" + '  <component name="main">\n' + body + _MATH % eqs + "  </component>\n</model>\n",
                "externals": [], "meta": {"family": "control", "kind": "algebraic"}})
    # one variable only: a single info entry, sizes decided by it alone
    out.append({"name": "single_constant", "xml": _HDR % "single_constant" + '  <component name="c">\n' + var("k", "1") + "  </component>\n</model>\n",
                "externals": [], "meta": {"family": "control", "kind": "algebraic"}})
    # `eq` only as the equation's own equality: no eq helper may be emitted (Python profile)
    out.append({"name": "equality_only", "xml": _HDR % "equality_only" + '  <component name="c">\n' + var("k", "1") + var("y") +
                _MATH % eqn(ci("y"), ap("times", ci("k"), cn("2"))) + "  </component>\n</model>\n",
                "externals": [], "meta": {"family": "control", "kind": "algebraic"}})
    return out


def finding_models():
    """one minimal model per known finding of C17 (known_findings.d/C17.json): confirmed through the full pipeline on
    every run; meta["expect"] = the finding id"""
    def one(name, rhs, fid, extra_vars=(), extra_eqs=(), externals=()):
        xml = (_HDR % name + '  <component name="main">\n' + var("a", "2") + var("b", "3") + var("c", "1") + var("y") + "".join(extra_vars) +
               _MATH % (eqn(ci("y"), rhs) + "".join(extra_eqs)) + "  </component>\n</model>\n")
        return {"name": name, "xml": xml, "externals": list(externals), "meta": {"family": "finding", "expect": fid}}
    return [
        one("finding_product_condition", pw([(ci("a"), ap("times", ci("a"), ci("b")))], ci("c")), "C17-product-in-boolean-context"),
        one("finding_product_and", ap("and", ap("times", ci("a"), ci("b")), ci("c")), "C17-product-in-boolean-context"),
        one("finding_fabs_gt", ap("abs", ap("gt", ci("a"), ci("b"))), "C17-fabs-of-comparison"),
        one("finding_not_lt", ap("lt", ap("not", ci("a")), ci("c")), "C17-not-operand-of-comparison"),
        one("finding_neq_leq", ap("neq", ci("c"), ap("leq", ci("a"), ci("b"))), "C17-comparison-operand-of-comparison"),
        one("finding_lt_lt", ap("lt", ap("lt", ci("a"), ci("b")), ci("c")), "C17-comparison-operand-of-comparison"),
        one("finding_external_sec", ap("sec", ci("a")), "C17-helper-for-externalised-equation", extra_vars=[var("k")],
            extra_eqs=[eqn(ci("k"), ap("plus", ci("y"), ci("c")))], externals=["main.y"]),
        # a computed constant that depends on an NLA-solved computed constant, in a model with ODEs
        one("finding_findroot_in_constants", ap("times", cn("3"), ci("k")), "C17-findroot-in-compute-computed-constants",
            extra_vars=[var("k"), var("w"), var("t"), var("x", "1")],
            extra_eqs=[eqn(ci("k"), ap("times", cn("2"), ci("w"))), eqn(ap("plus", ci("w"), ap("times", ci("a"), ci("w"))), cn("6")),
                       eqn(ap("diff", "<bvar>%s</bvar>" % ci("t"), ci("x")), ci("a"))]),
    ]


# --------------------------------------------------------------------------- buffer-size matrix
LONG = {"name": "carrier_variable_with_the_strictly_longest_name", "units": "units_with_the_strictly_longest_units_name",
        "component": "component_with_the_strictly_longest_component_name"}
CARRIERS = ["voi", "state", "constant", "computed_constant", "algebraic", "external"]
BUFFER_KINDS = {"ode": CARRIERS, "dae": CARRIERS, "algebraic": ["constant", "computed_constant", "external"],
                "nla": ["constant", "computed_constant", "algebraic", "external"]}


def _v(name, units="dimensionless", init=None, iface=None):
    return '    <variable name="%s" units="%s"%s%s/>\n' % (
        name, units, "" if init is None else ' initial_value="%s"' % init, "" if iface is None else ' interface="%s"' % iface)


def buffer_model(kind, field, carrier):
    """a model of analyser type `kind` in which the STRICTLY longest `field` string (name / units / component) belongs to
    a variable of class `carrier` and to nothing else: every other string of that field is short.  The carrier lives in a
    component of its own; which variable the analyser makes primary is re-checked on the accessor dump (the check counts
    a cell of the matrix only when the dump confirms it)."""
    ode = kind in ("ode", "dae")
    nla = kind in ("dae", "nla")
    q = LONG["name"] if field == "name" else "q"
    qu = LONG["units"] if field == "units" else "dimensionless"
    car = LONG["component"] if field == "component" else "car"
    name = "buffer__%s__%s__%s" % (kind, field, carrier)
    units = '  <units name="%s">\n    <unit units="dimensionless"/>\n  </units>\n' % LONG["units"] if field == "units" else ""
    externals = []
    mv, me = [_v("k", init="2"), _v("cc")], [eqn(ci("cc"), ap("plus", ci("k"), cn("1")))]
    connections = ""
    if ode:
        mv += [_v("t", iface="public"), _v("x", init="1", iface="public"), _v("al")]
        me += [eqn(ap("diff", "<bvar>%s</bvar>" % ci("t"), ci("x")), ci("k")), eqn(ci("al"), ap("plus", ci("x"), ci("k")))]
    if nla:
        mv += [_v("z")]
        me += [eqn(ap("plus", ci("z"), ap("times", ci("k"), ci("z"))), ci("cc"))]
    if carrier != "external":
        mv += [_v("e", init="2")]
        externals.append("main.e")
    cv, ce = [], []
    if carrier == "voi":
        cv = [_v(q, qu, iface="public")]
        connections = '  <connection component_1="%s" component_2="main">\n    <map_variables variable_1="%s" variable_2="t"/>\n  </connection>\n' % (car, q)
    elif carrier == "state":
        cv = [_v("tl", iface="public"), _v(q, qu, init="1")]
        ce = [eqn(ap("diff", "<bvar>%s</bvar>" % ci("tl"), ci(q)), cn("1"))]
        connections = '  <connection component_1="main" component_2="%s">\n    <map_variables variable_1="t" variable_2="tl"/>\n  </connection>\n' % car
    elif carrier == "constant":
        cv = [_v(q, qu, init="2")]
    elif carrier == "computed_constant":
        cv = [_v(q, qu)]
        ce = [eqn(ci(q), cn("3"))]
    elif carrier == "algebraic":
        if ode:
            cv = [_v("xl", iface="public"), _v(q, qu)]
            ce = [eqn(ci(q), ap("plus", ci("xl"), cn("1")))]
            connections = '  <connection component_1="main" component_2="%s">\n    <map_variables variable_1="x" variable_2="xl"/>\n  </connection>\n' % car
        else:
            # without ODEs a variable is ALGEBRAIC when it is an NLA unknown with an initial guess: a 2-unknown system
            # over literals only (an initialised constant used in it would be taken for an unknown as well)
            cv = [_v(q, qu, init="1"), _v("p", init="1")]
            ce = [eqn(ap("plus", ci(q), ci("p")), cn("3")), eqn(ap("minus", ci(q), ci("p")), cn("1"))]
    elif carrier == "external":
        cv = [_v(q, qu, init="2")]
        externals.append("%s.%s" % (car, q))
    main = '  <component name="main">\n' + "".join(mv) + _MATH % "".join(me) + "  </component>\n"
    carc = '  <component name="%s">\n' % car + "".join(cv) + (_MATH % "".join(ce) if ce else "") + "  </component>\n"
    body = (carc + main) if carrier == "voi" else (main + carc)
    xml = _HDR % name + units + body + connections + "</model>\n"
    return {"name": name, "xml": xml, "externals": externals,
            "meta": {"family": "buffer", "kind": kind, "field": field, "carrier": carrier}}


def buffer_models():
    return [buffer_model(k, f, c) for k, cs in BUFFER_KINDS.items() for f in ("name", "units", "component") for c in cs]


# --------------------------------------------------------------------------- several NLA systems, some eliminated by externals
def nla_elimination_models():
    """three NLA systems (1, 2 and 1 unknowns) in every order, with every non-empty subset of the unknowns of ONE system
    (first / middle / last) handed to Analyser::addExternalVariable, plus the first and the last system eliminated
    together; with and without ODEs.  An NLA equation whose unknowns are all external is dropped AFTER it consumed an NLA
    system index, so the indices of the remaining systems have gaps; a partly externalised 2-unknown system may become
    overconstrained (then both code strings must be empty)."""
    systems = {
        "S1": (["z1"], [_v("z1")], [eqn(ap("plus", ci("z1"), ap("times", ci("b"), ci("z1"))), ci("a"))]),
        "S2": (["u", "v"], [_v("u", init="1"), _v("v", init="1")],
               [eqn(ap("plus", ci("u"), ci("v")), ci("a")), eqn(ap("minus", ci("u"), ci("v")), ci("c"))]),
        "S3": (["z3"], [_v("z3")], [eqn(ap("plus", ci("z3"), ap("times", ci("c"), ci("z3"))), ci("b"))]),
    }
    out = []
    for kind in ("nla", "dae"):
        for perm in itertools.permutations(["S1", "S2", "S3"]):
            marks = [[]]
            for s in perm:
                unk = systems[s][0]
                for r in range(1, len(unk) + 1):
                    for sub in itertools.combinations(unk, r):
                        marks.append(list(sub))
            marks.append(systems[perm[0]][0][:1] + systems[perm[2]][0][:1])      # first and last together
            marks.append(systems[perm[0]][0] + systems[perm[1]][0])              # first and middle entirely
            for mk in marks:
                variables = [_v("a", init="2"), _v("b", init="3"), _v("c", init="1"), _v("w")]
                eqs = []
                for sname in perm:
                    variables += systems[sname][1]
                    eqs += systems[sname][2]
                eqs.append(eqn(ci("w"), ap("plus", ci("z1"), ci("u"), ci("z3"))))
                if kind == "dae":
                    variables += [_v("t"), _v("x", init="1")]
                    eqs.append(eqn(ap("diff", "<bvar>%s</bvar>" % ci("t"), ci("x")), ap("plus", ci("a"), ci("v"))))
                name = "nlasys__%s__%s__%s" % (kind, "".join(perm), "_".join(mk) or "none")
                xml = _HDR % name + '  <component name="main">\n' + "".join(variables) + _MATH % "".join(eqs) + "  </component>\n</model>\n"
                out.append({"name": name, "xml": xml, "externals": ["main." + m for m in mk],
                            "meta": {"family": "nla_elimination", "kind": kind, "order": "".join(perm), "marked": list(mk)}})
    return out


# --------------------------------------------------------------------------- the externals dimension
def externals_base_models():
    """one plain model per analyser type with two variables of every class that type can have"""
    t = "<bvar>%s</bvar>" % ci("t")
    out = []
    for kind in ("ode", "dae", "algebraic", "nla"):
        ode, nla = kind in ("ode", "dae"), kind in ("nla", "dae")
        vs = [var("k1", "2"), var("k2", "3"), var("c1"), var("c2")]
        es = [eqn(ci("c1"), ap("plus", ci("k1"), cn("1"))), eqn(ci("c2"), ap("times", ci("k2"), cn("2")))]
        if ode:
            vs += [var("t"), var("x1", "1"), var("x2", "2"), var("a1"), var("a2")]
            es += [eqn(ap("diff", t, ci("x1")), ci("k1")), eqn(ap("diff", t, ci("x2")), ap("minus", ci("k2"), ci("x1"))),
                   eqn(ci("a1"), ap("plus", ci("x1"), ci("k1"))), eqn(ci("a2"), ap("times", ci("x2"), ci("c1")))]
        if nla:
            vs += [var("z1"), var("z2"), var("u", "1"), var("v", "1")]
            es += [eqn(ap("plus", ci("z1"), ap("times", ci("k1"), ci("z1"))), ci("c1")),
                   eqn(ap("plus", ci("z2"), ap("times", ci("k2"), ci("z2"))), ci("k1")),
                   eqn(ap("plus", ci("u"), ci("v")), cn("3")), eqn(ap("minus", ci("u"), ci("v")), cn("1"))]
        name = "xbase_%s" % kind
        out.append({"name": name, "xml": _HDR % name + '  <component name="main">\n' + "".join(vs) + _MATH % "".join(es) + "  </component>\n</model>\n",
                    "externals": [], "meta": {"family": "externals", "kind": kind, "cls": "-", "qty": "none"}})
    return out


EXT_CLASSES = ["states", "constants", "computed_constants", "algebraic", "nla_unknowns"]


def externals_matrix(base, info):
    """from the accessor dump `info` of the UNMARKED model `base`: for every class of variable that the analyser found
    (states, constants, computed constants, algebraic variables, unknowns of NLA systems) the variants "one member
    external" and "all members external", plus "every state and variable external"."""
    classes = {c: [] for c in EXT_CLASSES}
    for r in info["states"]:
        classes["states"].append(r)
    by_index = {}
    for r in info["variables"]:
        by_index[r["index"]] = r
        key = {"constant": "constants", "computed_constant": "computed_constants", "algebraic": "algebraic"}.get(r["type"])
        if key:
            classes[key].append(r)
    state_by_index = {r["index"]: r for r in info["states"]}
    seen = set()
    for e in info["equations"]:
        if e["type"] == "nla":
            for typ, idx in e["vars"]:
                r = state_by_index.get(idx) if typ == "state" else by_index.get(idx)
                if r is not None and (typ, idx) not in seen:
                    seen.add((typ, idx))
                    classes["nla_unknowns"].append(r)
    out = []

    def variant(cls, qty, recs):
        out.append({"name": "%s__%s__%s" % (base["name"], cls, qty), "xml": base["xml"],
                    "externals": sorted({"%s.%s" % (r["component"], r["name"]) for r in recs}),
                    "meta": {"family": "externals", "kind": info["type"], "cls": cls, "qty": qty, "base": base["name"]}})
    for cls in EXT_CLASSES:
        recs = classes[cls]
        if not recs:
            continue
        variant(cls, "one", recs[:1])
        if len(recs) >= 2:
            variant(cls, "all", recs)
        else:
            out[-1]["meta"]["qty"] = "one=all"
    variant("all_variables", "all", info["states"] + info["variables"])
    return out


def invalid_models():
    """(name, xml, externals, expected AnalyserModel type)"""
    def one(name, variables, eqs):
        return _HDR % name + '  <component name="c">\n' + "".join(variables) + (_MATH % "".join(eqs) if eqs else "") + "  </component>\n</model>\n"
    t = "<bvar>%s</bvar>" % ci("t")
    out = [
        ("underconstrained", one("underconstrained", [var("a", "1"), var("y"), var("w")], [eqn(ci("y"), ap("plus", ci("a"), ci("w")))]), [], "underconstrained"),
        ("overconstrained", one("overconstrained", [var("a", "1"), var("y")],
                                [eqn(ci("y"), ci("a")), eqn(ci("y"), ap("plus", ci("a"), cn("1"))), eqn(ci("y"), cn("4"))]), [], "overconstrained"),
        ("overconstrained_state", one("overconstrained_state", [var("t"), var("x", "1")],
                                      [eqn(ap("diff", "<bvar>%s</bvar>" % ci("t"), ci("x")), cn("1")), eqn(ci("x"), cn("3"))]), [], "overconstrained"),
        ("unsuitably_constrained", one("unsuitably_constrained", [var("a", "1"), var("y"), var("w"), var("q")],
                                       [eqn(ci("y"), ci("a")), eqn(ci("y"), ap("plus", ci("a"), cn("1"))), eqn(ci("y"), cn("4")),
                                        eqn(ci("w"), ap("plus", ci("a"), ci("q")))]), [], "unsuitably_constrained"),
        # two variables of integration: analyser error => INVALID
        ("invalid_two_voi", one("invalid_two_voi", [var("t"), var("s"), var("x", "1"), var("z", "1")],
                                [eqn(ap("diff", t, ci("x")), cn("1")), eqn(ap("diff", "<bvar>%s</bvar>" % ci("s"), ci("z")), cn("1"))]), [], "invalid"),
        # a model the validator rejects (unknown units) => INVALID through Analyser::analyseModel
        ("invalid_validation", _HDR % "invalid_validation" + '  <component name="c">\n    <variable name="k" units="no_such_units" initial_value="1"/>\n'
         "  </component>\n</model>\n", [], "invalid"),
        # state without initial value
        ("underconstrained_state", one("underconstrained_state", [var("t"), var("x")], [eqn(ap("diff", t, ci("x")), cn("1"))]), [], "underconstrained"),
        # no variables at all: the type stays UNKNOWN
        ("unknown_empty", _HDR % "unknown_empty" + '  <component name="c">\n  </component>\n</model>\n', [], "unknown"),
        # helper operator inside an invalid model: still nothing may be emitted
        ("underconstrained_with_helper", one("underconstrained_with_helper", [var("a", "1"), var("y"), var("w")],
                                             [eqn(ci("y"), ap("sec", ap("xor", ci("a"), ci("w"))))]), [], "underconstrained"),
    ]
    return out


def voi_class(root):
    """(component, variable) pairs equivalent to a variable used in a <bvar> (the variable of integration and
    everything connected to it): Analyser::addExternalVariable on one of those is C20's subject, not C17's"""
    parent = {}

    def find(x):
        parent.setdefault(x, x)
        while parent[x] != x:
            parent[x] = parent[parent[x]]
            x = parent[x]
        return x
    seeds = set()
    for comp in root:
        if comp.tag == "{%s}component" % CELLML_NS:
            for bv in comp.iter("{%s}bvar" % MATHML_NS):
                for c in bv.iter("{%s}ci" % MATHML_NS):
                    seeds.add((comp.get("name"), (c.text or "").strip()))
        elif comp.tag == "{%s}connection" % CELLML_NS:
            c1, c2 = comp.get("component_1"), comp.get("component_2")
            for mv in comp:
                a, b = find((c1, mv.get("variable_1"))), find((c2, mv.get("variable_2")))
                parent[a] = b
    roots = {find(s) for s in seeds}
    return {x for x in list(parent) if find(x) in roots} | seeds


def pick_externals(rng, xml, max_n=2):
    """random variables of an arbitrary model, as 'component.variable' (never the variable of integration)"""
    root = ET.fromstring(xml.encode("utf-8"))
    voi = voi_class(root)
    names = []
    for comp in root:
        if comp.tag == "{%s}component" % CELLML_NS:
            for v in comp:
                if v.tag == "{%s}variable" % CELLML_NS and (comp.get("name"), v.get("name")) not in voi:
                    names.append("%s.%s" % (comp.get("name"), v.get("name")))
    if not names:
        return []
    n = rng.randint(1, max_n)
    return sorted(rng.sample(names, min(n, len(names))))


# --------------------------------------------------------------------------- MathML -> tokens for the extracted model
def _local(tag):
    return tag.rsplit("}", 1)[-1]


def _tok(s):
    s = re.sub(r"\s+", "", s or "")
    return "=" + s


def _mml(el, out, names):
    tag = _local(el.tag)
    names[tag] = names.get(tag, 0) + 1
    if tag == "ci":
        out.append("CI")
        out.append(_tok(el.text))
        return
    if tag == "cn":
        kids = [k for k in el if _local(k.tag) == "sep"]
        if kids:
            out += ["CNE", _tok(el.text), _tok(kids[0].tail)]
        else:
            out += ["CN", _tok(el.text)]
        return
    kids = [k for k in el if isinstance(k.tag, str) and k.tag.startswith("{%s}" % MATHML_NS)]
    out += ["E", tag, str(len(kids))]
    for k in kids:
        _mml(k, out, names)


def mml_of_xml(xml):
    """(token lines, one per top-level child of every <math>; {element name: count})
    Component order = document order, which is not the analyser's traversal order (encapsulation): flags are a union,
    so the order does not matter."""
    root = ET.fromstring(xml.encode("utf-8"))
    lines, names = [], {}
    for math in root.iter("{%s}math" % MATHML_NS):
        for top in math:
            if isinstance(top.tag, str) and top.tag.startswith("{%s}" % MATHML_NS):
                out = []
                _mml(top, out, names)
                lines.append(" ".join(out))
    return lines, names


def needed_helpers(xml):
    """the check's own oracle: flag names of the helper-requiring operators that occur in the model's MathML
    (`eq` only counts when it is not the equality of an equation, i.e. not the first child of a top-level apply)"""
    root = ET.fromstring(xml.encode("utf-8"))
    need = set()
    for math in root.iter("{%s}math" % MATHML_NS):
        for top in math:
            for el in top.iter():
                tag = _local(el.tag) if isinstance(el.tag, str) else ""
                if tag in FLAG_OF_ELEMENT:
                    if tag == "eq" and _local(top.tag) == "apply" and len(top) > 0 and top[0] is el:
                        continue
                    need.add(FLAG_OF_ELEMENT[tag])
    return need
