"""Independent reference evaluator for CellML 2.0 models (C03 whole-model layer; reusable by C17).

Nothing here imports libcellml or reads its code at run time.  It evaluates a *model description* (plain python
data, produced by gen/mathmodel_gen.py or by `parse_cellml(xml_text)` below) with python `math` on floats;
unit multipliers and number texts go through `fractions.Fraction` where that is exact.

Model description
-----------------
    {"name": str,
     "units": [{"name": str, "unit": [{"units": ref, "prefix": str|None, "multiplier": str|None, "exponent": str|None}]}],
     "components": [{"name": str,
                     "variables": [{"name": str, "units": str, "initial_value": str|None, "interface": str|None}],
                     "equations": [[lhs_expr, rhs_expr], ...]}],
     "connections": [[component_1, variable_1, component_2, variable_2], ...]}

Expressions (tuples or lists; children are expressions):
    ("cn", text, units)                      <cn cellml:units="units">text</cn>
    ("cne", mantissa, exponent, units)       <cn type="e-notation">mantissa<sep/>exponent</cn>
    ("ci", name)
    ("k", name)                              name in true false pi exponentiale infinity notanumber
    ("ap", op, [args], qualifier)            <apply><op/>[<degree>|<logbase>qualifier]args</apply>; qualifier is None
                                             except for root (degree) and log (logbase); op is the MathML element name
    ("pw", [[value, condition], ...], otherwise|None)
    ("diff", x, t)                           <apply><diff/><bvar><ci>t</ci></bvar><ci>x</ci></apply>

Semantics (MathML 2 / CellML 2.0 as the property states them)
------------------------------------------------------------
* relational and logical operators give 1.0 / 0.0; a value is "true" when it is non-zero; xor/and/or/plus/times/
  min/max are n-ary; `rem` is fmod; `root` without degree is the square root, with degree d it is x**(1/d); `log`
  without logbase is log10, with logbase b it is ln(x)/ln(b); arccot/arcsec/arccsc/arcsech/arccsch/arccoth are the
  principal values atan(1/x), acos(1/x), asin(1/x), acosh(1/x), asinh(1/x), atanh(1/x); piecewise takes the first
  piece whose condition is true, else the otherwise, else NaN.
* Unit scaling: every units has a multiplier  mult(u) = prod over its <unit> children of
  multiplier * (10**prefix * mult(ref))**exponent  (standard units 1, except gram and litre = 1e-3).  Variables
  joined by connections form one equivalence class denoting ONE physical quantity Q; the value of a member v is
  Q / mult(units(v)).  `initial_value="c"` on v fixes Q = c*mult(units(v)); an equation `v = rhs` in component C
  fixes Q = rhs*mult(units(v)) with every <ci> w in rhs read as Q_w/mult(units(w)) for C's own variable w; an ODE
  `d x/d t = rhs` fixes dQ_x/dQ_t = rhs*mult(units(x))/mult(units(t)).  <cn> units are not used for scaling.
  libcellml stores ONE array entry per class, expressed in the units of AnalyserVariable::variable(): that entry
  must equal `Result.var_value(component, name)` of that variable; a rate entry must equal
  `Result.rate_value((cx, x), (ct, t))` with (cx, x) the state's variable() and (ct, t) the voi's variable().
* Which equation defines what: an equation with a `diff` on one side defines that rate; an equation with a bare
  <ci> v on its left (else on its right) side, v not initialised and not otherwise defined, defines v; every other
  equation is implicit and belongs to an NLA system whose unknowns are its not-initialised undefined variables or,
  when there are none, all its initialised non-state variables (this mirrors what CellML tools have to do: an
  initial value on a non-state variable that is constrained by an equation is an initial guess).  NLA systems are
  solved here by Newton iteration from the initial guesses (0 when absent).
"""
import math
import re
import xml.etree.ElementTree as ET
from fractions import Fraction

CELLML_NS = "http://www.cellml.org/cellml/2.0#"
MATHML_NS = "http://www.w3.org/1998/Math/MathML"

PREFIXES = {"yotta": 24, "zetta": 21, "exa": 18, "peta": 15, "tera": 12, "giga": 9, "mega": 6, "kilo": 3, "hecto": 2,
            "deca": 1, "deci": -1, "centi": -2, "milli": -3, "micro": -6, "nano": -9, "pico": -12, "femto": -15,
            "atto": -18, "zepto": -21, "yocto": -24}
STANDARD_UNITS = {"ampere": 0, "becquerel": 0, "candela": 0, "coulomb": 0, "dimensionless": 0, "farad": 0, "gram": -3,
                  "gray": 0, "henry": 0, "hertz": 0, "joule": 0, "katal": 0, "kelvin": 0, "kilogram": 0, "litre": -3,
                  "lumen": 0, "lux": 0, "metre": 0, "mole": 0, "newton": 0, "ohm": 0, "pascal": 0, "radian": 0,
                  "second": 0, "siemens": 0, "sievert": 0, "steradian": 0, "tesla": 0, "volt": 0, "watt": 0, "weber": 0}

RELATIONAL = ("eq", "neq", "lt", "leq", "gt", "geq")
FUN1 = ("abs", "exp", "ln", "floor", "ceiling", "sin", "cos", "tan", "sec", "csc", "cot", "sinh", "cosh", "tanh", "sech",
        "csch", "coth", "arcsin", "arccos", "arctan", "arcsec", "arccsc", "arccot", "arcsinh", "arccosh", "arctanh",
        "arcsech", "arccsch", "arccoth")
CONSTANTS = ("true", "false", "pi", "exponentiale", "infinity", "notanumber")


class EvalError(Exception):
    """the expression has no finite real value here (domain error, overflow, algebraic loop, unsolved system)"""


class Hazard(Exception):
    """strict mode only: the value is (nearly) at a discontinuity or ill-conditioned; a generator should re-draw"""


def number(text):
    """value of a CellML real text (basic real, optionally with e/E exponent) as a float, via Fraction"""
    t = text.strip()
    m = re.fullmatch(r"([+-]?)(\d*)(?:\.(\d*))?(?:[eE]([+-]?\d+))?", t)
    if not m or not (m.group(2) or m.group(3)):
        raise EvalError("not a number: %r" % text)
    sign, ip, fp, ex = m.groups()
    fp = fp or ""
    fr = Fraction(int((ip or "0") + fp), 10 ** len(fp))
    if ex:
        e = int(ex)
        if abs(e) > 400:
            return (0.0 if e < 0 else math.inf) * (-1.0 if sign == "-" else 1.0)
        fr *= Fraction(10) ** e
    if sign == "-":
        fr = -fr
    try:
        return float(fr)
    except OverflowError:
        return math.inf if fr > 0 else -math.inf


# --------------------------------------------------------------------------- expressions
def _truth(x):
    return x != 0.0


def _b(v):
    return 1.0 if v else 0.0


class Evaluator:
    """ev(expr, env): env maps a variable name to its float value, and ("diff", x, t) tuples to rate values."""

    def __init__(self, strict=False):
        self.strict = strict

    def hz(self, cond, what):
        if self.strict and cond:
            raise Hazard(what)

    def ev(self, e, env):
        try:
            v = self._ev(e, env)
        except (ValueError, ZeroDivisionError, OverflowError) as ex:
            raise EvalError("%s in %r" % (ex, e[:2]))
        if self.strict and not (e[0] == "k" and e[1] == "infinity"):
            if v != v or v in (math.inf, -math.inf):
                raise Hazard("non-finite")
            if abs(v) > 1e6:
                raise Hazard("large")
        return v

    def _ev(self, e, env):
        t = e[0]
        if t == "cn":
            return number(e[1])
        if t == "cne":
            return number(e[1].strip() + "e" + e[2].strip())
        if t == "ci":
            try:
                return env[e[1]]
            except KeyError:
                raise EvalError("unknown variable %r" % (e[1],))
        if t == "k":
            return {"true": 1.0, "false": 0.0, "pi": math.pi, "exponentiale": math.e, "infinity": math.inf,
                    "notanumber": math.nan}[e[1]]
        if t == "diff":
            try:
                return env[("diff", e[1], e[2])]
            except KeyError:
                raise EvalError("rate of %r not available" % (e[1],))
        if t == "pw":
            for val, cond in e[1]:
                c = self.ev(cond, env)
                if _truth(c):
                    return self.ev(val, env)
            if e[2] is not None:
                return self.ev(e[2], env)
            return math.nan
        if t != "ap":
            raise EvalError("unknown node %r" % (t,))
        op = e[1]
        qual = e[3] if len(e) > 3 else None
        a = [self.ev(x, env) for x in e[2]]
        hz = self.hz
        if op == "plus":
            s = math.fsum(a) if len(a) > 2 else sum(a)
            if len(a) >= 2:
                hz(abs(s) < 1e-6 * max(abs(x) for x in a), "cancellation")
            return s
        if op == "minus":
            if len(a) == 1:
                return -a[0]
            hz(abs(a[0] - a[1]) < 1e-6 * max(abs(a[0]), abs(a[1])), "cancellation")
            return a[0] - a[1]
        if op == "times":
            p = 1.0
            for x in a:
                p *= x
            return p
        if op == "divide":
            hz(abs(a[1]) < 1e-3, "small divisor")
            return a[0] / a[1]
        if op == "power":
            hz(a[0] < 1e-3 and not (e[2][1][0] == "cn" and float(a[1]).is_integer() and abs(a[0]) > 1e-3), "power base")
            hz(abs(a[1]) > 8 or abs(a[0]) > 1e3, "power size")
            return math.pow(a[0], a[1])
        if op == "root":
            if qual is None:
                hz(a[0] < 1e-3, "root of small/negative")
                return math.sqrt(a[0])
            d = self.ev(qual, env)
            hz(a[0] < 1e-3 or abs(d) < 0.2 or abs(d) > 8 or abs(a[0]) > 1e3, "root domain")
            return math.pow(a[0], 1.0 / d)
        if op == "log":
            hz(a[0] < 1e-3, "log of small/negative")
            if qual is None:
                return math.log10(a[0])
            b = self.ev(qual, env)
            hz(b < 1e-3 or abs(b - 1.0) < 0.05, "log base")
            return math.log(a[0]) / math.log(b)
        if op == "min":
            m = a[-1]
            for x in reversed(a[:-1]):
                hz(abs(x - m) < 1e-6, "min tie")
                m = x if x < m else m
            return m
        if op == "max":
            m = a[-1]
            for x in reversed(a[:-1]):
                hz(abs(x - m) < 1e-6, "max tie")
                m = x if x > m else m
            return m
        if op == "rem":
            hz(abs(a[1]) < 1e-3, "rem by small")
            if self.strict:
                q = a[0] / a[1]
                hz(abs(q - round(q)) < 1e-6 or abs(q) > 1e6, "rem near multiple")
            return math.fmod(a[0], a[1])
        if op in RELATIONAL:
            x, y = a
            hz(abs(x - y) < 1e-6, "comparison nearly tied")
            return _b({"eq": x == y, "neq": x != y, "lt": x < y, "leq": x <= y, "gt": x > y, "geq": x >= y}[op])
        if op == "and":
            return _b(all(_truth(x) for x in a))
        if op == "or":
            return _b(any(_truth(x) for x in a))
        if op == "xor":
            r = False
            for x in a:
                r ^= _truth(x)
            return _b(r)
        if op == "not":
            return _b(not _truth(a[0]))
        x = a[0]
        if op == "abs":
            return abs(x)
        if op == "exp":
            hz(abs(x) > 12, "exp size")
            return math.exp(x)
        if op == "ln":
            hz(x < 1e-3, "ln of small/negative")
            return math.log(x)
        if op == "floor":
            hz(abs(x - round(x)) < 1e-6 or abs(x) > 1e9, "floor near integer")
            return float(math.floor(x))
        if op == "ceiling":
            hz(abs(x - round(x)) < 1e-6 or abs(x) > 1e9, "ceiling near integer")
            return float(math.ceil(x))
        if op in ("sin", "cos", "tan", "sec", "csc", "cot"):
            hz(abs(x) > 1e3, "trig argument size")
            s, c = math.sin(x), math.cos(x)
            if op in ("tan", "sec"):
                hz(abs(c) < 1e-3, "near pole")
            if op in ("cot", "csc"):
                hz(abs(s) < 1e-3, "near pole")
            if op == "cot":
                hz(abs(c) < 1e-3, "cot near pole of tan")
            return {"sin": lambda: s, "cos": lambda: c, "tan": lambda: math.tan(x), "sec": lambda: 1.0 / c,
                    "csc": lambda: 1.0 / s, "cot": lambda: 1.0 / math.tan(x)}[op]()
        if op in ("sinh", "cosh", "tanh", "sech", "csch", "coth"):
            hz(abs(x) > 12, "hyperbolic size")
            if op in ("csch", "coth"):
                hz(abs(x) < 1e-3, "near pole")
            return {"sinh": lambda: math.sinh(x), "cosh": lambda: math.cosh(x), "tanh": lambda: math.tanh(x),
                    "sech": lambda: 1.0 / math.cosh(x), "csch": lambda: 1.0 / math.sinh(x),
                    "coth": lambda: 1.0 / math.tanh(x)}[op]()
        if op in ("arcsin", "arccos"):
            hz(abs(x) > 0.999, "domain edge")
            return math.asin(x) if op == "arcsin" else math.acos(x)
        if op == "arctan":
            return math.atan(x)
        if op in ("arcsec", "arccsc"):
            hz(abs(x) < 1.001, "domain edge")
            return math.acos(1.0 / x) if op == "arcsec" else math.asin(1.0 / x)
        if op == "arccot":
            hz(abs(x) < 1e-3, "arccot jump at 0")
            return math.atan(1.0 / x)
        if op == "arcsinh":
            return math.asinh(x)
        if op == "arccosh":
            hz(x < 1.001, "domain edge")
            return math.acosh(x)
        if op == "arctanh":
            hz(abs(x) > 0.999, "domain edge")
            return math.atanh(x)
        if op == "arcsech":
            hz(x < 1e-3 or x > 0.999, "domain edge")
            return math.acosh(1.0 / x)
        if op == "arccsch":
            hz(abs(x) < 1e-3, "near pole")
            return math.asinh(1.0 / x)
        if op == "arccoth":
            hz(abs(x) < 1.001, "domain edge")
            return math.atanh(1.0 / x)
        raise EvalError("unknown operator %r" % (op,))


def variables_in(e, acc=None, diffs=None):
    """names under <ci> (not inside diff) -> acc (list, in order, no duplicates); diff nodes -> diffs"""
    acc = [] if acc is None else acc
    diffs = [] if diffs is None else diffs
    t = e[0]
    if t == "ci":
        if e[1] not in acc:
            acc.append(e[1])
    elif t == "diff":
        if (e[1], e[2]) not in diffs:
            diffs.append((e[1], e[2]))
    elif t == "ap":
        if len(e) > 3 and e[3] is not None:
            variables_in(e[3], acc, diffs)
        for x in e[2]:
            variables_in(x, acc, diffs)
    elif t == "pw":
        for v, c in e[1]:
            variables_in(v, acc, diffs)
            variables_in(c, acc, diffs)
        if e[2] is not None:
            variables_in(e[2], acc, diffs)
    return acc, diffs


# --------------------------------------------------------------------------- units
def units_multipliers(desc):
    """{units name: multiplier (Fraction when exact, else float)} for the standard units and the model's units"""
    defs = {u["name"]: u for u in desc.get("units", [])}
    memo = {}

    def mult(name, stack=()):
        if name in memo:
            return memo[name]
        if name in stack:
            raise EvalError("cyclic units %s" % name)
        if name in defs:
            m = Fraction(1)
            for ch in defs[name]["unit"]:
                pre = ch.get("prefix")
                if pre in (None, ""):
                    p = 0
                elif pre in PREFIXES:
                    p = PREFIXES[pre]
                else:
                    p = int(pre)
                mu = ch.get("multiplier")
                mu = Fraction(1) if mu in (None, "") else _frac(mu)
                ex = ch.get("exponent")
                ex = Fraction(1) if ex in (None, "") else _frac(ex)
                base = Fraction(10) ** p * mult(ch["units"], stack + (name,))
                if ex.denominator == 1 and not isinstance(base, float):
                    term = base ** int(ex)
                else:
                    term = float(base) ** float(ex)
                m = m * mu * term if not isinstance(term, float) else float(m) * float(mu) * term
            memo[name] = m
        elif name in STANDARD_UNITS:
            memo[name] = Fraction(10) ** STANDARD_UNITS[name]
        else:
            raise EvalError("unknown units %r" % (name,))
        return memo[name]

    for n in list(defs) + list(STANDARD_UNITS):
        mult(n)
    return memo


def _frac(text):
    t = text.strip()
    m = re.fullmatch(r"([+-]?)(\d*)(?:\.(\d*))?(?:[eE]([+-]?\d+))?", t)
    if not m or not (m.group(2) or m.group(3)):
        raise EvalError("not a number: %r" % text)
    sign, ip, fp, ex = m.groups()
    fp = fp or ""
    fr = Fraction(int((ip or "0") + fp), 10 ** len(fp))
    if ex:
        fr *= Fraction(10) ** int(ex)
    return -fr if sign == "-" else fr


# --------------------------------------------------------------------------- whole models
class Result:
    """Outcome of `evaluate`.  Q values are per equivalence class (index into .classes)."""

    def __init__(self):
        self.classes = []        # list of lists of (component, variable)
        self.class_of = {}       # (component, variable) -> class index
        self.units_of = {}       # (component, variable) -> units name
        self.mult = {}           # units name -> multiplier
        self.kind = {}           # class index -> "voi" | "state" | "constant" | "computed" | "nla"
        self.q = {}              # class index -> quantity (float), in multiplier-1 units
        self.rate_q = {}         # state class index -> dQ/dQvoi
        self.voi_class = None
        self.nla_systems = []    # list of (list of unknown class indices, list of (component, lhs, rhs))
        self.errors = {}         # class index -> message, for classes that could not be evaluated

    def m(self, key):
        return float(self.mult[self.units_of[key]])

    def var_value(self, comp, name):
        """value of variable `name` of component `comp` in that variable's own units"""
        key = (comp, name)
        k = self.class_of[key]
        if k in self.errors:
            raise EvalError(self.errors[k])
        return self.q[k] / self.m(key)

    def rate_value(self, xkey, tkey):
        """d x / d t in units(x)/units(t), x = (component, name) of a state variable, t likewise of the voi"""
        k = self.class_of[tuple(xkey)]
        if ("rate", k) in self.errors:
            raise EvalError(self.errors[("rate", k)])
        return self.rate_q[k] * self.m(tuple(tkey)) / self.m(tuple(xkey))

    def kind_of(self, comp, name):
        return self.kind.get(self.class_of[(comp, name)])


def equivalence_classes(desc):
    parent = {}
    order = []
    for c in desc["components"]:
        for v in c["variables"]:
            k = (c["name"], v["name"])
            parent[k] = k
            order.append(k)

    def find(x):
        while parent[x] != x:
            parent[x] = parent[parent[x]]
            x = parent[x]
        return x
    for c1, v1, c2, v2 in desc.get("connections", []):
        a, b = find((c1, v1)), find((c2, v2))
        if a != b:
            parent[b] = a
    classes, idx = [], {}
    class_of = {}
    for k in order:
        r = find(k)
        if r not in idx:
            idx[r] = len(classes)
            classes.append([])
        classes[idx[r]].append(k)
        class_of[k] = idx[r]
    return classes, class_of


def evaluate(desc, voi=0.0, voi_var=None, states=None, strict=False, nla_guess=None):
    """Evaluate every equivalence class of the model.

    voi       value of the variable of integration, expressed in the units of `voi_var` = (component, name); when
              voi_var is None: in the units of the voi-class member of the first component (document order) that
              has one (the same rule the analyser uses for its primary voi variable).
    states    optional {(component, name): value} overriding state values (in that variable's units).
    strict    raise Hazard where the model is ill-conditioned / nearly discontinuous (generator use).
    Returns a Result; classes that cannot be evaluated are listed in Result.errors (strict: the exception is raised).
    """
    ev = Evaluator(strict)
    res = Result()
    res.mult = units_multipliers(desc)
    res.classes, res.class_of = equivalence_classes(desc)
    comps = {c["name"]: c for c in desc["components"]}
    init = {}
    for c in desc["components"]:
        for v in c["variables"]:
            res.units_of[(c["name"], v["name"])] = v["units"]
            if v.get("initial_value") not in (None, ""):
                init.setdefault(res.class_of[(c["name"], v["name"])], ((c["name"], v["name"]), v["initial_value"]))
    cls = lambda comp, name: res.class_of[(comp, name)]

    eqs = [(c["name"], e[0], e[1]) for c in desc["components"] for e in c.get("equations", [])]
    state_classes, voi_classes = set(), set()
    for comp, lhs, rhs in eqs:
        for side in (lhs, rhs):
            _, diffs = variables_in(side)
            for x, t in diffs:
                if (comp, x) not in res.class_of or (comp, t) not in res.class_of:
                    raise EvalError("diff over unknown variable in %s" % comp)
                state_classes.add(cls(comp, x))
                voi_classes.add(cls(comp, t))
    if len(voi_classes) > 1:
        raise EvalError("several variables of integration")
    res.voi_class = next(iter(voi_classes)) if voi_classes else None

    # which equation defines what: repeated elimination of unknowns (document order must not matter).
    # known = voi, states, initialised variables; an equation with exactly one unknown class that stands alone (bare
    # <ci>) on one of its sides defines it; an equation with a diff on one side defines that rate when everything
    # else in it is known or is a bare definable <ci> handled above; what remains is implicit (NLA).
    ode_def, expl_def, implicit = {}, {}, []
    known = set(init) | set(state_classes) | ({res.voi_class} if res.voi_class is not None else set())
    pending = []
    for comp, lhs, rhs in eqs:
        names, diffs = variables_in(("ap", "minus", [lhs, rhs], None))
        ks = []
        for n in names:
            if (comp, n) not in res.class_of:
                raise EvalError("unknown variable %r in component %s" % (n, comp))
            k = cls(comp, n)
            if k not in ks:
                ks.append(k)
        pending.append((comp, lhs, rhs, ks))
    # rates first: `d x/d t = rhs` (or `lhs = d x/d t` when lhs is not a lone unknown variable)
    rest = []
    for comp, lhs, rhs, ks in pending:
        if lhs[0] == "diff" and cls(comp, lhs[1]) not in ode_def:
            ode_def[cls(comp, lhs[1])] = (comp, lhs, rhs)
        elif rhs[0] == "diff" and cls(comp, rhs[1]) not in ode_def and \
                not (lhs[0] == "ci" and cls(comp, lhs[1]) not in known):
            ode_def[cls(comp, rhs[1])] = (comp, rhs, lhs)
        else:
            rest.append((comp, lhs, rhs, ks))
    progress = True
    while progress and rest:
        progress = False
        for item in list(rest):
            comp, lhs, rhs, ks = item
            unknown = [k for k in ks if k not in known]
            if len(unknown) != 1:
                continue
            u = unknown[0]
            if lhs[0] == "ci" and cls(comp, lhs[1]) == u and u not in variables_classes(res, comp, rhs):
                expl_def[u] = (comp, lhs[1], rhs)
            elif rhs[0] == "ci" and cls(comp, rhs[1]) == u and u not in variables_classes(res, comp, lhs):
                expl_def[u] = (comp, rhs[1], lhs)
            else:
                continue
            known.add(u)
            rest.remove(item)
            progress = True
    implicit = [(comp, lhs, rhs) for comp, lhs, rhs, ks in rest]

    # NLA systems
    unknown_of_eq = []
    for comp, lhs, rhs in implicit:
        names, diffs = variables_in(("ap", "minus", [lhs, rhs], None))
        if diffs:
            raise EvalError("rates inside implicit equations are not supported by the reference evaluator")
        ks = []
        for n in names:
            k = cls(comp, n)
            if k not in ks:
                ks.append(k)
        free = [k for k in ks if k not in init and k not in expl_def and k not in state_classes and k != res.voi_class]
        if not free:
            free = [k for k in ks if k in init and k not in state_classes and k != res.voi_class]
        unknown_of_eq.append(free)
    systems = []
    for i, un in enumerate(unknown_of_eq):
        hit = [s for s in systems if set(s[0]) & set(un)]
        merged = ([], [])
        for s in hit:
            systems.remove(s)
            merged = (merged[0] + [k for k in s[0] if k not in merged[0]], merged[1] + s[1])
        merged = (merged[0] + [k for k in un if k not in merged[0]], merged[1] + [implicit[i]])
        systems.append(merged)
    res.nla_systems = systems
    nla_of = {}
    for s in systems:
        for k in s[0]:
            nla_of[k] = s

    for k in range(len(res.classes)):
        if k == res.voi_class:
            res.kind[k] = "voi"
        elif k in state_classes:
            res.kind[k] = "state"
        elif k in nla_of:
            res.kind[k] = "nla"
        elif k in expl_def:
            res.kind[k] = "computed"
        elif k in init:
            res.kind[k] = "constant"
        else:
            res.kind[k] = "undefined"

    # voi
    if res.voi_class is not None:
        if voi_var is None:
            voi_var = res.classes[res.voi_class][0]
            for c in desc["components"]:
                mem = [m for m in res.classes[res.voi_class] if m[0] == c["name"]]
                if mem:
                    voi_var = mem[0]
                    break
        res.q[res.voi_class] = float(voi) * res.m(tuple(voi_var))
    res.voi_var = voi_var

    override = {}
    for key, val in (states or {}).items():
        override[res.class_of[tuple(key)]] = float(val) * res.m(tuple(key))

    busy = set()
    trial = {}

    def q_of(k):
        if k in trial:
            return trial[k]
        if k in res.q:
            return res.q[k]
        if k in busy:
            raise EvalError("algebraic loop through %s" % (res.classes[k][0],))
        busy.add(k)
        try:
            kind = res.kind[k]
            if kind in ("state", "constant"):
                if k in override:
                    v = override[k]
                else:
                    if k not in init:
                        raise EvalError("state %s is not initialised" % (res.classes[k][0],))
                    key, text = init[k]
                    if re.fullmatch(r"[+-]?(\d+\.?\d*|\.\d+)([eE][+-]?\d+)?", text.strip()):
                        v = number(text) * res.m(key)
                    else:
                        # initial_value="name": the value of variable `name` of the same component (a number in
                        # that variable's own units) becomes the initial value, read in the initialised variable's units
                        ref = (key[0], text.strip())
                        if ref not in res.class_of:
                            raise EvalError("initial value %r of %s is neither a number nor a variable" % (text, key))
                        v = q_of(res.class_of[ref]) / res.m(ref) * res.m(key)
            elif kind == "computed":
                comp, name, rhs = expl_def[k]
                v = ev.ev(rhs, Env(comp)) * res.m((comp, name))
            elif kind == "nla":
                solve(nla_of[k])
                v = res.q[k]
            else:
                raise EvalError("variable %s is not defined by the model" % (res.classes[k][0],))
        finally:
            busy.discard(k)
        res.q[k] = v
        return v

    def rate_of(k):
        if k in res.rate_q:
            return res.rate_q[k]
        if k not in ode_def:
            raise EvalError("no ODE for %s" % (res.classes[k][0],))
        if ("rate", k) in busy:
            raise EvalError("loop through the rate of %s" % (res.classes[k][0],))
        busy.add(("rate", k))
        try:
            comp, d, rhs = ode_def[k]
            v = ev.ev(rhs, Env(comp)) * res.m((comp, d[1])) / res.m((comp, d[2]))
        finally:
            busy.discard(("rate", k))
        res.rate_q[k] = v
        return v

    class Env:
        def __init__(self, comp):
            self.comp = comp

        def __getitem__(self, name):
            if isinstance(name, tuple):          # ("diff", x, t)
                _, x, t = name
                return rate_of(cls(self.comp, x)) * res.m((self.comp, t)) / res.m((self.comp, x))
            key = (self.comp, name)
            if key not in res.class_of:
                raise KeyError(name)
            return q_of(res.class_of[key]) / res.m(key)

    def solve(system):
        unknowns, equations = system
        n = len(unknowns)
        if n != len(equations):
            raise EvalError("NLA system with %d unknowns and %d equations" % (n, len(equations)))
        scale = []
        u = []
        for k in unknowns:
            key = init[k][0] if k in init else res.classes[k][0]
            scale.append(res.m(key))
            g = number(init[k][1]) if k in init else 0.0
            if nla_guess and k in nla_guess:
                g = nla_guess[k]
            u.append(g)
        plain = Evaluator(False)

        def f(uv):
            for k, x, s in zip(unknowns, uv, scale):
                trial[k] = x * s
            keep_q, keep_r = set(res.q), set(res.rate_q)
            try:
                return [plain.ev(l, Env(c)) - plain.ev(r, Env(c)) for c, l, r in equations]
            finally:
                for k in unknowns:
                    trial.pop(k, None)
                # values memoised while trial values were bound may depend on them: forget them
                for k in [k for k in res.q if k not in keep_q]:
                    del res.q[k]
                for k in [k for k in res.rate_q if k not in keep_r]:
                    del res.rate_q[k]
        ok = False
        for it in range(100):
            fu = f(u)
            nf = max(abs(x) for x in fu)
            if nf != nf:
                raise EvalError("NLA residual is NaN")
            if nf <= 1e-14:
                ok = True
                break
            jac = [[0.0] * n for _ in range(n)]
            for j in range(n):
                h = 1e-7 * max(1.0, abs(u[j]))
                up = list(u)
                up[j] += h
                fp = f(up)
                for i in range(n):
                    jac[i][j] = (fp[i] - fu[i]) / h
            du = _solve_linear(jac, [-x for x in fu])
            if du is None:
                raise EvalError("singular Jacobian in NLA system")
            lam, better = 1.0, False
            for _ in range(30):
                un = [u[i] + lam * du[i] for i in range(n)]
                try:
                    f2 = f(un)
                    n2 = max(abs(x) for x in f2)
                except EvalError:
                    n2 = math.nan
                if n2 == n2 and n2 < nf:
                    better = True
                    break
                lam *= 0.5
            if not better:
                ok = nf <= 1e-10
                break
            u = un
        if not ok and max(abs(x) for x in f(u)) > 1e-10:
            raise EvalError("NLA system did not converge")
        for k, x, s in zip(unknowns, u, scale):
            res.q[k] = x * s

    for k in range(len(res.classes)):
        try:
            if res.kind[k] != "voi":
                q_of(k)
        except EvalError as ex:
            if strict:
                raise
            res.errors[k] = str(ex)
    for k in sorted(state_classes):
        try:
            rate_of(k)
        except EvalError as ex:
            if strict:
                raise
            res.errors[("rate", k)] = str(ex)
    res.ode_def, res.expl_def, res.init = ode_def, expl_def, init
    res.state_classes = state_classes
    return res


def variables_classes(res, comp, e):
    """classes of the variables mentioned (as <ci> or under diff) in expression e of component comp"""
    names, diffs = variables_in(e)
    return {res.class_of[(comp, n)] for n in names} | {res.class_of[(comp, x)] for x, t in diffs}


def _definable(res, init, state_classes, expl_def, comp, ci):
    key = (comp, ci[1])
    if key not in res.class_of:
        return False
    k = res.class_of[key]
    return k not in init and k not in state_classes and k not in expl_def


def _solve_linear(a, b):
    n = len(b)
    a = [row[:] for row in a]
    b = b[:]
    for c in range(n):
        p = max(range(c, n), key=lambda r: abs(a[r][c]))
        if not abs(a[p][c]) > 0.0:
            return None
        a[c], a[p] = a[p], a[c]
        b[c], b[p] = b[p], b[c]
        for r in range(c + 1, n):
            m = a[r][c] / a[c][c]
            for k in range(c, n):
                a[r][k] -= m * a[c][k]
            b[r] -= m * b[c]
    for i in range(n - 1, -1, -1):
        s = b[i]
        for k in range(i + 1, n):
            s -= a[i][k] * b[k]
        b[i] = s / a[i][i]
    return b


def nla_residuals(desc, res, system, voi=0.0):
    """residuals lhs-rhs of the reference equations of `system` at the reference solution (sanity of the solution)"""
    ev = Evaluator(False)

    class Env:
        def __init__(self, comp):
            self.comp = comp

        def __getitem__(self, name):
            return res.var_value(self.comp, name)
    return [ev.ev(l, Env(c)) - ev.ev(r, Env(c)) for c, l, r in system[1]]


# --------------------------------------------------------------------------- CellML text -> description
def _local(tag):
    return tag.split("}", 1)[1] if "}" in tag else tag


def parse_cellml(text):
    """CellML 2.0 text -> model description (only what the evaluator needs; no validation)"""
    root = ET.fromstring(text.encode("utf-8") if isinstance(text, str) else text)
    if _local(root.tag) != "model":
        raise EvalError("not a CellML model")
    desc = {"name": root.get("name"), "units": [], "components": [], "connections": []}
    for el in root:
        tag = _local(el.tag)
        if tag == "units":
            desc["units"].append({"name": el.get("name"), "unit": [
                {"units": u.get("units"), "prefix": u.get("prefix"), "multiplier": u.get("multiplier"),
                 "exponent": u.get("exponent")} for u in el if _local(u.tag) == "unit"]})
        elif tag == "component":
            comp = {"name": el.get("name"), "variables": [], "equations": []}
            for ch in el:
                t2 = _local(ch.tag)
                if t2 == "variable":
                    comp["variables"].append({"name": ch.get("name"), "units": ch.get("units"),
                                              "initial_value": ch.get("initial_value"), "interface": ch.get("interface")})
                elif t2 == "math":
                    for eqn in ch:
                        ex = _parse_math(eqn)
                        if ex[0] != "ap" or ex[1] != "eq" or len(ex[2]) != 2:
                            raise EvalError("top-level math element is not an equation")
                        comp["equations"].append([ex[2][0], ex[2][1]])
            desc["components"].append(comp)
        elif tag == "connection":
            c1, c2 = el.get("component_1"), el.get("component_2")
            for mv in el:
                if _local(mv.tag) == "map_variables":
                    desc["connections"].append([c1, mv.get("variable_1"), c2, mv.get("variable_2")])
    return desc


def _cn_units(el):
    for k, v in el.attrib.items():
        if _local(k) == "units":
            return v
    return None


def _parse_math(el):
    tag = _local(el.tag)
    if tag == "cn":
        if el.get("type") == "e-notation":
            sep = list(el)[0]
            return ("cne", (el.text or "").strip(), (sep.tail or "").strip(), _cn_units(el))
        return ("cn", (el.text or "").strip(), _cn_units(el))
    if tag == "ci":
        return ("ci", (el.text or "").strip())
    if tag in CONSTANTS:
        return ("k", tag)
    if tag == "piecewise":
        pieces, other = [], None
        for ch in el:
            t2 = _local(ch.tag)
            kids = list(ch)
            if t2 == "piece":
                pieces.append([_parse_math(kids[0]), _parse_math(kids[1])])
            elif t2 == "otherwise":
                other = _parse_math(kids[0])
        return ("pw", pieces, other)
    if tag == "apply":
        kids = list(el)
        op = _local(kids[0].tag)
        if op == "diff":
            t = x = None
            for k in kids[1:]:
                if _local(k.tag) == "bvar":
                    t = (list(k)[0].text or "").strip()
                else:
                    x = (k.text or "").strip()
            return ("diff", x, t)
        qual, args = None, []
        for k in kids[1:]:
            t2 = _local(k.tag)
            if t2 in ("degree", "logbase"):
                qual = _parse_math(list(k)[0])
            else:
                args.append(_parse_math(k))
        return ("ap", op, args, qual)
    raise EvalError("unsupported MathML element %r" % tag)
