"""Shared machinery for the /verif checks (see DESIGN.md section 2).

Everything a check needs: a cached build of /repo's *working tree* (hooks on), compilation of the
C++ drivers against it, the Coq build with per-property obligation accounting, extraction and the
OCaml drivers, case-file correspondence, known findings, evidence and the final report.
"""
import fcntl
import hashlib
import json
import os
import random
import re
import shutil
import subprocess
import sys
import time

ROOT = os.path.dirname(os.path.dirname(os.path.abspath(__file__)))
REPO = os.environ.get("VERIF_REPO", "/repo")
WORK = os.path.join(ROOT, ".work")
BUILD = os.path.join(ROOT, ".build")
COQ = os.path.join(ROOT, "coq")
GUARD = "LIBCELLML_VERIF"
NCPU = os.cpu_count() or 4

FORBIDDEN = re.compile(
    r"\b(Admitted|admit|Axiom|Axioms|Parameter|Parameters|Conjecture|Conjectures|Admit Obligations|"
    r"Unset Guard Checking|Unset Positivity Checking|Unset Universe Checking|bypass_check|"
    r"type-in-type|impredicative-set)\b")


def sh(cmd, cwd=None, timeout=None, env=None, input=None, check=False):
    """Run a command, return (rc, stdout+stderr)."""
    e = dict(os.environ)
    if env:
        e.update(env)
    try:
        p = subprocess.run(cmd, cwd=cwd, timeout=timeout, env=e, input=input,
                           stdout=subprocess.PIPE, stderr=subprocess.STDOUT,
                           shell=isinstance(cmd, str))
        out = p.stdout.decode("utf-8", "replace") if isinstance(p.stdout, bytes) else p.stdout
        rc = p.returncode
    except subprocess.TimeoutExpired as ex:
        out = (ex.stdout or b"").decode("utf-8", "replace") + "\nTIMEOUT"
        rc = 124
    if check and rc != 0:
        raise RuntimeError("command failed (%s): %s\n%s" % (rc, cmd, out[-4000:]))
    return rc, out


class Lock:
    def __init__(self, name):
        os.makedirs(WORK, exist_ok=True)
        self.path = os.path.join(WORK, name + ".lock")

    def __enter__(self):
        self.f = open(self.path, "w")
        fcntl.flock(self.f, fcntl.LOCK_EX)
        return self

    def __exit__(self, *a):
        fcntl.flock(self.f, fcntl.LOCK_UN)
        self.f.close()


# --------------------------------------------------------------------------- build of /repo

def _hash_tree(paths):
    h = hashlib.sha256()
    for top in paths:
        if os.path.isfile(top):
            files = [top]
        else:
            files = []
            for d, ds, fs in os.walk(top):
                ds.sort()
                if "/bindings" in d:
                    continue
                for f in sorted(fs):
                    files.append(os.path.join(d, f))
        for f in files:
            h.update(f.encode())
            with open(f, "rb") as fh:
                h.update(fh.read())
    return h.hexdigest()[:16]


def repo_hash():
    return _hash_tree([os.path.join(REPO, "src"), os.path.join(REPO, "CMakeLists.txt"),
                       os.path.join(REPO, "cmake")])


class Build:
    def __init__(self, d, variant):
        self.dir = d
        self.variant = variant
        self.lib = os.path.join(d, "src", "libcellmld.a")
        self.san = ["-fsanitize=address,undefined", "-fno-sanitize-recover=all",
                    "-fno-omit-frame-pointer"] if variant == "asan" else []
        self.inc = ["-I" + os.path.join(REPO, "src"),
                    "-I" + os.path.join(REPO, "src/api/libcellml/module"),
                    "-I" + os.path.join(REPO, "src/api"),
                    "-I" + os.path.join(d, "src/api"),
                    "-I" + os.path.join(d, "src"),
                    "-I/usr/include/libxml2",
                    "-I" + os.path.join(ROOT, "harness/common")]
        self.key = os.path.basename(d)


def build_repo(variant="plain"):
    """Static build of /repo's working tree with -DLIBCELLML_VERIF; cached by content hash."""
    os.makedirs(BUILD, exist_ok=True)
    with Lock("build"):
        key = repo_hash() + "-" + variant
        d = os.path.join(BUILD, key)
        ok = os.path.join(d, ".ok")
        if os.path.exists(ok):
            os.utime(ok)
            os.utime(d)
            return Build(d, variant)
        # prune: keep the 8 most recently used build dirs, and never one used in the last 3 hours
        def last_used(x):
            f = os.path.join(BUILD, x, ".ok")
            return os.path.getmtime(f) if os.path.exists(f) else os.path.getmtime(os.path.join(BUILD, x))
        olds = sorted((x for x in os.listdir(BUILD) if os.path.isdir(os.path.join(BUILD, x))), key=last_used)
        for x in olds[:-8]:
            if time.time() - last_used(x) > 3 * 3600:
                shutil.rmtree(os.path.join(BUILD, x), ignore_errors=True)
        shutil.rmtree(d, ignore_errors=True)
        flags = "-D%s -O1" % GUARD
        if variant == "asan":
            flags += " -fsanitize=address,undefined -fno-sanitize-recover=all -fno-omit-frame-pointer"
        cfg = ["cmake", "-G", "Ninja", "-S", REPO, "-B", d,
               "-DLIBCELLML_BUILD_SHARED=OFF", "-DLIBCELLML_UNIT_TESTS=OFF",
               "-DLIBCELLML_BINDINGS_PYTHON=OFF", "-DLIBCELLML_COVERAGE=OFF",
               "-DLIBCELLML_MEMCHECK=OFF", "-DLIBCELLML_TREAT_WARNINGS_AS_ERRORS=OFF",
               "-DLIBCELLML_COMPILER_CACHE=OFF", "-DLIBCELLML_BUILD_TYPE=Debug",
               "-DLIBCELLML_CLANG_TIDY=OFF", "-DLIBCELLML_LLVM_COVERAGE=OFF",
               "-DCMAKE_CXX_FLAGS=" + flags]
        rc, out = sh(cfg, timeout=600)
        if rc != 0:
            raise BuildError("cmake configure failed:\n" + out[-3000:])
        rc, out = sh(["ninja", "-C", d], timeout=1800)
        if rc != 0:
            raise BuildError("build of /repo failed:\n" + out[-3000:])
        open(ok, "w").write(key)
        return Build(d, variant)


class BuildError(Exception):
    pass


def compile_driver(build, src, extra_src=(), extra_flags=()):
    """Compile a C++ driver against the fresh static library. Cached on (sources, build)."""
    srcs = [src] + list(extra_src)
    h = hashlib.sha256()
    for s in srcs + [os.path.join(ROOT, "harness/common", f)
                     for f in sorted(os.listdir(os.path.join(ROOT, "harness/common")))]:
        h.update(open(s, "rb").read())
    h.update(build.key.encode())
    h.update(" ".join(extra_flags).encode())
    name = os.path.splitext(os.path.basename(src))[0]
    out = os.path.join(build.dir, "drivers", name + "-" + h.hexdigest()[:12])
    with Lock("drv-" + name):
        if os.path.exists(out):
            return out
        os.makedirs(os.path.dirname(out), exist_ok=True)
        xml_libs = sh("/usr/bin/xml2-config --libs")[1].split()
        cmd = (["g++", "-std=c++17", "-O1", "-g", "-D" + GUARD] + build.san + build.inc +
               list(extra_flags) + srcs + [build.lib] + xml_libs + ["-lz", "-ldl", "-o", out + ".tmp"])
        rc, o = sh(cmd, timeout=900)
        if rc != 0:
            raise BuildError("driver %s does not compile against the current tree:\n%s" % (name, o[-4000:]))
        os.rename(out + ".tmp", out)
    return out



def strip_coq_comments(txt):
    """remove (* ... *) comments (nesting) while leaving string literals alone"""
    out, i, n, depth = [], 0, len(txt), 0
    while i < n:
        c = txt[i]
        if depth == 0 and c == '"':
            j = i + 1
            while j < n:
                if txt[j] == '"':
                    if j + 1 < n and txt[j + 1] == '"':
                        j += 2
                        continue
                    break
                j += 1
            out.append(txt[i:j + 1])
            i = j + 1
        elif txt.startswith("(*", i):
            depth += 1
            i += 2
        elif depth > 0 and txt.startswith("*)", i):
            depth -= 1
            i += 2
        else:
            if depth == 0:
                out.append(c)
            i += 1
    return "".join(out)

# --------------------------------------------------------------------------- Coq

def coq_setup():
    """(Re)generate _CoqProject and Makefile from the files present."""
    th = sorted(f for f in os.listdir(os.path.join(COQ, "theories")) if f.endswith(".v"))
    gn = sorted(f for f in os.listdir(os.path.join(COQ, "gen")) if f.endswith(".v"))
    txt = "-Q theories LC\n-Q gen LCGen\n-arg -w -arg -all\n" + \
        "".join("theories/%s\n" % f for f in th) + "".join("gen/%s\n" % f for f in gn)
    p = os.path.join(COQ, "_CoqProject")
    if not os.path.exists(p) or open(p).read() != txt or not os.path.exists(os.path.join(COQ, "Makefile")):
        open(p, "w").write(txt)
        sh("coq_makefile -f _CoqProject -o Makefile", cwd=COQ, check=True)


def coq_closure(start):
    """files (relative to coq/) in the LC/LCGen dependency closure of theories/<start>.v"""
    seen, todo = [], [("theories", start)]
    while todo:
        sub, nm = todo.pop()
        rel = "%s/%s.v" % (sub, nm)
        if rel in seen or not os.path.exists(os.path.join(COQ, rel)):
            continue
        seen.append(rel)
        txt = strip_coq_comments(open(os.path.join(COQ, rel)).read())
        for lib, names in re.findall(r"From\s+(LC|LCGen)\s+Require\s+(?:Import\s+|Export\s+)?([^.]*)\.", txt):
            for n in names.split():
                todo.append(("theories" if lib == "LC" else "gen", n))
        for lib, n in re.findall(r"\b(LC|LCGen)\.([A-Za-z0-9_]+)", txt):
            todo.append(("theories" if lib == "LC" else "gen", n))
    return seen


def scan_forbidden(files=None):
    """forbidden vernacular in the given files (default: everything under coq/)"""
    hits = []
    if files is None:
        files = []
        for sub in ("theories", "gen", "extract"):
            d = os.path.join(COQ, sub)
            files += ["%s/%s" % (sub, f) for f in sorted(os.listdir(d)) if f.endswith(".v")]
    for rel in files:
        txt = strip_coq_comments(open(os.path.join(COQ, rel)).read())
        for m in FORBIDDEN.finditer(txt):
            hits.append("%s: %s" % (rel, m.group(0)))
    return hits


def coq_properties(pid, timeout=1500):
    """Build theories/Properties_<pid>.vo (full .vo build) and account for its theorems.

    Returns dict(ok, obligations, discharged, theorems, assumptions, log, axioms).
    """
    with Lock("coq"):
        regenerate_tables()
        coq_setup()
        pf = os.path.join(COQ, "theories", "Properties_%s.v" % pid)
        src = open(pf).read()
        nocom = strip_coq_comments(src)
        theorems = re.findall(r"^\s*(?:Theorem|Lemma|Corollary|Example)\s+([A-Za-z0-9_']+)", nocom, flags=re.M)
        closure = coq_closure("Properties_%s" % pid)
        forb = scan_forbidden(closure)
        # a regenerated table this property depends on could not be regenerated = broken obligation
        forb += ["gen/%s not regenerated from %s/src: %s" % (g, REPO, e) for g, e in sorted(TRANSLATE_FAILED.items())
                 if "gen/" + g in closure]
        # force re-check of the property file itself so that its output (Print Assumptions) is seen
        for ext in (".vo", ".vok", ".vos", ".glob"):
            try:
                os.remove(pf[:-2] + ext)
            except OSError:
                pass
        t0 = time.time()
        rc, out = sh(["make", "-j%d" % NCPU, "theories/Properties_%s.vo" % pid], cwd=COQ, timeout=timeout)
        dt = time.time() - t0
    res = {"ok": rc == 0 and not forb, "obligations": len(theorems), "discharged": 0,
           "theorems": theorems, "forbidden": forb, "log": out[-6000:], "coq_wall_s": round(dt, 1)}
    # Print Assumptions output: "Closed under the global context" or "Axioms:\n name : type"
    closed = out.count("Closed under the global context")
    axioms = sorted(set(re.findall(r"^([A-Za-z_][A-Za-z0-9_.']*)\s*:", out.split("Axioms:", 1)[1], flags=re.M))) \
        if "Axioms:" in out else []
    res["closed_count"] = closed
    res["axioms"] = axioms
    if rc == 0 and not forb:
        res["discharged"] = len(theorems)
    else:
        # count the theorems that were accepted before the failure, if the failure is in this file
        m = re.search(r'File "\./theories/Properties_%s\.v", line (\d+)' % pid, out)
        if m:
            line = int(m.group(1))
            upto = "\n".join(src.split("\n")[:line - 1])
            res["discharged"] = len(re.findall(r"^\s*(?:Theorem|Lemma|Corollary|Example)\s+", upto, flags=re.M))
        m2 = re.findall(r'File "\./([^"]+)", line (\d+)', out)
        res["failed_at"] = ["%s:%s" % x for x in m2][:5]
    return res


def regenerate_tables():
    """R-gen: rewrite coq/gen/*.v from /repo/src (only when content changed)."""
    sys.path.insert(0, os.path.join(ROOT, "tools"))
    import translate
    global TRANSLATE_FAILED
    TRANSLATE_FAILED = translate.run(REPO, os.path.join(COQ, "gen")) or {}
    return TRANSLATE_FAILED


TRANSLATE_FAILED = {}   # gen file -> error, for translators that no longer understand the source


def ocaml_driver(fam, timeout=900):
    """Extract coq/extract/Extract_<fam>.v and build ocaml/<fam>/driver.ml against it.

    Returns the path of the executable. Re-done when any input changed."""
    with Lock("coq"):
        regenerate_tables()
        coq_setup()
        ex = os.path.join(COQ, "extract", "Extract_%s.v" % fam)
        drv = os.path.join(ROOT, "ocaml", fam, "driver.ml")
        txt = open(ex).read()
        targets = []
        for lib, names in re.findall(r"From\s+(LC|LCGen)\s+Require\s+(?:Import|Export)?\s*([^.]*)\.", txt):
            for nm in names.split():
                targets.append(("theories/%s.vo" if lib == "LC" else "gen/%s.vo") % nm)
        rc, out = sh(["make", "-j%d" % NCPU] + targets, cwd=COQ, timeout=timeout)
        if rc != 0:
            raise BuildError("coq model for %s does not build:\n%s" % (fam, out[-3000:]))
        h = hashlib.sha256()
        h.update(txt.encode())
        h.update(open(drv, "rb").read())
        for t in targets:
            h.update(open(os.path.join(COQ, t), "rb").read())
        key = h.hexdigest()[:12]
        bdir = os.path.join(WORK, "ocaml", fam + "-" + key)
        exe = os.path.join(bdir, "driver")
        if os.path.exists(exe):
            return exe
        for old in [x for x in os.listdir(os.path.join(WORK, "ocaml"))] if os.path.isdir(os.path.join(WORK, "ocaml")) else []:
            if old.startswith(fam + "-"):
                shutil.rmtree(os.path.join(WORK, "ocaml", old), ignore_errors=True)
        os.makedirs(bdir, exist_ok=True)
        rc, out = sh(["coqc", "-Q", os.path.join(COQ, "theories"), "LC", "-Q", os.path.join(COQ, "gen"), "LCGen",
                      "-w", "-all", ex, "-o", os.path.join(bdir, "Extract_%s.vo" % fam)], cwd=bdir, timeout=timeout)
        if rc != 0:
            raise BuildError("extraction for %s failed:\n%s" % (fam, out[-3000:]))
        shutil.copy(drv, os.path.join(bdir, "driver.ml"))
        mls = sorted(f for f in os.listdir(bdir) if f.endswith(".ml") and f != "driver.ml")
        mlis = [f + "i" for f in mls if os.path.exists(os.path.join(bdir, f + "i"))]
        files = []
        for f in mls:
            if f + "i" in mlis:
                files.append(f + "i")
            files.append(f)
        rc, out = sh(["ocamlfind", "ocamlopt", "-O3", "-w", "-a", "-package", "str", "-linkpkg"] + files +
                     ["driver.ml", "-o", "driver"], cwd=bdir, timeout=timeout)
        if rc != 0:
            rc, out = sh(["ocamlfind", "ocamlopt", "-w", "-a", "-package", "str", "-linkpkg"] + files +
                         ["driver.ml", "-o", "driver"], cwd=bdir, timeout=timeout)
        if rc != 0:
            raise BuildError("ocaml driver for %s failed:\n%s" % (fam, out[-3000:]))
        return exe


# --------------------------------------------------------------------------- known findings

def known_findings(pid):
    """open findings for pid from known_findings.json (+ known_findings.d/*.json while a builder is at work)"""
    files = [os.path.join(ROOT, "known_findings.json")]
    d = os.path.join(ROOT, "known_findings.d")
    if os.path.isdir(d):
        files += [os.path.join(d, f) for f in sorted(os.listdir(d)) if f.endswith(".json")]
    out = []
    for p in files:
        if os.path.exists(p):
            out += [f for f in json.load(open(p))["findings"] if f["property"] == pid and f["status"] == "open"]
    return out


# --------------------------------------------------------------------------- report

class Ctx:
    """One run of one check."""

    def __init__(self, pid, tier, seed):
        self.pid = pid
        self.tier = tier
        self.seed = seed
        self.rng = random.Random(seed)
        self.t0 = time.time()
        self.violations = []      # (what, replay_path, no_input)
        self.known_seen = {}      # finding id -> text
        self.known = {f["id"]: f for f in known_findings(pid)}
        self.cov = {"evaluations": 0, "distinct_nontrivial": 0, "rule": "", "samples": [],
                    "obligations": 0, "discharged": 0, "checker_cmd": "", "trusted_base": []}
        self.assumptions = []
        self.level = "proof"
        self.workdir = os.path.join(WORK, pid)
        os.makedirs(self.workdir, exist_ok=True)
        self.replaydir = os.path.join(WORK, "replay", pid)
        os.makedirs(self.replaydir, exist_ok=True)
        self.notes = []

    def quick(self):
        return self.tier == "quick"

    def log(self, *a):
        print("[%s %6.1fs]" % (self.pid, time.time() - self.t0), *a, flush=True)

    def replay(self, name, content):
        p = os.path.join(self.replaydir, name)
        with open(p, "w") as f:
            if isinstance(content, str):
                f.write(content)
            else:
                json.dump(content, f, indent=1, default=str)
        return p

    def violation(self, what, replay_name, content, no_input=False):
        p = self.replay(replay_name, content)
        self.violations.append((what, p, no_input))
        self.log("violation:", what, "->", p)

    def known_finding(self, fid, text):
        """Record that a listed finding was observed. Returns False if fid is not listed (=> caller reports a violation)."""
        if fid in self.known:
            self.known_seen.setdefault(fid, text)
            return True
        return False

    def proofs(self, timeout=1500):
        """Step 1 of every check: kernel re-checks the property theorems."""
        r = coq_properties(self.pid, timeout=timeout)
        self.cov["obligations"] = r["obligations"]
        self.cov["discharged"] = r["discharged"]
        self.cov["theorems"] = r["theorems"]
        self.cov["checker_cmd"] = "make -C coq theories/Properties_%s.vo  (coqc 8.16.1, full .vo build; Print Assumptions under every theorem)" % self.pid
        self.cov["axioms_reported_by_Print_Assumptions"] = r["axioms"] or ["none: all %d Print Assumptions say 'Closed under the global context'" % r["closed_count"]]
        self.cov["coq_wall_s"] = r["coq_wall_s"]
        self.cov["trusted_base"] = [
            "Coq 8.16.1 kernel (coqc, vm_compute; no native_compute)",
            "axioms: " + (", ".join(r["axioms"]) if r["axioms"] else "none"),
            "hand-written Gallina model of the cited functions (tie: correspondence run below)",
            "extraction with ExtrOcamlBasic + ExtrOcamlString; OCaml 4.13.1 ocamlopt; ocaml driver glue",
            "C++ driver glue, g++ 12, python3 generators",
        ]
        self.proof_result = r
        if r["ok"] and self.tier == "thorough":
            # independent re-check of the compiled property file and everything it depends on
            with Lock("coq"):
                t0 = time.time()
                rc, out = sh(["coqchk", "-o", "-silent", "-Q", "theories", "LC", "-Q", "gen", "LCGen", "LC.Properties_%s" % self.pid],
                             cwd=COQ, timeout=2400)
            m = re.search(r"\* Axioms:(.*?)\n\s*\n\* Constants", out, flags=re.S)
            ax = " ".join(m.group(1).split()) if m else "?"
            self.cov["coqchk"] = {"rc": rc, "axioms": ax, "wall_s": round(time.time() - t0, 1),
                                  "cmd": "coqchk -o -silent -Q theories LC -Q gen LCGen LC.Properties_%s" % self.pid}
            self.log("coqchk rc=%d axioms=%s (%.0fs)" % (rc, ax, time.time() - t0))
            if rc != 0:
                r["ok"] = False
                r.setdefault("failed_at", []).append("coqchk: " + out[-400:])
        if not r["ok"]:
            self.log("PROOFS BROKEN", r.get("failed_at"), r["forbidden"])
        else:
            self.log("proofs ok: %d theorems, axioms=%s (%.1fs)" % (r["obligations"], r["axioms"] or "none", r["coq_wall_s"]))
        return r

    def finish(self):
        """Classify, print VIOLATION / KNOWN-FINDING lines, write evidence, return exit code."""
        pr = getattr(self, "proof_result", None)
        if pr is not None and not pr["ok"]:
            real = [v for v in self.violations if not v[2]]
            if not real:
                self.violation("proof obligations of %s no longer check" % self.pid, "broken_obligation.json",
                               {"property": self.pid, "failed_at": pr.get("failed_at"), "forbidden": pr["forbidden"],
                                "log_tail": pr["log"][-3000:]}, no_input=True)
        # a concrete failing input supersedes 'no input' entries
        real = [v for v in self.violations if not v[2]]
        noin = [v for v in self.violations if v[2]]
        shown = real if real else noin[:1]
        for fid, text in sorted(self.known_seen.items()):
            print("KNOWN-FINDING: property=%s %s: %s" % (self.pid, fid, text))
        for what, path, no_input in shown[:5]:
            print("VIOLATION property=%s replay=%s%s" % (self.pid, path, " no-failing-input-found" if no_input else ""))
        wall = time.time() - self.t0
        ev = {"property_id": self.pid, "tier": self.tier, "seed": self.seed, "level": self.level,
              "coverage": self.cov, "assumptions": self.assumptions, "wall_s": round(wall, 1),
              "violations": len(shown),
              "known_findings_observed": sorted(self.known_seen),
              "violation_details": [{"what": w, "replay": p, "no_failing_input": n} for w, p, n in shown[:20]],
              "notes": self.notes}
        os.makedirs(os.path.join(ROOT, "evidence"), exist_ok=True)
        with open(os.path.join(ROOT, "evidence", self.pid + ".json"), "w") as f:
            json.dump(ev, f, indent=1, default=str)
        self.log("done: evaluations=%s distinct_nontrivial=%s violations=%d wall=%.0fs" %
                 (self.cov.get("evaluations"), self.cov.get("distinct_nontrivial"), len(shown), wall))
        return 1 if shown else 0


def run_lines(exe, case_file, timeout=600, env=None):
    """Run a driver on a case file; returns list of output lines (one per case)."""
    rc, out = sh([exe, case_file], timeout=timeout, env=env)
    return rc, out.split("\n")


def diff_lines(a, b):
    """indices where two line lists differ"""
    n = max(len(a), len(b))
    bad = []
    for i in range(n):
        x = a[i] if i < len(a) else "<missing>"
        y = b[i] if i < len(b) else "<missing>"
        if x != y:
            bad.append(i)
    return bad
