"""R-gen translator for C03 (and C17): rewrites, from /repo/src on every run,

  coq/gen/AstTypes.v        the AnalyserEquationAst::Type enumeration (src/api/libcellml/analyserequationast.h)
  coq/gen/ProfileStrings.v  every string / boolean member assigned in GeneratorProfileImpl::loadProfile
                            (src/generatorprofile.cpp), once for the C branch and once for the PYTHON branch
  coq/gen/ProfileMembers.v  (C17) the data members of struct GeneratorProfileImpl, the members loadProfile assigns, and the
                            difference (members that survive setProfile)

Fails loudly (exception => "translation broken" => broken obligation) when the source does not have the
expected shape: unknown right-hand side, a member assigned in one branch only, an enum that cannot be parsed.
"""
import os
import re

from translate import write_if_changed


def _strip_comments(txt):
    out = []
    i, n = 0, len(txt)
    while i < n:
        c = txt[i]
        if c == '"':
            j = i + 1
            while txt[j] != '"':
                j += 2 if txt[j] == "\\" else 1
            out.append(txt[i:j + 1])
            i = j + 1
        elif txt.startswith("//", i):
            j = txt.find("\n", i)
            i = n if j < 0 else j
        elif txt.startswith("/*", i):
            i = txt.index("*/", i) + 2
        else:
            out.append(c)
            i += 1
    return "".join(out)


def _statements(body):
    """split a block body at top-level ';' (outside string literals)"""
    sts, cur, i, n = [], [], 0, len(body)
    while i < n:
        c = body[i]
        if c == '"':
            j = i + 1
            while body[j] != '"':
                j += 2 if body[j] == "\\" else 1
            cur.append(body[i:j + 1])
            i = j + 1
        elif c == ";":
            sts.append("".join(cur).strip())
            cur = []
            i += 1
        else:
            cur.append(c)
            i += 1
    tail = "".join(cur).strip()
    if tail:
        raise ValueError("trailing text in loadProfile branch: %r" % tail[:80])
    return [s for s in sts if s]


_ESC = {"n": "\n", "t": "\t", '"': '"', "\\": "\\", "'": "'", "0": "\0"}


def _c_string_value(expr):
    """value of a sequence of adjacent C string literals; None if expr is not of that shape"""
    i, n, val, seen = 0, len(expr), [], False
    while i < n:
        if expr[i].isspace():
            i += 1
            continue
        if expr[i] != '"':
            return None
        seen = True
        i += 1
        while expr[i] != '"':
            if expr[i] == "\\":
                e = expr[i + 1]
                if e not in _ESC:
                    raise ValueError("unsupported escape \\%s in %r" % (e, expr[:60]))
                val.append(_ESC[e])
                i += 2
            else:
                val.append(expr[i])
                i += 1
        i += 1
    return "".join(val) if seen else None


def _balanced_block(txt, start):
    """txt[start] == '{' -> (body, index after the matching '}')"""
    assert txt[start] == "{"
    depth, i = 0, start
    while True:
        c = txt[i]
        if c == '"':
            i += 1
            while txt[i] != '"':
                i += 2 if txt[i] == "\\" else 1
        elif c == "{":
            depth += 1
        elif c == "}":
            depth -= 1
            if depth == 0:
                return txt[start + 1:i], i + 1
        i += 1


def snake(member):
    """mHasEqOperator -> has_eq_operator ; mEqString -> eq_string"""
    assert member[0] == "m" and member[1].isupper(), member
    s = re.sub(r"(?<!^)(?=[A-Z])", "_", member[1:]).lower()
    return s


def parse_profiles(repo):
    src = _strip_comments(open(os.path.join(repo, "src", "generatorprofile.cpp")).read())
    m = re.search(r"void\s+GeneratorProfile::GeneratorProfileImpl::loadProfile\s*\([^)]*\)\s*\{", src)
    if not m:
        raise ValueError("loadProfile not found")
    body, _ = _balanced_block(src, m.end() - 1)
    m1 = re.search(r"if\s*\(\s*profile\s*==\s*GeneratorProfile::Profile::C\s*\)\s*\{", body)
    if not m1:
        raise ValueError("C branch of loadProfile not found")
    cbody, after = _balanced_block(body, m1.end() - 1)
    m2 = re.match(r"\s*else\s*\{", body[after:])
    if not m2:
        raise ValueError("PYTHON (else) branch of loadProfile not found")
    pbody, after2 = _balanced_block(body, after + m2.end() - 1)
    if body[after2:].strip():
        raise ValueError("unexpected code after the two branches of loadProfile")
    import math
    special = {"convertToString(exp(1.0))": "%.15g" % math.exp(1.0), "convertToString(M_PI)": "%.15g" % math.pi}
    res = []
    for br in (cbody, pbody):
        d, order = {}, []
        for st in _statements(br):
            mm = re.match(r"^(m[A-Z][A-Za-z0-9]*)\s*=\s*(.*)$", st, flags=re.S)
            if not mm:
                raise ValueError("unexpected statement in loadProfile: %r" % st[:80])
            name, rhs = mm.group(1), mm.group(2).strip()
            if rhs in ("true", "false"):
                v = rhs == "true"
            elif re.sub(r"\s+", "", rhs) in special:
                v = special[re.sub(r"\s+", "", rhs)]
            else:
                v = _c_string_value(rhs)
                if v is None:
                    raise ValueError("unsupported right-hand side for %s: %r" % (name, rhs[:80]))
            if name in d:
                raise ValueError("%s assigned twice" % name)
            d[name] = v
            order.append(name)
        res.append((d, order))
    (c, corder), (p, porder) = res
    if set(c) != set(p):
        raise ValueError("members assigned in one branch only: %s" % sorted(set(c) ^ set(p)))
    for k in c:
        if type(c[k]) is not type(p[k]):
            raise ValueError("member %s has different kinds in the two branches" % k)
    return c, p, corder


def coq_string(s):
    for ch in s:
        if ord(ch) > 126 or (ord(ch) < 32 and ch not in "\n\t"):
            raise ValueError("non-ASCII character in a profile string: %r" % s[:40])
    return '"' + s.replace('"', '""') + '"'


REQUIRED = ["mEqualityString", "mEqString", "mNeqString", "mLtString", "mLeqString", "mGtString", "mGeqString", "mAndString",
            "mOrString", "mXorString", "mNotString", "mHasEqOperator", "mHasNeqOperator", "mHasLtOperator",
            "mHasLeqOperator", "mHasGtOperator", "mHasGeqOperator", "mHasAndOperator", "mHasOrOperator",
            "mHasXorOperator", "mHasNotOperator", "mPlusString", "mMinusString", "mTimesString", "mDivideString",
            "mPowerString", "mSquareRootString", "mSquareString", "mHasPowerOperator",
            "mConditionalOperatorIfString", "mConditionalOperatorElseString", "mHasConditionalOperator", "mTrueString", "mFalseString", "mEString", "mPiString",
            "mInfString", "mNanString"]


def gen_profile_v(repo):
    c, p, order = parse_profiles(repo)
    for r in REQUIRED:
        if r not in c:
            raise ValueError("member %s is no longer assigned in loadProfile" % r)
    lines = ["(** ProfileStrings.v — GENERATED by tools/translate_profile.py from /repo/src/generatorprofile.cpp",
             "    (GeneratorProfileImpl::loadProfile, C branch and PYTHON branch).  Do not edit. *)",
             "From Coq Require Import String.", "Local Open Scope string_scope.", "",
             "Record profile := MkProfile {"]
    fl = []
    for name in order:
        fl.append("  %s : %s" % (snake(name), "bool" if isinstance(c[name], bool) else "string"))
    lines.append(";\n".join(fl))
    lines.append("}.")
    for nm, d in (("profile_C", c), ("profile_Py", p)):
        lines.append("")
        lines.append("Definition %s : profile := {|" % nm)
        vs = []
        for name in order:
            v = d[name]
            vs.append("  %s := %s" % (snake(name), ("true" if v else "false") if isinstance(v, bool) else coq_string(v)))
        lines.append(";\n".join(vs))
        lines.append("|}.")
    lines.append("")
    return "\n".join(lines)


def parse_ast_types(repo):
    src = _strip_comments(open(os.path.join(repo, "src", "api", "libcellml", "analyserequationast.h")).read())
    m = re.search(r"enum\s+class\s+Type\s*\{", src)
    if not m:
        raise ValueError("AnalyserEquationAst::Type not found")
    body, _ = _balanced_block(src, m.end() - 1)
    names = [x.strip() for x in body.split(",") if x.strip()]
    for n in names:
        if not re.match(r"^[A-Z][A-Z0-9_]*$", n):
            raise ValueError("unexpected enumerator %r" % n)
    return names


def gen_asttypes_v(repo):
    names = parse_ast_types(repo)
    lines = ["(** AstTypes.v — GENERATED by tools/translate_profile.py from",
             "    /repo/src/api/libcellml/analyserequationast.h (enum class AnalyserEquationAst::Type).  Do not edit. *)",
             "From Coq Require Import String List.", "Import ListNotations.", "Local Open Scope string_scope.", "",
             "Inductive ty : Set :=", "  " + "\n  ".join("| %s" % n for n in names) + ".", "",
             "Scheme Equality for ty.", "",
             "Definition ty_name (t : ty) : string :=", "  match t with"]
    lines += ["  | %s => \"%s\"" % (n, n) for n in names]
    lines += ["  end.", "", "Definition all_types : list ty :=", "  [" + "; ".join(names) + "].", ""]
    return "\n".join(lines)


def parse_struct_members(repo):
    """the std::string / bool data members of struct GeneratorProfile::GeneratorProfileImpl, in declaration order
    (the Profile tag mProfile is left out: loadProfile assigns it before the two branches).  Fails loudly on a data member
    of another type or when the tag is not assigned at the top of loadProfile."""
    src = _strip_comments(open(os.path.join(repo, "src", "generatorprofile.cpp")).read())
    m = re.search(r"struct\s+GeneratorProfile::GeneratorProfileImpl\s*\{", src)
    if not m:
        raise ValueError("struct GeneratorProfileImpl not found")
    body, _ = _balanced_block(src, m.end() - 1)
    members = []
    for st in _statements(re.sub(r"\bvoid\s+loadProfile\s*\([^)]*\)\s*;", "", body)):
        mm = re.match(r"^(std::string|bool|GeneratorProfile::Profile)\s+(m[A-Z]\w*)\s*(?:=.*)?$", st, flags=re.S)
        if not mm:
            raise ValueError("unexpected member declaration in GeneratorProfileImpl: %r" % st[:80])
        if mm.group(1) == "GeneratorProfile::Profile":
            if mm.group(2) != "mProfile":
                raise ValueError("unexpected Profile member %s" % mm.group(2))
            continue
        members.append((mm.group(2), "bool" if mm.group(1) == "bool" else "string"))
    m = re.search(r"void\s+GeneratorProfile::GeneratorProfileImpl::loadProfile\s*\([^)]*\)\s*\{\s*mProfile\s*=\s*profile\s*;", src)
    if not m:
        raise ValueError("loadProfile no longer starts with `mProfile = profile;`")
    return members


def setter_of(member):
    """mFooFdmWevString -> ("setFooString", ["true", "true"]);  mHasFoo -> ("setHasFoo", [])  (public API of generatorprofile.h)"""
    n = member[1:]
    if n.startswith("Has") and not n.endswith("String"):
        return "set" + n, []
    mm = re.match(r"^(.*?)(Fam|Fdm)?(Woev|Wev)?String$", n)
    if not mm:
        raise ValueError("member %s has no setter naming rule" % member)
    args = []
    if mm.group(2):
        args.append("true" if mm.group(2) == "Fdm" else "false")
    if mm.group(3):
        args.append("true" if mm.group(3) == "Wev" else "false")
    return "set" + mm.group(1) + "String", args


def gen_members_v(repo):
    members = parse_struct_members(repo)
    c, p, order = parse_profiles(repo)          # parse_profiles already fails when the two branches assign different members
    names = [n for n, _ in members]
    for n in order:
        if n not in names:
            raise ValueError("loadProfile assigns %s which is not a data member of GeneratorProfileImpl" % n)
    hdr = open(os.path.join(repo, "src", "api", "libcellml", "generatorprofile.h")).read()
    setters = set(re.findall(r"void (set\w+)\(", hdr))
    for n in names:
        if setter_of(n)[0] not in setters:
            raise ValueError("no public setter %s for member %s" % (setter_of(n)[0], n))

    def lst(xs):
        return "[" + ";\n   ".join('"%s"' % x for x in xs) + "]"
    lines = ["(** ProfileMembers.v — GENERATED by tools/translate_profile.py from /repo/src/generatorprofile.cpp.  Do not edit.",
             "    struct_members    : the std::string / bool data members of struct GeneratorProfileImpl (every one has a public setter);",
             "    assigned_members  : the members assigned in BOTH branches of GeneratorProfileImpl::loadProfile (the translator",
             "                        fails when a member is assigned in one branch only);",
             "    unassigned_members: struct_members that loadProfile never assigns. *)",
             "From Coq Require Import String List.", "Import ListNotations.", "Local Open Scope string_scope.", "",
             "Definition struct_members : list string :=\n  %s." % lst(names), "",
             "Definition assigned_members : list string :=\n  %s." % lst(order), "",
             "Definition unassigned_members : list string :=\n  %s." % lst([n for n in names if n not in order]), ""]
    return "\n".join(lines)


def run(repo, gendir):
    write_if_changed(os.path.join(gendir, "AstTypes.v"), gen_asttypes_v(repo))
    write_if_changed(os.path.join(gendir, "ProfileStrings.v"), gen_profile_v(repo))
    write_if_changed(os.path.join(gendir, "ProfileMembers.v"), gen_members_v(repo))


if __name__ == "__main__":
    import sys
    run(sys.argv[1] if len(sys.argv) > 1 else "/repo", sys.argv[2] if len(sys.argv) > 2 else "/verif/coq/gen")
