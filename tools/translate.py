"""R-gen registry: each translator rewrites one coq/gen/<Table>.v from /repo/src on every run.
A translator is a module tools/translate_<topic>.py with run(repo, gendir).  Register it below."""
import importlib
import os
import sys

# module -> the coq/gen files it writes (a failing translator only breaks the checks whose theorems depend on them)
TRANSLATORS = {
    "translate_math": ["MathTables.v"],                       # C01/C04: supportedMathMLElements
    "translate_rules": ["RuleTable.v", "IssueSites.v"],       # C15
    "translate_units": ["UnitTables.v", "PrefixTable.v"],     # C08
    "translate_profile": ["AstTypes.v", "ProfileStrings.v", "ProfileMembers.v"],  # C03/C17
    "translate_iface": ["IfaceTable.v"],                      # C19: interfaceTypeToString, InterfaceType, permitsInterfaceType literals
    "translate_global": ["GlobalSites.v"],                    # C12: writers of process-global state, issue-list resets of the entry points
}


def write_if_changed(path, text):
    if os.path.exists(path) and open(path).read() == text:
        return False
    with open(path, "w") as f:
        f.write(text)
    return True


def run(repo, gendir):
    """Runs every translator.  Returns {gen file: error text} for the translators that no longer understand the
    source (their last good output is left in place so that the rest of the check can still run)."""
    here = os.path.dirname(os.path.abspath(__file__))
    if here not in sys.path:
        sys.path.insert(0, here)
    os.makedirs(gendir, exist_ok=True)
    failed = {}
    for name, outputs in TRANSLATORS.items():
        try:
            importlib.import_module(name).run(repo, gendir)
        except Exception as e:  # noqa: BLE001 - any failure of a translator is a broken obligation for its tables
            for o in outputs:
                failed[o] = "%s: %r" % (name, e)
    return failed
