"""R-gen registry: each translator rewrites one coq/gen/<Table>.v from /repo/src on every run.
A translator is a module tools/translate_<topic>.py with run(repo, gendir).  Register it below."""
import importlib
import os
import sys

TRANSLATORS = [
    # one line per translator module
    "translate_math",     # C01/C04: gen/MathTables.v (supportedMathMLElements)
    "translate_rules",    # C15: gen/RuleTable.v, gen/IssueSites.v
    "translate_units",    # C08: gen/UnitTables.v, gen/PrefixTable.v
    "translate_profile",  # C03/C17: gen/AstTypes.v, gen/ProfileStrings.v
    "translate_iface",    # C19: gen/IfaceTable.v (interfaceTypeToString, InterfaceType, permitsInterfaceType literals)
    "translate_global",   # C12: gen/GlobalSites.v (writers of process-global state, issue-list resets of the entry points)
]


def write_if_changed(path, text):
    if os.path.exists(path) and open(path).read() == text:
        return False
    with open(path, "w") as f:
        f.write(text)
    return True


def run(repo, gendir):
    here = os.path.dirname(os.path.abspath(__file__))
    if here not in sys.path:
        sys.path.insert(0, here)
    os.makedirs(gendir, exist_ok=True)
    for name in TRANSLATORS:
        importlib.import_module(name).run(repo, gendir)
