#!/bin/bash
# Baseline with the guard OFF: rebuild /repo/_build the way the baseline does (no -DLIBCELLML_VERIF)
# and run the pinned suite; compares the passing gtest cases with /root/.vp/BASELINE.json stable_pass.
set -u
B=/repo/_build
if [ ! -f $B/build.ninja ]; then cmake -G Ninja -S /repo -B $B > /dev/null || exit 2; fi
cmake --build $B > /tmp/verif_baseline_build.log 2>&1 || { tail -30 /tmp/verif_baseline_build.log; echo "BUILD FAILED"; exit 2; }
D=$(mktemp -d)
GTEST_OUTPUT=xml:$D/ ctest --test-dir $B -j8 --timeout 900 > $D/ctest.log 2>&1
tail -8 $D/ctest.log
python3 - "$D" <<'PY'
import sys, glob, json, xml.etree.ElementTree as ET
d = sys.argv[1]
passed, failed = set(), set()
for fn in glob.glob(d + "/*.xml"):
    for tc in ET.parse(fn).getroot().iter("testcase"):
        tid = (tc.get("classname") or "") + "::" + (tc.get("name") or "")
        if tc.find("failure") is not None or tc.find("error") is not None: failed.add(tid)
        elif tc.find("skipped") is not None: pass
        else: passed.add(tid)
passed -= failed
try:
    base = set(json.load(open("/root/.vp/BASELINE.json"))["stable_pass"])
except Exception:
    base = None
print("passed=%d failed=%d" % (len(passed), len(failed)))
if base is not None:
    # ctest-level ids (whole binaries) are in the baseline too; only compare the gtest case ids we can see
    missing = sorted(t for t in base if t not in passed and not t.endswith("::" + t.split("::")[0]))
    print("baseline=%d missing_from_pass=%d" % (len(base), len(missing)))
    for t in missing[:40]: print("  MISSING", t)
    sys.exit(1 if missing else 0)
PY
rc=$?
rm -rf "$D"
exit $rc
