#!/usr/bin/env python3
"""Regenerates /verif/MANIFEST.json from checks/meta/Cxx.json (one file per claimed property) and
checks/meta/not_applicable.json.  Keeps the manifest valid at all times."""
import json, os, glob
ROOT = os.path.dirname(os.path.dirname(os.path.abspath(__file__)))
props = [json.loads(l)["id"] for l in open(os.path.join(ROOT, "properties.jsonl"))]
checks = []
claimed = set()
for p in props:
    f = os.path.join(ROOT, "checks", "meta", p + ".json")
    if not os.path.exists(f) or not os.path.exists(os.path.join(ROOT, "checks", p.lower() + ".py")):
        continue
    if p not in open(os.path.join(ROOT, "checks", "meta", "claimed.txt")).read().split():
        continue   # integrated (reviewed, passing on the unchanged tree) properties only
    m = json.load(open(f))
    claimed.add(p)
    checks.append({
        "property_id": p,
        "quick_cmd": "bin/check %s --tier quick" % p,
        "thorough_cmd": "bin/check %s --tier thorough" % p,
        "evidence_file": "/verif/evidence/%s.json" % p,
        "replay_cmd_template": "bin/check %s --replay {path}" % p,
        "engine": "coq-model+correspondence",
        "level_claimed": {"category": m.get("category", "proof"), "text": m["text"], "design_ref": m.get("design_ref", "DESIGN.md section 6 " + p)},
        "level_note": m["note"],
        "technique": m.get("technique", "machine-checked proof in Coq 8.16.1 over a hand-written executable model + model/implementation correspondence run"),
    })
na_file = os.path.join(ROOT, "checks", "meta", "not_applicable.json")
na = json.load(open(na_file)) if os.path.exists(na_file) else {}
not_app = []
for p in props:
    if p not in claimed:
        not_app.append({"property_id": p, "reason": na.get(p, "not yet built in this tree: the Coq model, theorems and correspondence driver designed in DESIGN.md section 6 for this property are not finished, so nothing is claimed")})
man = {
    "version": 1,
    "setup_cmd": "bin/setup",
    "hooks": {"guard": "LIBCELLML_VERIF",
              "enable": "checks build /repo's working tree statically into /verif/.build/<hash> with -DCMAKE_CXX_FLAGS=-DLIBCELLML_VERIF (lib/vf.py build_repo)",
              "baseline_off_cmd": "tools/baseline.sh",
              "source_commits": json.load(open(os.path.join(ROOT, "checks", "meta", "hooks.json")))["source_commits"] if os.path.exists(os.path.join(ROOT, "checks", "meta", "hooks.json")) else [],
              "add_only": True},
    "engines": [{"name": "coq-model+correspondence", "path": "bin/check", "serves_properties": sorted(claimed),
                 "kind_free_text": "Coq 8.16.1 theorems over hand-written executable Gallina models (coq/theories), tables regenerated from /repo/src (coq/gen), models extracted to OCaml and run against C++ drivers linked to a fresh static build of /repo's working tree; implementation-side oracle search for replays"}],
    "checks": checks,
    "notes": "See DESIGN.md. known_findings.json lists genuine defects recorded rather than repaired; 'fixed:' entries suppress nothing.",
    "not_applicable": not_app,
}
json.dump(man, open(os.path.join(ROOT, "MANIFEST.json"), "w"), indent=1)
print("claimed:", sorted(claimed))
