#!/bin/bash
# tools/try_seed.sh <worktree> <patch.diff> <Cxx> [tier]: run one check against a scratch worktree with a seeded change applied.
# (While builders are at work /repo itself must stay untouched; VERIF_REPO points the check at the worktree.)
WT=$1; PATCH=$2; PID=$3; TIER=${4:-quick}
git -C $WT checkout -q -- src && git -C $WT apply $PATCH || { echo "patch does not apply"; exit 2; }
cp /verif/evidence/$PID.json /tmp/evidence_$PID.bak 2>/dev/null
VERIF_REPO=$WT /verif/bin/check $PID --tier $TIER 2>&1 | grep -E "VIOLATION|KNOWN-FINDING|violation:|done:" | head -12
echo "exit=${PIPESTATUS[0]}"
cp /tmp/evidence_$PID.bak /verif/evidence/$PID.json 2>/dev/null
git -C $WT checkout -q -- src
