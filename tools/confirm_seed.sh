#!/bin/bash
# tools/confirm_seed.sh <seed-id> ...   — independent confirmation of seeded changes, in a scratch worktree:
# the patch applies and compiles, the pinned suite stays at the baseline, the demonstration fails with the
# change and passes without it.  Writes seeded/<id>/confirm.txt.  Removes the worktree afterwards.
WT=/tmp/confirm-wt-$$
git -C /repo worktree add -q $WT HEAD || exit 2
cmake -G Ninja -S $WT -B $WT/_build -DLIBCELLML_COVERAGE=OFF -DLIBCELLML_MEMCHECK=OFF -DLIBCELLML_BINDINGS_PYTHON=OFF -DLIBCELLML_TREAT_WARNINGS_AS_ERRORS=OFF > $WT/cfg.log 2>&1
suite() { ctest --test-dir $WT/_build -j8 --timeout 900 2>&1 | grep -E "^\s+[0-9]+ - " | sed 's/ (.*//' | sort | tr -d ' ' | tr '\n' ','; }
for id in "$@"; do
  S=/verif/seeded/$id; mkdir -p $WT/seeded/x; rm -rf $WT/seeded/x/*; cp $S/* $WT/seeded/x/ 2>/dev/null; sed -i "s#/tmp/seed-c[0-9][0-9]#$WT#g" $WT/seeded/x/run.sh $WT/seeded/x/demo.cpp 2>/dev/null
  git -C $WT checkout -q -- src tests 2>/dev/null
  {
    echo "seed $id  (repo HEAD $(git -C /repo rev-parse --short HEAD), $(date -u +%FT%TZ))"
    cmake --build $WT/_build -j8 > $WT/b0.log 2>&1; echo "clean build rc=$?"
    ( cd $WT/seeded/x && sh ./run.sh $WT/_build $WT ) > $WT/demo0.log 2>&1; echo "demo without change: exit=$? ($(tail -1 $WT/demo0.log | cut -c1-80))"
    if git -C $WT apply $S/patch.diff; then echo "patch applies"; else echo "PATCH DOES NOT APPLY"; fi
    cmake --build $WT/_build -j8 > $WT/b1.log 2>&1; echo "build with change rc=$?"
    echo "suite failures with change: $(suite)   (baseline: 12-entities_unit_test_math,14-io_unit_test_parser,)"
    ( cd $WT/seeded/x && sh ./run.sh $WT/_build $WT ) > $WT/demo1.log 2>&1; echo "demo with change: exit=$? ($(tail -1 $WT/demo1.log | cut -c1-80))"
  } > $S/confirm.txt 2>&1
  cat $S/confirm.txt
done
git -C /repo worktree remove --force $WT
