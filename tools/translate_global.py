"""R-gen for C12: coq/gen/GlobalSites.v — every place where /repo/src writes process-global state, and the
issue-list reset of each top-level service call.

Tables written (Properties_C12.v proves that they are exactly what GlobalDefs.v models):
  flag_writers      : (file, enclosing function, argument) of every xmlKeepBlanksDefault(..) call
  other_global_calls: (file, enclosing function, callee) of every call of another libxml2 / libc function that
                      writes process-global state (list GLOBAL_CALLS below)
  mutable_statics   : (file, enclosing function or "<file scope>", declaration) of every `static` object that is
                      not const / constexpr (functions and static member function declarations excluded)
  reset_sites       : (entry point, true iff removeAllIssues() is called before anything that can add an issue
                      or return)
  flatten_writes_library : updateComponentsVariablesUnitsNames redirects a variable to importSource()->model()
  analyser_starts_fresh  : Analyser::analyseModel creates a new AnalyserModel before its first test

  instance_members  : (Impl class, member variable, true iff the member is assigned / cleared UNCONDITIONALLY — a statement at
                      the top nesting level of the function body — in one of the head functions of that class listed in
                      IMPL_CLASSES) for every member variable of the private implementation classes of the services:
                      the per-instance state that survives from one call to the next

  flatten_result_exprs : every expression assigned to `flatModel` in Importer::flattenModel (its return value)
  flatten_calls        : (receiver, method) of every `receiver->method(` call in Importer::flattenModel
  flatten_model_passed : the functions Importer::flattenModel passes its parameter `model` to

Fails loudly when the shape of the source is not the expected one.
"""
import os
import re

GLOBAL_CALLS = ["xmlSetStructuredErrorFunc", "xmlSetGenericErrorFunc", "xmlCleanupParser", "xmlInitParser",
                "xmlSubstituteEntitiesDefault", "xmlLineNumbersDefault", "xmlPedanticParserDefault",
                "xmlIndentTreeOutput", "xmlLoadExtDtdDefaultValue", "xmlDoValidityCheckingDefaultValue",
                "xmlTreeIndentString", "xmlSaveNoEmptyTags", "xmlCleanupGlobals", "xmlMemSetup", "xmlGcMemSetup",
                "xmlRegisterInputCallbacks", "xmlSetExternalEntityLoader", "xmlThrDefKeepBlanksDefaultValue",
                "xmlKeepBlanksDefaultValue",
                "setlocale", "srand", "setenv", "putenv", "std::locale::global", "atexit", "signal", "chdir", "umask"]

ENTRY_POINTS = [
    ("parser.cpp", "Parser::ParserImpl::parseModel"),
    ("validator.cpp", "Validator::validateModel"),
    ("analyser.cpp", "Analyser::analyseModel"),
    ("importer.cpp", "Importer::resolveImports"),
    ("importer.cpp", "Importer::flattenModel"),
    ("annotator.cpp", "Annotator::AnnotatorImpl::update"),
    ("printer.cpp", "Printer::printModel"),
]


# private implementation class -> (file that defines it, functions at whose top level a per-call member must be (re)initialised)
IMPL_CLASSES = [
    ("Logger::LoggerImpl", "logger_p.h", [("logger.cpp", "Logger::LoggerImpl::removeAllIssues")]),
    ("Parser::ParserImpl", "parser.cpp", [("parser.cpp", "Parser::ParserImpl::parseModel"), ("parser.cpp", "Parser::ParserImpl::loadModel")]),
    ("Validator::ValidatorImpl", "validator.cpp", [("validator.cpp", "Validator::validateModel")]),
    ("Analyser::AnalyserImpl", "analyser.cpp", [("analyser.cpp", "Analyser::analyseModel"), ("analyser.cpp", "Analyser::AnalyserImpl::analyseModel")]),
    ("Generator::GeneratorImpl", "generator_p.h", [("generator.cpp", "Generator::GeneratorImpl::reset")]),
    ("Printer::PrinterImpl", "printer.cpp", [("printer.cpp", "Printer::printModel")]),
    ("Importer::ImporterImpl", "importer.cpp", [("importer.cpp", "Importer::resolveImports"), ("importer.cpp", "Importer::flattenModel")]),
    ("Annotator::AnnotatorImpl", "annotator.cpp", [("annotator.cpp", "Annotator::AnnotatorImpl::update"), ("annotator.cpp", "Annotator::AnnotatorImpl::buildIdList")]),
    ("Strict::StrictImpl", "strict.cpp", []),
]


def class_members(lines, cls):
    """member variables declared at the top level of `class/struct <cls> ... { ... };` (libcellml style: braces of the class at column 0)"""
    start = None
    for i, l in enumerate(lines):
        if re.match(r"^(class|struct)\s+%s\b[^;]*$" % re.escape(cls), l):
            start = i
            break
    if start is None:
        raise RuntimeError("implementation class %s not found" % cls)
    i = start
    while i < len(lines) and lines[i].rstrip() != "{":
        i += 1
    # statements at depth 1 of the class body (a declaration may span several lines)
    body = "\n".join(lines[i:])
    depth, members, cur = 0, [], ""
    for ch in body:
        if ch == "{":
            depth += 1
            if depth == 2:
                cur += "{"
            continue
        if ch == "}":
            depth -= 1
            if depth == 0:
                return members
            if depth == 1:
                # end of a nested block: an in-class function body / nested class / brace initialiser
                if not re.search(r"=\s*\{$|[\w>]\s*\{$", cur.strip()) or "(" in cur:
                    cur = ""
                else:
                    cur += "}"
            continue
        if depth != 1:
            continue
        if ch == ";":
            st = " ".join(cur.split())
            cur = ""
            st = re.sub(r"^(public|private|protected)\s*:\s*", "", st)
            if not st or st.startswith(("using ", "typedef ", "friend ", "static ", "enum ", "class ", "struct ", "virtual ", "explicit ", "~")):
                continue
            head = re.split(r"[={]", st)[0]
            if "(" in head:
                continue
            m = re.search(r"([A-Za-z_]\w*)\s*(\[[^\]]*\])?$", head.strip())
            if m:
                members.append(m.group(1))
        else:
            cur += ch
    raise RuntimeError("end of implementation class %s not found" % cls)


def strip_comments(text):
    """remove // and /* */ comments and the content of string / char literals, keeping line structure"""
    out = []
    i, n = 0, len(text)
    while i < n:
        c = text[i]
        if text.startswith("//", i):
            j = text.find("\n", i)
            i = n if j < 0 else j
        elif text.startswith("/*", i):
            j = text.find("*/", i + 2)
            j = n if j < 0 else j + 2
            out.append("".join(ch if ch == "\n" else " " for ch in text[i:j]))
            i = j
        elif text.startswith('R"', i):
            m = re.match(r'R"([^()\\ ]{0,16})\(', text[i:])
            if m:
                end = text.find(")" + m.group(1) + '"', i)
                end = n if end < 0 else end + len(m.group(1)) + 2
                out.append('""' + "".join(ch if ch == "\n" else "" for ch in text[i:end]))
                i = end
            else:
                out.append(c)
                i += 1
        elif c == '"' or c == "'":
            j = i + 1
            while j < n and text[j] != c:
                if text[j] == "\\":
                    j += 1
                j += 1
            out.append(c + c)
            i = j + 1
        else:
            out.append(c)
            i += 1
    return "".join(out)


FUNC_HEAD = re.compile(r"^(?!\s)(?!struct\b|class\b|namespace\b|enum\b|using\b|typedef\b|#|static const\b)[^;{}=]*?([A-Za-z_~][\w:~<>]*)\s*\([^;]*$")


def functions(lines):
    """[(name, first_body_line, last_body_line)] for column-0 function definitions (libcellml style: the opening
    brace alone on a line at column 0, the closing brace at column 0)"""
    res = []
    i = 0
    n = len(lines)
    while i < n:
        if lines[i].rstrip() == "{" and i > 0:
            # header = preceding non-blank lines up to a blank / '}' / ';' line
            j = i - 1
            head = []
            while j >= 0 and lines[j].strip() and not lines[j].rstrip().endswith((";", "}")) and not lines[j].startswith("#"):
                head.insert(0, lines[j])
                j -= 1
            header = " ".join(h.strip() for h in head)
            m = re.match(r"^(?:[\w:<>\*&,\s~]+?[\s\*&])?([A-Za-z_~][\w:~]*)\s*\(", header)
            k = i + 1
            while k < n and lines[k].rstrip() != "}":
                k += 1
            if m and not re.match(r"^(struct|class|namespace|enum|union)\b", header):
                res.append((m.group(1), i + 1, k))
            i = k
        i += 1
    return res


def enclosing(funcs, ln):
    for name, a, b in funcs:
        if a <= ln <= b:
            return name
    return "<file scope>"


def coq_str(s):
    return '"' + s.replace('"', '""') + '"'


def run(repo, gendir):
    src = os.path.join(repo, "src")
    files = sorted(f for f in os.listdir(src) if f.endswith((".cpp", ".h")) and os.path.isfile(os.path.join(src, f)))
    flag_writers, other_calls, statics = [], [], []
    bodies = {}
    call_re = re.compile(r"(?<![\w:])(" + "|".join(re.escape(c) for c in GLOBAL_CALLS) + r")\s*(\(|=[^=])")
    for f in files:
        if f in ("mathmldtd.cpp",):
            continue
        raw = open(os.path.join(src, f), encoding="utf-8", errors="replace").read()
        text = strip_comments(raw)
        lines = text.split("\n")
        funcs = functions(lines)
        for name, a, b in funcs:
            bodies[(f, name)] = "\n".join(lines[a:b])
        for ln, line in enumerate(lines):
            for m in re.finditer(r"xmlKeepBlanksDefault\s*\(\s*([^)]*)\)", line):
                arg = m.group(1).strip()
                if not re.fullmatch(r"[01]", arg):
                    raise RuntimeError("%s:%d: xmlKeepBlanksDefault with a non-literal argument %r" % (f, ln + 1, arg))
                flag_writers.append((f, enclosing(funcs, ln), int(arg)))
            for m in call_re.finditer(line):
                other_calls.append((f, enclosing(funcs, ln), m.group(1)))
            m = re.match(r"^\s*static\s+(?!const\b|constexpr\b|inline\b)(.*)$", line)
            if m and f.endswith(".cpp"):
                decl = m.group(1).strip()
                # a function definition / declaration: has '(' before any '=' or ';' and is not an initialiser call
                head = re.split(r"[=;{]", decl)[0]
                if "(" in head:
                    continue
                statics.append((f, enclosing(funcs, ln), re.sub(r"\s+", " ", decl.rstrip(";").strip())))
    if not flag_writers:
        raise RuntimeError("no xmlKeepBlanksDefault call found in %s: the source no longer has the expected shape" % src)

    resets = []
    for f, name in ENTRY_POINTS:
        body = bodies.get((f, name))
        if body is None:
            raise RuntimeError("entry point %s not found in %s" % (name, f))
        r = body.find("removeAllIssues()")
        stops = [x for x in (body.find("addIssue("), body.find("return"), body.find("IssueImpl::create")) if x >= 0]
        # calls into the implementation before the reset would also count as "something happened"
        ok = r >= 0 and all(r < x for x in stops)
        resets.append((name, ok))

    body = bodies.get(("importer.cpp", "updateComponentsVariablesUnitsNames"))
    if body is None:
        raise RuntimeError("updateComponentsVariablesUnitsNames not found in importer.cpp")
    flatten_writes_library = "importSource()->model()" in body.replace(" ", "")
    body = bodies.get(("analyser.cpp", "Analyser::analyseModel"))
    m = re.search(r"mModel\s*=\s*AnalyserModel::AnalyserModelImpl::create", body)
    first_test = body.find("if (")
    analyser_starts_fresh = bool(m) and m.start() < first_test

    fbody = bodies.get(("importer.cpp", "Importer::flattenModel"))
    if fbody is None or "flatModel" not in fbody:
        raise RuntimeError("Importer::flattenModel no longer has a local `flatModel`")
    flatten_result_exprs = [re.sub(r"\s+", " ", m.group(1).strip()) for m in re.finditer(r"\bflatModel\s*=\s*([^;]+);", fbody)]
    flatten_calls = sorted(set((m.group(1), m.group(2)) for m in re.finditer(r"\b([A-Za-z_]\w*)\s*->\s*([A-Za-z_]\w*)\s*\(", fbody)
                               if m.group(1) not in ("issue", "mPimpl")))
    flatten_model_passed = sorted(set(m.group(1) for m in re.finditer(r"\b([A-Za-z_]\w*)\s*\((?:[^()]*,\s*)?model\s*[,)]", fbody)))
    if not re.search(r"\breturn\s+flatModel\s*;", fbody):
        raise RuntimeError("Importer::flattenModel no longer returns `flatModel`")

    instance_members = []
    for cls, f, heads in IMPL_CLASSES:
        text = strip_comments(open(os.path.join(src, f), encoding="utf-8", errors="replace").read())
        names = class_members(text.split("\n"), cls)
        if cls != "Validator::ValidatorImpl" and cls != "Printer::PrinterImpl" and not names:
            raise RuntimeError("no member variable found in %s" % cls)
        head_bodies = []
        for hf, hn in heads:
            b = bodies.get((hf, hn))
            if b is None:
                raise RuntimeError("head function %s not found in %s" % (hn, hf))
            head_bodies.append(b)
        for m in names:
            pat = re.compile(r"^    (?:pFunc\(\)->|this->)?%s(?:\s*=[^=]|\.clear\(\)|\.reset\(|\s*\{)" % re.escape(m), re.M)
            instance_members.append((cls, m, any(pat.search(b) for b in head_bodies)))

    def lst(items, fmt):
        return "[" + ";\n   ".join(fmt(x) for x in items) + "]"

    out = ["(* GENERATED by tools/translate_global.py from %s/src — do not edit. *)" % "/repo",
           "From Coq Require Import String List.", "Import ListNotations.", "Local Open Scope string_scope.", "",
           "Definition flag_writers : list (string * string * nat) :=\n  %s." %
           lst(sorted(flag_writers), lambda x: "(%s, %s, %d)" % (coq_str(x[0]), coq_str(x[1]), x[2])), "",
           "Definition other_global_calls : list (string * string * string) :=\n  %s." %
           lst(sorted(set(other_calls)), lambda x: "(%s, %s, %s)" % tuple(coq_str(y) for y in x)), "",
           "Definition mutable_statics : list (string * string * string) :=\n  %s." %
           lst(sorted(statics), lambda x: "(%s, %s, %s)" % tuple(coq_str(y) for y in x)), "",
           "Definition reset_sites : list (string * bool) :=\n  %s." %
           lst(resets, lambda x: "(%s, %s)" % (coq_str(x[0]), "true" if x[1] else "false")), "",
           "Definition instance_members : list (string * string * bool) :=\n  %s." %
           lst(instance_members, lambda x: "(%s, %s, %s)" % (coq_str(x[0]), coq_str(x[1]), "true" if x[2] else "false")), "",
           "Definition flatten_result_exprs : list string :=\n  %s." % lst(flatten_result_exprs, coq_str), "",
           "Definition flatten_calls : list (string * string) :=\n  %s." %
           lst(flatten_calls, lambda x: "(%s, %s)" % (coq_str(x[0]), coq_str(x[1]))), "",
           "Definition flatten_model_passed : list string :=\n  %s." % lst(flatten_model_passed, coq_str), "",
           "Definition flatten_writes_library : bool := %s." % ("true" if flatten_writes_library else "false"),
           "Definition analyser_starts_fresh : bool := %s." % ("true" if analyser_starts_fresh else "false"), ""]
    text = "\n".join(out)
    path = os.path.join(gendir, "GlobalSites.v")
    if not (os.path.exists(path) and open(path).read() == text):
        with open(path, "w") as fh:
            fh.write(text)


if __name__ == "__main__":
    import sys
    run(sys.argv[1] if len(sys.argv) > 1 else "/repo", sys.argv[2] if len(sys.argv) > 2 else "/tmp")
    print(open(os.path.join(sys.argv[2] if len(sys.argv) > 2 else "/tmp", "GlobalSites.v")).read())
