"""c09_api.py -- enumerate the public entry points of libcellml that take an entity, an index or a name.

parse_headers(repo) -> list of dicts {class, method, params:[(type, name)], ret, static, sig}
A small declaration scanner (public sections of the LIBCELLML_EXPORT classes in src/api/libcellml/*.h); it fails
loudly when it cannot read a declaration it has begun.
"""
import os
import re
import sys

PTR = re.compile(r"\b(\w+)Ptr\b")


def strip_comments(t):
    t = re.sub(r"/\*.*?\*/", "", t, flags=re.S)
    t = re.sub(r"//[^\n]*", "", t)
    return t


def split_params(p):
    out, depth, cur = [], 0, ""
    for ch in p:
        if ch in "<(":
            depth += 1
        if ch in ">)":
            depth -= 1
        if ch == "," and depth == 0:
            out.append(cur)
            cur = ""
        else:
            cur += ch
    if cur.strip():
        out.append(cur)
    res = []
    for q in out:
        q = q.strip()
        q = re.sub(r"\s*=\s*[^,]+$", "", q)            # default value
        m = re.match(r"(.*?)(\w+)$", q)
        if not m:
            raise ValueError("parameter? %r" % q)
        res.append((m.group(1).strip(), m.group(2)))
    return res


def classify(ptype, pname):
    """-> 'entity:<T>' | 'index' | 'name' | None"""
    t = ptype.replace("const", "").replace("&", "").strip()
    m = PTR.fullmatch(t)
    if m:
        return "entity:" + m.group(1)
    if t == "size_t":
        return "index"
    if t == "std::string" and re.search(r"name|id$|Id$|^id|reference|url|key", pname, re.I):
        return "name"
    return None


def parse_headers(repo):
    d = os.path.join(repo, "src/api/libcellml")
    out = []
    for fn in sorted(os.listdir(d)):
        if not fn.endswith(".h"):
            continue
        txt = strip_comments(open(os.path.join(d, fn)).read())
        for m in re.finditer(r"class\s+LIBCELLML_EXPORT\s+(\w+)\s*(?::[^{]*)?\{", txt):
            cls = m.group(1)
            # body up to the matching brace
            i, depth = m.end(), 1
            while depth and i < len(txt):
                depth += {"{": 1, "}": -1}.get(txt[i], 0)
                i += 1
            body = txt[m.end():i - 1]
            access = "private"
            # statements at depth 0 of the class body
            stmt, depth = "", 0
            stmts = []
            for ch in body:
                if ch == "{":
                    depth += 1
                elif ch == "}":
                    depth -= 1
                    if depth == 0:
                        stmt = ""
                        continue
                if depth > 0:
                    continue
                if ch == ";":
                    stmts.append(stmt)
                    stmt = ""
                elif ch == ":" and re.search(r"(^|[\s;}])(public|private|protected)\s*$", stmt):
                    stmts.append(re.search(r"(public|private|protected)\s*$", stmt).group(1) + ":")
                    stmt = ""
                else:
                    stmt += ch
            for st in stmts:
                st = " ".join(st.split())
                if st in ("public:", "private:", "protected:"):
                    access = st[:-1]
                    continue
                if access != "public" or "(" not in st:
                    continue
                if st.startswith(("using ", "friend ", "typedef ", "enum ")) or "operator" in st or "= delete" in st \
                        or "= default" in st or "~" in st.split("(")[0]:
                    continue
                mm = re.match(r"(?:(static|virtual|explicit)\s+)*(.*?)\b(~?\w+)\s*\((.*)\)\s*(const)?\s*(noexcept)?\s*(override)?\s*(= 0)?$", st)
                if not mm:
                    raise ValueError("%s: cannot read declaration %r" % (fn, st))
                ret, name, params = mm.group(2).strip(), mm.group(3), mm.group(4)
                if name.startswith("~") or name == cls:
                    continue
                ps = split_params(params) if params.strip() else []
                kinds = [classify(t, n) for t, n in ps]
                out.append({"class": cls, "method": name, "params": ps, "kinds": kinds, "ret": ret,
                            "static": st.startswith("static"),
                            "sig": "%s::%s(%s)" % (cls, name, ", ".join(t for t, _ in ps))})
    return out


if __name__ == "__main__":
    api = parse_headers(sys.argv[1] if len(sys.argv) > 1 else "/repo")
    sel = [a for a in api if any(a["kinds"])]
    for a in sel:
        print(a["sig"], a["kinds"])
    print(len(api), "public methods,", len(sel), "take an entity, an index or a name", file=sys.stderr)
