"""C11 -- clone() is a faithful, independent deep copy.

proofs : Properties_C11.v over CloneDefs.v (content preserved, no parent, fresh identities, independence under every
         single mutation, equivalences of a cloned model internal; _refuted/_partial pairs for the pinned defects)
tie    : random object worlds built through harness/common/script.hpp; EVERY object of every world is cloned by the
         library and by the extracted model; the two clones are compared as identity dumps (every attribute, every
         pointer as an object label, new objects numbered by first occurrence) -- then single mutations of original
         or clone are applied on both sides and all four dumps compared again
search : on the library's own output: content(original) = content(clone) (python mirror of CloneDefs.content_* on
         the C++ dumps, plus dump.hpp texts, plus Printer output for models), equals() both ways, parent() == null,
         no object shared, and after a mutation of one side the other side's dump is unchanged
"""
import hashlib
import json
import os
import re
import subprocess
import vf
import c11_worlds as W

# flags of the model = which repairs are in the tree under test (order encid isrc eqids ext); see CloneDefs.flags.
# "11111" = /repo with fixes/C11-*.diff applied.  Flip a digit to 0 (and list the finding in known_findings.d/C11.json)
# if a fix is not taken.
FLAGS = os.environ.get("C11_FLAGS", "11111")
# development switch: treat the classes of switched-off repairs as listed findings (to validate the model of the pinned tree)
PINNED_OK = bool(os.environ.get("C11_PINNED_OK"))
FLAG_NAMES = ["order", "encid", "isrc", "eqids", "ext"]
FINDING_OF_FLAG = {"encid": "C11-component-encapsulation-id", "isrc": "C11-import-source-shared",
                   "eqids": "C11-equivalence-ids-lost", "ext": "C11-external-equivalence", "order": "C11-reset-order"}


def shards(ctx, exe, name, lines, extra=()):
    """run exe over the lines split in NCPU files, in parallel; returns the output lines in order"""
    n = max(1, min(vf.NCPU, len(lines) // 50 + 1))
    procs = []
    for k in range(n):
        part = lines[k::n]
        p = os.path.join(ctx.workdir, "%s.%d.cases" % (name, k))
        with open(p, "w") as f:
            f.write("\n".join(part) + ("\n" if part else ""))
        procs.append((k, len(part), subprocess.Popen([exe] + list(extra) + [p], stdout=subprocess.PIPE, stderr=subprocess.DEVNULL)))
    out = [None] * len(lines)
    for k, cnt, pr in procs:
        o = pr.communicate()[0].decode("utf-8", "replace").split("\n")
        for i in range(cnt):
            out[k + i * n] = o[i] if i < len(o) else "<missing>"
    return out


_UNITS_ST = re.compile(r'\(units ("(?:[^"\\]|\\.)*") (?:linked|foreign|unlinked)\)')
_VREF_ST = re.compile(r'\((var|testvar) ("(?:[^"\\]|\\.)*") (same|other|orphan)\)')
_EQ_ITEM = re.compile(r' \(eq \((?:in|out|orphan)(?: "(?:[^"\\]|\\.)*")+\) \((?:in|out|orphan)(?: "(?:[^"\\]|\\.)*")+\) \(mapid[^()]*\)(?: \(connid[^()]*\))?(?: oneway)?\)')


def norm_dump(kind, text):
    """dump.hpp text -> what clone() is to preserve: linkage status of a variable's units and whether a reset's
    variable sits in another component / nowhere are not serialised; a lone component's or variable's equivalences
    are documented not to be copied; equivalences with variables outside the model cannot be"""
    text = _UNITS_ST.sub(r"(units \1)", text)
    if kind == "r":
        text = _VREF_ST.sub(r"(\1 \2)", text)
    else:
        text = _VREF_ST.sub(lambda m: "(%s %s %s)" % (m.group(1), m.group(2), "same" if m.group(3) == "same" else "out"), text)
    if kind == "c":
        i = text.rfind(" (equivalences")
        if i >= 0:
            text = text[:i]
    if kind == "m":
        text = _EQ_ITEM.sub(lambda m: "" if ("(out " in m.group(0) or "(orphan " in m.group(0)) else m.group(0), text)
    return text


class Case:
    __slots__ = ("wi", "world", "obj", "mut", "side", "key")


def make_cases(ctx, nworlds, full_every, sample):
    worlds, cases = [], []
    for wi in range(nworlds):
        rng = __import__("random").Random(ctx.rng.getrandbits(64))
        w = W.World(rng)
        w.script_text = ";".join(w.script())
        worlds.append(w)
        objs = list(w.objects)
        if wi % full_every != 0:
            pick = [o for o in objs if o.kind == "m"]
            rest = [o for o in objs if o.kind != "m"]
            rng.shuffle(rest)
            objs = pick + rest[:sample]
        for o in objs:
            c = Case()
            c.wi, c.world, c.obj, c.mut, c.side = wi, w, o, None, None
            cases.append(c)
    return worlds, cases


def cpp_line(c):
    w = c.world
    mut = ";".join(c.mut[0]) if c.mut else ""
    return "%d|%s|%d|%s%s" % (w.n0, w.script_text, c.obj.slot, mut, "" if w.conn_uniform else "|noconn")


def ml_line(c, flags=None):
    w = c.world
    ext = ""
    if c.obj.kind == "m":
        ext = " ".join("%d:%s" % kv for kv in sorted(w.ext_info(c.obj).items()))
    return "%d|%s|%s|%s|%s" % (w.n0, flags or FLAGS, w.idump(c.obj), ext, c.mut[1] if c.mut else "")


def explain(ctx, mdl, c, cpp_clone_canon, tag):
    """which flag settings of the model reproduce the library's clone (for the report of a mismatch)"""
    tries = [FLAGS] + [FLAGS[:i] + ("0" if FLAGS[i] == "1" else "1") + FLAGS[i + 1:] for i in range(5)] + ["10000", "00000"]
    p = os.path.join(ctx.workdir, "explain_%s.cases" % tag)
    with open(p, "w") as f:
        for fl in tries:
            f.write(ml_line(c, fl) + "\n")
    rc, out = vf.sh([mdl, p], timeout=120)
    res = []
    for fl, line in zip(tries, out.split("\n")):
        got = line.split("\t")[0]
        if got != "CRASH" and not got.startswith("ERR"):
            got = W.canon_labels(got, c.world.n0)
        if got == cpp_clone_canon:
            res.append(fl)
    return res


def run(ctx):
    quick = ctx.quick()
    ctx.proofs()
    ctx.assumptions += [
        "object identity is modelled by nat tags (slot numbers of the script interpreter), not by addresses; "
        "shared_ptr/weak_ptr lifetime is not modelled: every object of a world is kept alive by its slot",
        "the library's objects are read through public getters plus Variable::VariableImpl's per-direction id maps "
        "(driver compiled with -fno-access-control)",
        "exponent / multiplier doubles are opaque tokens in the model (compared as %.17g text); NaN/inf are not generated "
        "(equals() is not reflexive on them: property C10)",
        "mutations that remove a variable / units still referenced from elsewhere in the dumped entity are not generated "
        "(the model's by-oid update would keep a stale parent in the other record)",
        "model flags (repairs assumed present in the tree under test): " + ", ".join(
            "%s=%s" % (n, b) for n, b in zip(FLAG_NAMES, FLAGS)),
    ]
    build = vf.build_repo("plain")
    drv = vf.compile_driver(build, os.path.join(vf.ROOT, "harness/c11_driver.cpp"), extra_flags=["-fno-access-control"])
    mdl = vf.ocaml_driver("clone")
    fx = dict(zip(FLAG_NAMES, [ch == "1" for ch in FLAGS]))

    nworlds = int(os.environ.get("C11_WORLDS", 1500 if quick else 30000))      # C11_WORLDS: development override
    full_every, sample = (5, 6) if quick else (10, 3)
    worlds, cases = make_cases(ctx, nworlds, full_every, sample)
    ctx.log("worlds=%d clone cases=%d" % (len(worlds), len(cases)))
    cout = shards(ctx, drv, "cpp", [cpp_line(c) for c in cases])
    mout = shards(ctx, mdl, "ml", [ml_line(c) for c in cases])
    ctx.log("drivers done")

    nviol = [0]
    hist = {"kind": {}, "objects_in_clone": {}, "models_with_eqs": 0, "models_with_ext_eq": 0, "models_with_imports": 0,
            "shared_isrc_in_target": 0, "resets_retargeted": 0, "unlinked_units_class": 0, "crash_predicted": 0}
    distinct = set()
    samples = []
    clone_info = {}      # case index -> (parsed original dump, parsed canonical model clone dump)

    def viol(what, c, extra):
        nviol[0] += 1
        if nviol[0] <= 6:
            content = {"what": what, "flags": FLAGS, "n0": c.world.n0, "target_slot": c.obj.slot, "target_kind": c.obj.kind,
                       "script": c.world.script_text, "mutation": c.mut, "conn_uniform": c.world.conn_uniform,
                       "original_dump": c.world.idump(c.obj), "ext": c.world.ext_info(c.obj) if c.obj.kind == "m" else {}}
            content.update(extra)
            ctx.violation("C11 %s (world %d, %s in slot %d)" % (what, c.wi, c.obj.kind, c.obj.slot), "c11_%d.json" % nviol[0], content)

    def finding_or_viol(flagname, text, what, c, extra):
        """a mismatch that belongs to the class of a repair that is switched off in FLAGS"""
        if not fx[flagname] and (ctx.known_finding(FINDING_OF_FLAG[flagname], text) or PINNED_OK):
            return
        viol(what, c, extra)

    for idx, c in enumerate(cases):
        w, o = c.world, c.obj
        cl, ml = cout[idx], mout[idx]
        n0 = w.n0
        hist["kind"][o.kind] = hist["kind"].get(o.kind, 0) + 1
        odump = w.idump(o)
        if ml.startswith("ERR") or ml == "<missing>" or not ml:
            viol("model driver failed: %s" % ml[:200], c, {"model": ml})
            continue
        if ml == "CRASH":
            hist["crash_predicted"] += 1
            if cl.startswith("CRASH("):
                # only reachable with ext=0: the pinned tree dereferences null for a parent-less / foreign-rooted target
                if not (ctx.known_finding(FINDING_OF_FLAG["ext"], "Model::clone() crashes: an equivalent variable is outside the model (%s)" % cl) or PINNED_OK):
                    viol("library crashes in Model::clone()", c, {"impl": cl})
            else:
                viol("model predicts a crash, library returns", c, {"impl": cl[:2000]})
            continue
        cf = cl.split("\t")
        if cf[0] != "ok" or len(cf) < 6:
            viol("library: %s" % cl[:200], c, {"impl": cl[:2000], "model": ml[:2000]})
            continue
        mf = ml.split("\t")
        if cf[1] != odump:
            viol("HARNESS: python mirror of the world disagrees with the library before clone()", c, {"impl_original": cf[1]})
            continue
        c_can = W.canon_labels(cf[2], n0)
        m_can = W.canon_labels(mf[0], n0)
        osx = W.parse(odump)
        csx = W.parse(c_can)
        nobj = len(W.walk(csx))
        b = "1" if nobj == 1 else "2-5" if nobj <= 5 else "6-20" if nobj <= 20 else "21+"
        hist["objects_in_clone"][b] = hist["objects_in_clone"].get(b, 0) + 1
        if nobj >= 2:
            distinct.add(hashlib.sha1((odump).encode()).hexdigest())
        if len(samples) < 3 and nobj >= 6 and o.kind in "mc":
            samples.append({"target": o.kind, "script": w.script_text[:1500], "original": odump[:1500], "clone": c_can[:1500]})
        ext = w.ext_info(o) if o.kind == "m" else {}
        if o.kind == "m":
            if any(len(v[1][8:]) for v in W.model_vars(osx)):
                hist["models_with_eqs"] += 1
            if ext:
                hist["models_with_ext_eq"] += 1
        imps = [lab for lab, k, _ in W.walk(osx) if k == "i"]
        if imps and o.kind in "mc":
            hist["models_with_imports"] += 1
        if len(imps) != len(set(imps)):
            hist["shared_isrc_in_target"] += 1
        mismatch = c_can != m_can
        # ---- Coq content_* (printed by the model driver) = python mirror of it on the same dump
        if not mismatch and (W.parse_model_content(mf[2]) != W.content(W.parse(m_can)) or W.parse_model_content(mf[1]) != W.content(osx)):
            viol("HARNESS: python content() differs from CloneDefs.content_*", c, {"coq": mf[1:3]})
            continue
        # ---- oracle on the library's own output
        probs = []
        co, cc = W.content(osx), W.content(csx)
        if co != cc:
            probs.append("content differs")
        if o.kind == "m" and W.content(osx, False) != W.content(csx, False):
            probs.append("content differs even without equivalence ids")
        if norm_dump(o.kind, cf[4]) != norm_dump(o.kind, cf[5]):
            probs.append("dump.hpp texts differ")
        fl = cf[3].split()
        if fl[1] == "p0":
            probs.append("clone has a parent")
        # (Variable::equivalenceConnectionId, which the Printer uses, picks the id of an address-dependent pair when the
        #  connection ids between two components are not uniform: no Printer comparison for such worlds)
        if o.kind == "m" and not ext and w.conn_uniform and fl[2] != "w1":
            probs.append("Printer output differs")
        new = set(lab for lab, _, _ in W.walk(csx))
        shared = sorted(x for x in new if not x.startswith("$"))
        if shared:
            probs.append("clone shares objects with the original: %s" % " ".join(shared))
        if o.kind == "m":
            mv = set(v[1] for _, v in W.model_vars(csx))
            for _, v in W.model_vars(csx):
                for e in v[8:]:
                    if e[1] not in mv:
                        probs.append("equivalence of the clone leaves the clone: %s" % e[1])
        for lab_, k, node in W.walk(csx):
            if k == "r":
                for v in (node[6], node[7]):
                    if v != "-" and not v[1].startswith("$"):
                        probs.append("reset of the clone refers to a variable of the original")
        eq_expected = True
        if o.kind == "m" and w.unlinked_units_class(o):
            eq_expected = False
            hist["unlinked_units_class"] += 1
        if fl[0] != "e11":
            if not eq_expected and ctx.known_finding("C11-equals-relinked-units",
                                                     "m->equals(m->clone()) is false: clone() re-links a variable's units by name to a units "
                                                     "object whose content differs from the variable's own Units object"):
                pass
            else:
                probs.append("equals() is %s" % fl[0])
        probs = list(dict.fromkeys(probs))
        # ---- correspondence: library clone = model clone, object for object
        if mismatch:
            why = explain(ctx, mdl, c, c_can, "c%d" % idx) if nviol[0] < 6 else []
            viol("clone differs from the model's clone" + ("; oracle on the library: " + "; ".join(probs) if probs else
                                                           "; the property's oracle sees no difference"), c,
                 {"impl_clone": c_can, "model_clone": m_can, "model_flag_settings_that_reproduce_the_library": why,
                  "oracle_problems": probs})
            continue
        clone_info[idx] = (osx, m_can)
        if probs:
            # classes of the repairs that are switched off
            if not fx["isrc"] and all(p.startswith("clone shares objects") for p in probs) and \
                    all(x in imps for x in shared):
                finding_or_viol("isrc", "clone shares the ImportSource object with the original", "; ".join(probs), c, {"impl": cl[:3000]})
            elif not fx["encid"] or not fx["eqids"] or not fx["order"]:
                for nme in ("encid", "eqids", "order"):
                    if not fx[nme]:
                        ctx.known_finding(FINDING_OF_FLAG[nme], "content of the clone differs (%s)" % "; ".join(probs))
            else:
                viol("oracle: " + "; ".join(probs), c, {"impl": cl[:6000]})
    ctx.cov["evaluations"] += len(cases)
    ctx.log("clone stage: %d cases, %d violations so far" % (len(cases), nviol[0]))

    # ------------------------------------------------------------------ single mutations
    mrng = __import__("random").Random(ctx.rng.getrandbits(64))
    mcases = []
    for idx, c in enumerate(cases):
        if idx not in clone_info:
            continue
        if c.obj.kind == "m":
            per = 2 if c.wi % 2 == 0 else 0
        else:
            per = 1 if c.wi % full_every == 0 else 0
        osx, m_can = clone_info[idx]
        msx = W.parse(m_can)
        onodes = W.walk(osx)
        cnodes = W.walk(msx)
        for side, nodes, root in (("original", onodes, osx), ("clone", cnodes, msx)):
            for _ in range(per):
                lab_, k, node = mrng.choice(nodes)
                as_label = lab_[1:] if lab_.startswith("@") else lab_
                mu = W.random_mutation(mrng, root, lab_, k, node, as_label)
                if mu is None:
                    continue
                mc = Case()
                mc.wi, mc.world, mc.obj, mc.mut, mc.side = c.wi, c.world, c.obj, mu, (side, lab_)
                mcases.append(mc)
    cap = 35000 if quick else 150000
    if len(mcases) > cap:
        mcases = [mcases[i] for i in sorted(mrng.sample(range(len(mcases)), cap))]
    ctx.log("mutation cases=%d" % len(mcases))
    cout = shards(ctx, drv, "cppm", [cpp_line(c) for c in mcases])
    mout = shards(ctx, mdl, "mlm", [ml_line(c) for c in mcases])
    mhist = {}
    for idx, c in enumerate(mcases):
        w, o = c.world, c.obj
        n0 = w.n0
        cl, ml = cout[idx], mout[idx]
        name = c.mut[1].split()[0][1:]
        mhist[name + "/" + c.side[0]] = mhist.get(name + "/" + c.side[0], 0) + 1
        cf, mf = cl.split("\t"), ml.split("\t")
        if cf[0] != "ok" or len(cf) < 11 or len(mf) < 5:
            viol("mutation case failed: impl=%s model=%s" % (cl[:100], ml[:100]), c, {"impl": cl[:3000], "model": ml[:3000]})
            continue
        if "ERR(" in cf[10] or "THROW(" in cf[10]:
            viol("HARNESS: mutation script rejected: %s" % cf[10], c, {})
            continue
        order = cf[2]
        morder = mf[0]
        ci = [W.canon_labels(cf[6], n0, order), W.canon_labels(cf[7], n0, order)]
        mi = [W.canon_labels(mf[3], n0, morder), W.canon_labels(mf[4], n0, morder)]
        if ci != mi:
            viol("after the mutation the library and the model differ", c,
                 {"impl_original_after": ci[0], "impl_clone_after": ci[1], "model_original_after": mi[0], "model_clone_after": mi[1]})
            continue
        distinct.add(hashlib.sha1((w.idump(o) + c.mut[1]).encode()).hexdigest())
        # oracle: the other side is untouched
        if c.side[0] == "original":
            same = cf[7] == cf[2] and cf[9] == cf[5]
        else:
            same = cf[6] == cf[1] and cf[8] == cf[4]
        # oracle: a changed url / id of an import source of one side makes the two unequal (clone and original hold
        # different ImportSource objects, possibly resolved to the SAME model: equals() must still compare url and id)
        if same and c.mut[1].startswith("(MIsrc") and len(cf) > 11:
            if W.content(W.parse(ci[0])) != W.content(W.parse(ci[1])) and cf[11] != "e00":
                viol("oracle: after %s on the %s the serialised contents differ but equals() says %s" % (c.mut[1][:40], c.side[0], cf[11]),
                     c, {"impl": cl[:6000]})
                continue
            mhist["isrc_equals_probe"] = mhist.get("isrc_equals_probe", 0) + 1
        if not same:
            shared_isrc = c.mut[1].startswith("(MIsrc")
            if shared_isrc and not fx["isrc"]:
                finding_or_viol("isrc", "a mutation of an import source of the %s shows in the other side" % c.side[0],
                                "independence", c, {"impl": cl[:3000]})
            else:
                viol("oracle: mutating the %s (%s) changed the other side" % (c.side[0], c.mut[1][:60]), c, {"impl": cl[:6000]})
    ctx.cov["evaluations"] += len(mcases)
    ctx.cov["distinct_nontrivial"] = len(distinct)
    ctx.cov["rule"] = ("seeded random object worlds (gen/c11_worlds.py: 1-2 models with units, component trees to depth 3, variables "
                       "with by-name / linked / foreign Units objects, resets with and without order pointing at own / other / parent-less "
                       "variables, shared and private import sources, encapsulation ids, equivalences with ids between siblings, parent and "
                       "child, across models and to parent-less variables -- made in random order so that in-model and out-of-model targets interleave in each variable's list --, plus lone components, units, variables, resets); every object of "
                       "every %d-th world and all models + %d random objects of the others are cloned; then single API mutations of original "
                       "or clone. distinct = by sha1 of (identity dump of the cloned object [+ mutation]); non-trivial = the clone holds at "
                       "least 2 objects (clone cases) / the mutation was applied to an object of the pair (mutation cases)" % (full_every, sample))
    ctx.cov["samples"] = samples or [{"note": "no large sample this run"}]
    hist["mutations"] = mhist
    ctx.cov["input_distribution"] = hist
    ctx.cov["traces_validated_against_impl"] = len(cases) + len(mcases)
    ctx.log("hist: %s" % json.dumps(hist)[:1500])


def replay(ctx, path):
    r = json.load(open(path))
    build = vf.build_repo("plain")
    drv = vf.compile_driver(build, os.path.join(vf.ROOT, "harness/c11_driver.cpp"), extra_flags=["-fno-access-control"])
    mdl = vf.ocaml_driver("clone")
    mut = r.get("mutation")
    cline = "%d|%s|%d|%s%s" % (r["n0"], r["script"], r["target_slot"], ";".join(mut[0]) if mut else "",
                               "" if r.get("conn_uniform", True) else "|noconn")
    ext = " ".join("%s:%s" % kv for kv in sorted(r.get("ext", {}).items()))
    mline = "%d|%s|%s|%s|%s" % (r["n0"], r.get("flags", FLAGS), r["original_dump"], ext, mut[1] if mut else "")
    pc, pm = os.path.join(ctx.workdir, "replay.cpp.cases"), os.path.join(ctx.workdir, "replay.ml.cases")
    open(pc, "w").write(cline + "\n")
    open(pm, "w").write(mline + "\n")
    print("what:", r.get("what"))
    print("--- library")
    for i, f in enumerate(vf.sh([drv, pc], timeout=120)[1].strip("\n").split("\t")):
        print(" [%d] %s" % (i, W.canon_labels(f, r["n0"]) if i in (1, 2, 6, 7) else f))
    print("--- model (flags %s)" % r.get("flags", FLAGS))
    for i, f in enumerate(vf.sh([mdl, pm], timeout=120)[1].strip("\n").split("\t")):
        print(" [%d] %s" % (i, W.canon_labels(f, r["n0"]) if i in (0, 3, 4) else f))
