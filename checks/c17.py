"""C17 — the declared structure of the generated code matches the analysed model.

proofs : Properties_C17.v (counts, i-th info entry = variable with index i, buffers fit, need-flag <-> operator occurs
         (AST and MathML level), helper emitted <-> flag and no native operator (both built-in profiles, re-checked on
         the regenerated profile table), every declared function defined exactly once with the same signature for every
         (model type, externals) combination, invalid => both strings empty)
tie    : valid models (the C03 random model set + one model per helper-requiring operator x placement x model kind,
         with and without external variables + the buffer matrix: model type x {name, units, component} x class of variable
         that carries the strictly longest string + three NLA systems in every order with every subset of one system's
         unknowns externalised, so that NLA system indices have gaps) -> harness/c17_driver.cpp (Parser -> Analyser -> Generator, both
         profiles, every AnalyserModel accessor dumped) ; the extracted model (ocaml/emit/driver.ml over EmitDefs.v)
         is given the accessor dump and the model's MathML and predicts the whole interface text, the implementation
         text up to the method bodies, the method frames, the info tables, the buffer sizes, the need-flags and the
         helper set: compared string-exactly with what the library printed.
oracle : independent of the Coq model: structural parse of the generated C header / implementation and Python module
         (counts, info entries, declared buffer sizes, prototypes vs definitions, helper definitions, helper calls)
         against the accessor dump and against the operators present in the MathML; cc -Wall -Wextra -Werror
         -Wno-unused-parameter -Wno-unused-variable -c must be silent; a small main linked against the compiled object
         prints the constants / tables / sizeof of the buffers; the Python module is executed, its attributes read and
         its functions called; invalid analyser models and a generator without model / profile give empty strings.
"""
import hashlib
import json
import multiprocessing
import os
import re
import shutil
import subprocess
import sys
import time
from concurrent.futures import ThreadPoolExecutor

import vf
import c17_models as M

CFLAGS = ["-Wall", "-Wextra", "-Werror", "-Wno-unused-parameter", "-Wno-unused-variable"]
FLAG_NAMES = M.FLAG_NAMES
# names the generated code DEFINES for a helper (the check's own table; the Coq side reads them off the profile)
C_HELPER_DEF = {"xor": "xor", "min": "min", "max": "max", "sec": "sec", "csc": "csc", "cot": "cot", "sech": "sech", "csch": "csch",
                "coth": "coth", "asec": "asec", "acsc": "acsc", "acot": "acot", "asech": "asech", "acsch": "acsch", "acoth": "acoth"}
PY_HELPER_DEF = dict(C_HELPER_DEF, **{"eq": "eq_func", "neq": "neq_func", "lt": "lt_func", "leq": "leq_func", "gt": "gt_func",
                                      "geq": "geq_func", "and": "and_func", "or": "or_func", "xor": "xor_func", "not": "not_func"})
C_TYPE = {"variable_of_integration": "VARIABLE_OF_INTEGRATION", "state": "STATE", "constant": "CONSTANT",
          "computed_constant": "COMPUTED_CONSTANT", "algebraic": "ALGEBRAIC", "external": "EXTERNAL"}
VALID_TYPES = ("ode", "dae", "nla", "algebraic")
# GCC diagnostic option -> known finding id (matchers over the equations' ASTs: DIAG_MATCHERS below)
DIAG_FINDINGS = {"int-in-bool-context": "C17-product-in-boolean-context", "absolute-value": "C17-fabs-of-comparison",
                 "logical-not-parentheses": "C17-not-operand-of-comparison", "parentheses": "C17-comparison-operand-of-comparison"}
# for -Wparentheses only these two messages belong to the finding ("suggest parentheses around '&&' within '||'" etc. do not)
PAREN_MESSAGES = ("comparisons like", "around comparison in operand of")
RELATIONAL = ("EQ", "NEQ", "LT", "LEQ", "GT", "GEQ")


def parse_ast(text):
    """prefix text of harness/c17_driver.cpp -> nested tuples (type, value, left, right) / None"""
    toks = text.split(" ")
    pos = [0]

    def node():
        t = toks[pos[0]]
        pos[0] += 1
        if t == "_":
            return None
        v = toks[pos[0]]
        pos[0] += 1
        l = node()
        r = node()
        return (t, v, l, r)
    return node()


def _walk(a):
    if a is not None:
        yield a
        yield from _walk(a[2])
        yield from _walk(a[3])


def _truthy_product(a):
    """a TIMES node that GCC's truth-value conversion reaches from a: through unary minus / plus, fabs and the
    branches of a conditional"""
    if a is None:
        return False
    t = a[0]
    if t == "TIMES":
        return True
    if t in ("MINUS", "PLUS") and a[3] is None:
        return _truthy_product(a[2])
    if t == "ABS":
        return _truthy_product(a[2])
    if t == "PIECEWISE":
        return _truthy_product(a[2]) or _truthy_product(a[3])
    if t == "PIECE":
        return _truthy_product(a[2])
    if t == "OTHERWISE":
        return _truthy_product(a[2])
    return False


def product_in_truth_position(asts):
    """matcher of C17-product-in-boolean-context: a product is the condition of a piece or an operand of && || !"""
    for a in asts:
        for n in _walk(a):
            if n[0] == "PIECE" and _truthy_product(n[3]):
                return True
            if n[0] in ("AND", "OR", "NOT") and (_truthy_product(n[2]) or _truthy_product(n[3])):
                return True
    return False


def fabs_of_comparison(asts):
    """matcher of C17-fabs-of-comparison: abs applied to a relational or logical operator that C prints as an operator"""
    for a in asts:
        for n in _walk(a):
            if n[0] == "ABS" and n[2] is not None and n[2][0] in RELATIONAL + ("AND", "OR", "NOT"):
                return True
    return False


def not_operand_of_comparison(asts):
    """matcher of C17-not-operand-of-comparison: the LEFT operand of a relational operator is a NOT ('!a < b')"""
    for a in asts:
        for n in _walk(a):
            if n[0] in RELATIONAL and n[2] is not None and n[2][0] == "NOT":
                return True
    return False


def comparison_operand_of_comparison(asts):
    """matcher of C17-comparison-operand-of-comparison: an operand of a relational operator is itself relational
    ('a < b < c', 'a == b < c', 'a != b == c')"""
    for a in asts:
        for n in _walk(a):
            if n[0] in RELATIONAL and any(k is not None and k[0] in RELATIONAL for k in (n[2], n[3])):
                return True
    return False


DIAG_MATCHERS = {"int-in-bool-context": product_in_truth_position, "absolute-value": fabs_of_comparison,
                 "logical-not-parentheses": not_operand_of_comparison, "parentheses": comparison_operand_of_comparison}


# --------------------------------------------------------------------------- small helpers
def hx(s):
    return s.encode("utf-8").hex()


def unhx(h):
    return bytes.fromhex(h).decode("utf-8")


def _private_copy(exe, workdir, name):
    dst = os.path.join(workdir, name)
    shutil.copy2(exe, dst)
    return dst


def setters_include():
    """C++ table of the public setters of GeneratorProfile, one per data member of GeneratorProfileImpl (regenerated from
    VERIF_REPO's generatorprofile.cpp by tools/translate_profile.py) -> (path of the include file, member names)"""
    tools = os.path.join(vf.ROOT, "tools")
    if tools not in sys.path:
        sys.path.insert(0, tools)
    import translate_profile as T
    members = T.parse_struct_members(vf.REPO)
    lines = []
    for name, kind in members:
        setter, args = T.setter_of(name)
        if kind == "bool":
            getter = name[1].lower() + name[2:]
            call = "p->%s(!p->%s());" % (setter, getter)
        else:
            call = "p->%s(%sMARK);" % (setter, "".join(a + ", " for a in args))
        lines.append('    {"%s", [](const libcellml::GeneratorProfilePtr &p) { %s }},\n' % (name, call))
    text = "".join(lines)
    d = os.path.join(vf.WORK, "C17")
    os.makedirs(d, exist_ok=True)
    path = os.path.join(d, "profile_setters_%s.inc" % hashlib.sha256(text.encode()).hexdigest()[:12])
    if not os.path.exists(path):
        with open(path + ".tmp", "w") as f:
            f.write(text)
        os.rename(path + ".tmp", path)
    return path, [n for n, _ in members]


def build_driver(build):
    inc, members = setters_include()
    exe = vf.compile_driver(build, os.path.join(vf.ROOT, "harness/c17_driver.cpp"), extra_flags=['-DC17_SETTERS_INC="%s"' % inc])
    return exe, members


PIECEWISE_MEMBERS = ("mPiecewiseIfString", "mPiecewiseElseString")
SETPROFILE_FINDING = "C17-setprofile-keeps-piecewise-strings"


def random_history(rng, members):
    n = len(members)
    k = rng.choice([1, 1, 2, 3, 5, 10, 40, n])
    idx = sorted(rng.sample(range(n), min(k, n)))
    return "%s:%s" % (rng.choice(["C", "PY"]), ",".join(str(i) for i in idx))


def history_members(history, members):
    if not history or history == "-":
        return []
    return [members[int(i)] for i in history.split(":", 1)[1].split(",") if i != ""]


def run_sharded(cmd_prefix, lines, workdir, tag, nsh=None):
    """run `cmd_prefix + [file]` over the lines in nsh processes; one output line per input line"""
    nsh = max(1, min(nsh or vf.NCPU, len(lines)))
    procs = []
    for k in range(nsh):
        part = lines[k::nsh]
        p = os.path.join(workdir, "%s.%d.cases" % (tag, k))
        with open(p, "w") as f:
            f.write("".join(x + "\n" for x in part))
        of = open(p + ".out", "wb")
        procs.append((k, len(part), p + ".out", of, subprocess.Popen(cmd_prefix + [p], stdout=of, stderr=subprocess.DEVNULL)))
    out = [None] * len(lines)
    for k, n, op, of, pr in procs:
        pr.wait()
        of.close()
        res = open(op, "rb").read().decode("utf-8", "replace").split("\n")
        for i in range(n):
            out[k + i * nsh] = res[i] if i < len(res) else "<missing>"
    return out


def _gen_worker(job):
    seed, mdl, workdir = job
    import mathmodel_gen as G
    try:
        m = G.generate(seed, mdl, workdir, unsafe_prob=0.0)
        return {"seed": seed, "xml": m["xml"], "meta": m["meta"]}
    except Exception as ex:          # a generator failure must not kill the run
        return {"seed": seed, "error": repr(ex)}


def random_models(seeds, mdl, workdir):
    jobs = [(s, mdl, workdir) for s in seeds]
    if len(jobs) <= 2:
        return [_gen_worker(j) for j in jobs]
    with multiprocessing.get_context("fork").Pool(min(vf.NCPU, len(jobs))) as pool:
        return pool.map(_gen_worker, jobs, chunksize=1)


# --------------------------------------------------------------------------- the case for the extracted model
def ocaml_case(info, mml_lines, version=None):
    def rec(r):
        return "%d:%s:%s:%s:%s" % (r["index"], r["type"], hx(r["name"]), hx(r["units"]), hx(r["component"]))

    def eq(e):
        return "%s:%d:%s:%s:%s" % (e["type"], max(e["nla"], 0), ",".join(str(s) for s in e["sibs"]),
                                   ",".join("%s/%d" % (t, i) for t, i in e["vars"]), hx(e["ast"]))
    return "\t".join(["ver=" + hx(version if version is not None else info.get("version", "")), "type=" + info["type"],
                      "ext=%d" % (1 if info.get("ext") else 0),
                      "voi=" + (rec(info["voi"]) if info.get("voi") else "-"),
                      "states=" + ";".join(rec(r) for r in info.get("states", [])),
                      "vars=" + ";".join(rec(r) for r in info.get("variables", [])),
                      "eqs=" + ";".join(eq(e) for e in info.get("equations", [])),
                      "mml=" + ",".join(hx(l) for l in mml_lines)])


def parse_model_line(line):
    if line.startswith("MODELERROR") or "\t" not in line:
        return None
    d = {}
    for f in line.split("\t"):
        k, _, v = f.partition("=")
        d[k] = v

    def rows(s):
        return [tuple(unhx(x) for x in r.split(":")) for r in s.split(";")] if s else []

    def hexs(s):
        return [unhx(x) for x in s.split(",")] if s else []

    def pieces(s):
        return [None if x == "H" else unhx(x) for x in s.split(",")] if s else []
    out = {"flags": d["flags"], "astflags": d["astflags"], "wf": d["wf"] == "1", "sizes": tuple(int(x) for x in d["sizes"].split(",")),
           "nla": [tuple(int(y) for y in x.split(":")) for x in d["nla"].split(",")] if d["nla"] else [],
           "helpers": {"C": [x for x in d["helpersC"].split(",") if x], "Py": [x for x in d["helpersPy"].split(",") if x]},
           "decl": {"C": hexs(d["declC"]), "Py": hexs(d["declPy"])}, "def": {"C": hexs(d["defC"]), "Py": hexs(d["defPy"])},
           "voi": {"C": rows(d["voiC"]), "Py": rows(d["voiPy"])}, "states": {"C": rows(d["statesC"]), "Py": rows(d["statesPy"])},
           "vars": {"C": rows(d["varsC"]), "Py": rows(d["varsPy"])},
           "iface": {"C": unhx(d["ifaceC"]), "Py": unhx(d["ifacePy"])},
           "impl": {"C": pieces(d["implC"]), "Py": pieces(d["implPy"])},
           "empty_body": {"C": unhx(d.get("emptyC", "")), "Py": unhx(d.get("emptyPy", ""))}}
    return out


def normalise_pieces(ps):
    """merge adjacent literals, drop empty ones: alternating literal / hole list"""
    out = []
    for p in ps:
        if p is None:
            if out and out[-1] is None:
                continue
            out.append(None)
        elif p != "":
            if out and out[-1] is not None:
                out[-1] += p
            else:
                out.append(p)
    return out


def normalise_text(s):
    """the two spots that depend on modifiedProfile() (not modelled)"""
    return s.replace("generated using a modified ", "generated using the ").replace(".post0", "")


def match_pieces(text, pieces, indent="    "):
    """text = literal, body, literal, ... ?  -> (problem or None, list of bodies)"""
    ps = normalise_pieces(pieces)
    pos, bodies = 0, []
    for i, p in enumerate(ps):
        if p is None:
            if i == len(ps) - 1:
                bodies.append(text[pos:])
                pos = len(text)
            continue
        if i > 0 and ps[i - 1] is None:
            if i == len(ps) - 1:
                idx = len(text) - len(p)
                if idx < pos or text[idx:] != p:
                    return "the text does not end with the predicted frame %r" % p[-80:], bodies
            else:
                idx = text.find(p, pos)
                if idx < 0:
                    return "predicted frame not found after offset %d: %r" % (pos, p[:120]), bodies
            bodies.append(text[pos:idx])
            pos = idx + len(p)
        else:
            if not text.startswith(p, pos):
                k = 0
                while pos + k < len(text) and k < len(p) and text[pos + k] == p[k]:
                    k += 1
                return "text differs from the prediction at offset %d: printed %r, predicted %r" % (
                    pos + k, text[pos + k:pos + k + 60], p[k:k + 60]), bodies
            pos += len(p)
    if pos != len(text):
        return "unpredicted trailing text %r" % text[pos:pos + 80], bodies
    for b in bodies:
        for ln in b.split("\n"):
            if ln and not ln.startswith(indent):
                return "a method body contains the unindented line %r (a frame the model does not predict)" % ln[:80], bodies
    return None, bodies


# --------------------------------------------------------------------------- structural parse (the check's own oracle)
def parse_c(h, c):
    out = {"problems": []}
    m = re.search(r"^const size_t STATE_COUNT = (\d+);$", c, flags=re.M)
    out["STATE_COUNT"] = int(m.group(1)) if m else None
    m = re.search(r"^const size_t VARIABLE_COUNT = (\d+);$", c, flags=re.M)
    out["VARIABLE_COUNT"] = int(m.group(1)) if m else None
    out["decl_counts"] = {n: len(re.findall(r"^extern const size_t %s;$" % n, h, flags=re.M)) for n in ("STATE_COUNT", "VARIABLE_COUNT")}
    ent = r'\{"([^"]*)", "([^"]*)", "([^"]*)", (\w+)\}'
    m = re.search(r"^const VariableInfo VOI_INFO = %s;$" % ent, c, flags=re.M)
    out["VOI_INFO"] = m.groups() if m else None
    for name in ("STATE_INFO", "VARIABLE_INFO"):
        m = re.search(r"^const VariableInfo %s\[\] = \{\n(.*?)^\};$" % name, c, flags=re.M | re.S)
        if not m:
            out[name] = None
            continue
        rows = []
        lines = [l for l in m.group(1).split("\n") if l]
        for i, l in enumerate(lines):
            mm = re.fullmatch(r"    %s(,?)" % ent, l)
            if not mm or (mm.group(5) == ",") != (i < len(lines) - 1):
                out["problems"].append("%s: unreadable row %r" % (name, l))
                continue
            rows.append(mm.groups()[:4])
        out[name] = rows
    out["decl_info"] = {n: len(re.findall(r"^extern const VariableInfo %s(\[\])?;$" % n, h, flags=re.M)) for n in ("VOI_INFO", "STATE_INFO", "VARIABLE_INFO")}
    m = re.search(r"typedef struct \{\n    char name\[(\d+)\];\n    char units\[(\d+)\];\n    char component\[(\d+)\];\n    VariableType type;\n\} VariableInfo;", h)
    out["sizes"] = {"name": int(m.group(1)), "units": int(m.group(2)), "component": int(m.group(3))} if m else None
    m = re.search(r"typedef enum \{\n(.*?)\n\} VariableType;", h, flags=re.S)
    out["enum"] = [x.strip().rstrip(",") for x in m.group(1).split("\n")] if m else None
    # prototypes (interface) and definitions (implementation)
    out["prototypes"] = re.findall(r"^((?:double \*|void|double) ?\w+\([^;{}\n]*\));$", h, flags=re.M)
    out["definitions"] = re.findall(r"^((?:double \*|void|double) ?\w+\([^;{}\n]*\))\n\{", c, flags=re.M)
    out["extern_decls"] = re.findall(r"^extern (void \w+\()", c, flags=re.M)
    out["external_typedef"] = re.findall(r"^typedef double \(\* ExternalVariable\)\(([^)]*)\);$", h, flags=re.M)
    return out


def sig_name(sig):
    return re.search(r"(\w+)\(", sig).group(1)


def parse_py(py):
    out = {"problems": []}
    m = re.search(r"^STATE_COUNT = (\d+)$", py, flags=re.M)
    out["STATE_COUNT"] = int(m.group(1)) if m else None
    m = re.search(r"^VARIABLE_COUNT = (\d+)$", py, flags=re.M)
    out["VARIABLE_COUNT"] = int(m.group(1)) if m else None
    ent = r'\{"name": "([^"]*)", "units": "([^"]*)", "component": "([^"]*)", "type": VariableType\.(\w+)\}'
    m = re.search(r"^VOI_INFO = %s$" % ent, py, flags=re.M)
    out["VOI_INFO"] = m.groups() if m else None
    for name in ("STATE_INFO", "VARIABLE_INFO"):
        m = re.search(r"^%s = \[\n(.*?)^\]$" % name, py, flags=re.M | re.S)
        if not m:
            out[name] = None
            continue
        rows = []
        lines = [l for l in m.group(1).split("\n") if l]
        for i, l in enumerate(lines):
            mm = re.fullmatch(r"    %s(,?)" % ent, l)
            if not mm or (mm.group(5) == ",") != (i < len(lines) - 1):
                out["problems"].append("%s: unreadable row %r" % (name, l))
                continue
            rows.append(mm.groups()[:4])
        out[name] = rows
    m = re.search(r"^class VariableType\(Enum\):\n((?:    \w+ = \d+\n)+)", py, flags=re.M)
    out["enum"] = [x.strip().split(" = ")[0] for x in m.group(1).strip().split("\n")] if m else None
    out["definitions"] = re.findall(r"^def (\w+)\(([^)]*)\):$", py, flags=re.M)
    return out


def called_names(text, names):
    """helper names that are CALLED in the method bodies (the definitions themselves are cut out first)"""
    body = re.sub(r"^(?:double|def) \w+\([^)]*\):?\n", "", text, flags=re.M)
    return {n for n in names if re.search(r"(?<![\w.])%s\(" % re.escape(n), body)}


# --------------------------------------------------------------------------- compile / load
_C_MAIN = r'''/* main written by checks/c17.py */
#include <stdio.h>
#include "model.h"
static void row(const char *table, size_t i, const VariableInfo *v)
{
    printf("%s\t%zu\t%s\t%s\t%s\t%d\n", table, i, v->name, v->units, v->component, (int) v->type);
}
int main(void)
{
    printf("sizeof\t%zu\t%zu\t%zu\n", sizeof(((VariableInfo *) 0)->name), sizeof(((VariableInfo *) 0)->units), sizeof(((VariableInfo *) 0)->component));
    printf("version\t%s\t%s\n", VERSION, LIBCELLML_VERSION);
#if C17_ODE
    printf("STATE_COUNT\t%zu\n", STATE_COUNT);
    row("VOI_INFO", 0, &VOI_INFO);
    for (size_t i = 0; i < STATE_COUNT; ++i) row("STATE_INFO", i, &STATE_INFO[i]);
    double *s = createStatesArray();
    deleteArray(s);
#endif
    printf("VARIABLE_COUNT\t%zu\n", VARIABLE_COUNT);
    for (size_t i = 0; i < VARIABLE_COUNT; ++i) row("VARIABLE_INFO", i, &VARIABLE_INFO[i]);
    double *v = createVariablesArray();
    deleteArray(v);
    /* the addresses are only taken: every declared function must be defined in the object */
    printf("functions\t%d\n", (initialiseVariables != 0) + (computeComputedConstants != 0) + (computeVariables != 0)
#if C17_ODE
           + (computeRates != 0)
#endif
    );
    printf("end\n");
    return 0;
}
#if C17_NLA
void nlaSolve(void (*objectiveFunction)(double *, double *, void *), double *u, size_t n, void *data)
{
    (void) objectiveFunction; (void) u; (void) n; (void) data;
}
#endif
'''

_PY_RUNNER = r'''# runner written by checks/c17.py
import inspect, json, math, sys, types
_m = types.ModuleType("nlasolver")
_m.nla_solve = lambda objective_function, u, n, data: u
sys.modules["nlasolver"] = _m
out = {"loaded": False}
ns = {"__name__": "generated_model"}
try:
    exec(compile(open(sys.argv[1]).read(), sys.argv[1], "exec"), ns)
    out["loaded"] = True
except BaseException as ex:
    out["load_error"] = "%s: %s" % (type(ex).__name__, ex)
    print(json.dumps(out))
    sys.exit(0)
def info(d):
    return [d.get("name"), d.get("units"), d.get("component"), getattr(d.get("type"), "name", str(d.get("type")))]
for k in ("STATE_COUNT", "VARIABLE_COUNT", "__version__", "LIBCELLML_VERSION"):
    out[k] = ns.get(k)
out["VOI_INFO"] = info(ns["VOI_INFO"]) if "VOI_INFO" in ns else None
out["STATE_INFO"] = [info(d) for d in ns["STATE_INFO"]] if "STATE_INFO" in ns else None
out["VARIABLE_INFO"] = [info(d) for d in ns["VARIABLE_INFO"]] if "VARIABLE_INFO" in ns else None
out["enum"] = [e.name for e in ns["VariableType"]] if "VariableType" in ns else None
funcs = {n: f for n, f in ns.items() if inspect.isfunction(f) and f.__module__ == "generated_model"}
out["functions"] = {n: list(inspect.signature(f).parameters) for n, f in funcs.items()}
calls = {}
try:
    variables = ns["create_variables_array"]()
    states = ns["create_states_array"]() if "create_states_array" in ns else None
    rates = ns["create_states_array"]() if "create_states_array" in ns else None
    out["array_lengths"] = [None if states is None else len(states), len(variables)]
    ext_calls = []
    def external_variable(*a):
        ext_calls.append(a[-1])
        return 1.0
    pool = {"voi": 0.5, "states": states, "rates": rates, "variables": variables, "external_variable": external_variable}
    for name in ("initialise_variables", "compute_computed_constants", "compute_rates", "compute_variables"):
        if name not in funcs:
            calls[name] = "absent"
            continue
        try:
            funcs[name](*[pool[p] for p in out["functions"][name]])
            calls[name] = "ok"
        except (ZeroDivisionError, ValueError, OverflowError) as ex:
            calls[name] = "numeric"       # a domain error of this particular evaluation point: not a structural matter
        except BaseException as ex:
            calls[name] = "%s: %s" % (type(ex).__name__, ex)
    out["external_indices"] = sorted(set(ext_calls))
except BaseException as ex:
    calls["arrays"] = "%s: %s" % (type(ex).__name__, ex)
out["calls"] = calls
print(json.dumps(out))
'''


def _run(cmd, cwd, timeout):
    try:
        p = subprocess.run(cmd, cwd=cwd, timeout=timeout, stdout=subprocess.PIPE, stderr=subprocess.PIPE)
        return p.returncode, p.stdout.decode("utf-8", "replace"), p.stderr.decode("utf-8", "replace")
    except subprocess.TimeoutExpired:
        return 124, "", "TIMEOUT"


def compile_and_read_c(d, h, c, ode, nla):
    """strict compile of the generated file alone, then a main linked against the object"""
    os.makedirs(d, exist_ok=True)
    for fn, txt in (("model.h", h), ("model.c", c), ("main.c", _C_MAIN)):
        with open(os.path.join(d, fn), "w") as f:
            f.write(txt)
    res = {"compile_rc": None, "diagnostics": "", "link": None, "run": None, "out": {}}
    rc, out, err = _run(["cc", "-std=c11", "-O0"] + CFLAGS + ["-c", "model.c", "-o", "model.o"], d, 120)
    res["compile_rc"], res["diagnostics"] = rc, (out + err).strip()
    if rc != 0:
        # diagnostics of the known-finding classes: compile again without exactly those, so that everything else is
        # still judged (any other diagnostic stays fatal)
        kinds = set(re.findall(r"\[-Werror=([\w-]+)\]", res["diagnostics"]))
        res["diag_kinds"] = sorted(kinds)
        paren_ok = all(any(m in l for m in PAREN_MESSAGES) for l in res["diagnostics"].split("\n") if "-Werror=parentheses" in l)
        if kinds and kinds <= set(DIAG_FINDINGS) and paren_ok:
            rc, out, err = _run(["cc", "-std=c11", "-O0"] + CFLAGS + ["-Wno-" + k for k in sorted(kinds)] + ["-c", "model.c", "-o", "model.o"], d, 120)
            res["retry_rc"], res["retry_diagnostics"] = rc, (out + err).strip()
        if rc != 0 or res.get("retry_diagnostics"):
            return res
    rc, out, err = _run(["cc", "-O0", "-w", "-DC17_ODE=%d" % (1 if ode else 0), "-DC17_NLA=%d" % (1 if nla else 0),
                         "main.c", "model.o", "-lm", "-o", "prog"], d, 120)
    res["link"] = (rc, err[-1500:])
    if rc != 0:
        return res
    rc, out, err = _run([os.path.join(d, "prog")], d, 20)
    res["run"] = rc
    tables = {"STATE_INFO": [], "VARIABLE_INFO": []}
    parsed = {"tables": tables, "ended": False}
    for line in out.split("\n"):
        t = line.split("\t")
        if t[0] == "sizeof" and len(t) == 4:
            parsed["sizeof"] = {"name": int(t[1]), "units": int(t[2]), "component": int(t[3])}
        elif t[0] in ("STATE_COUNT", "VARIABLE_COUNT") and len(t) == 2:
            parsed[t[0]] = int(t[1])
        elif t[0] == "VOI_INFO" and len(t) == 6:
            parsed["VOI_INFO"] = (t[2], t[3], t[4], int(t[5]))
        elif t[0] in tables and len(t) == 6:
            tables[t[0]].append((int(t[1]), t[2], t[3], t[4], int(t[5])))
        elif t[0] == "functions":
            parsed["functions"] = int(t[1])
        elif t[0] == "end":
            parsed["ended"] = True
    res["out"] = parsed
    for fn in ("prog", "model.o"):
        try:
            os.remove(os.path.join(d, fn))
        except OSError:
            pass
    return res


def load_py(d, py):
    os.makedirs(d, exist_ok=True)
    with open(os.path.join(d, "model.py"), "w") as f:
        f.write(py)
    with open(os.path.join(d, "runner.py"), "w") as f:
        f.write(_PY_RUNNER)
    rc, out, err = _run([sys.executable or "python3", "runner.py", "model.py"], d, 30)
    try:
        return json.loads(out.strip().split("\n")[-1])
    except (ValueError, IndexError):
        return {"loaded": False, "load_error": "runner rc=%s: %s" % (rc, err[-500:])}


FINDROOT_FINDING = "C17-findroot-in-compute-computed-constants"


def findroot_in_constants(text, lang):
    """matcher of C17-findroot-in-compute-computed-constants on the generated text"""
    if lang == "C":
        m = re.search(r"^void computeComputedConstants\(double \*variables\)\n\{\n(.*?)^\}$", text, flags=re.M | re.S)
        return bool(m and re.search(r"findRoot\d+\(voi, states, rates, variables\)", m.group(1)))
    m = re.search(r"^def compute_computed_constants\(variables\):\n(.*?)(?=^\S|\Z)", text, flags=re.M | re.S)
    return bool(m and re.search(r"find_root_\d+\(voi, states, rates, variables\)", m.group(1)))


# --------------------------------------------------------------------------- judging one valid model
def c03_known_shape(text, lang):
    """narrow matcher for the C03 findings that make the generated text not compile / load (they are C03's, not C17's)"""
    if lang == "C":
        return bool(re.search(r"--\d", text) or re.search(r"\d[eE][+-]?\d+\.0", text))
    return bool(re.search(r"\d[eE][+-]?\d+\.0", text) or re.search(r" if [^\n]* if [^\n]* else [^\n]* else ", text))


def judge(model, info, pred, files, run_c, run_py):
    """-> list of (kind, text).  kind: 'tie' (extracted model vs library text), 'oracle' (independent parse / compile / load)"""
    P = []
    xml = model["xml"]
    need = M.needed_helpers(xml)
    ode = info["type"] in ("ode", "dae")
    nla = info["type"] in ("nla", "dae")
    ext = bool(info["ext"])
    h, c, py = files["h"], files["c"], files["py"]
    recs = {"states": info["states"], "variables": info["variables"]}
    all_recs = ([info["voi"]] + info["states"] if ode else []) + info["variables"]

    # ---- accessor coherence (what the C05 hypothesis says)
    for arr in ("states", "variables"):
        idx = [r["index"] for r in recs[arr]]
        if idx != list(range(len(idx))):
            P.append(("oracle", "AnalyserModel.%s(): indices %s are not 0..n-1 in order" % (arr, idx)))
    if info["stateCount"] != len(info["states"]) or info["variableCount"] != len(info["variables"]):
        P.append(("oracle", "stateCount()/variableCount() disagree with the lists"))
    if ext != any(r["type"] == "external" for r in info["variables"] + info["states"]):
        P.append(("oracle", "hasExternalVariables()=%s but the variable types say otherwise" % ext))

    # the hypothesis of C17_nla_systems_complete: nlaSiblings() are NLA equations of the same system
    for e in info["equations"]:
        if e["type"] == "nla":
            for sp in e["sibs"]:
                if sp >= len(info["equations"]) or info["equations"][sp]["type"] != "nla" or info["equations"][sp]["nla"] != e["nla"]:
                    P.append(("oracle", "an NLA equation of system %d lists equation %d as sibling, which is not an NLA equation of that system" % (e["nla"], sp)))

    # ---- need flags
    need_bits = "".join("1" if f in need else "0" for f in FLAG_NAMES)
    if info["need"] != need_bits:
        P.append(("oracle", "need*Function() = %s but the MathML uses exactly %s" % (
            [f for f, b in zip(FLAG_NAMES, info["need"]) if b == "1"], sorted(need))))
    if pred is None:
        P.append(("tie", "the extracted model produced no line"))
        return P
    if pred["flags"] != info["need"]:
        P.append(("tie", "need flags: library %s, model (analyse on the MathML) %s" % (info["need"], pred["flags"])))
    sub = all(a == "0" or b == "1" for a, b in zip(pred["astflags"], info["need"]))
    if not sub or (not ext and pred["astflags"] != info["need"]):
        P.append(("tie", "need flags of the final equation ASTs %s vs library %s (externals: %s)" % (pred["astflags"], info["need"], ext)))
    if not pred["wf"]:
        P.append(("tie", "wf_indices is false on the accessor dump"))

    # ---- profile objects with a history must generate what a fresh built-in profile generates
    hist = info.get("hist")
    if hist is not None and not all(hist.values()):
        P.append(("history", "Generator with a profile object that was customised and then reset by setProfile(): the text differs "
                             "from the one of a fresh profile for %s (history %s)" % (sorted(k for k, v in hist.items() if not v), model.get("history"))))

    # ---- tie: text
    if normalise_text(h) != pred["iface"]["C"]:
        a, b = normalise_text(h), pred["iface"]["C"]
        k = next((i for i in range(min(len(a), len(b))) if a[i] != b[i]), min(len(a), len(b)))
        P.append(("tie", "C interface differs from the model at offset %d: printed %r, predicted %r" % (k, a[k:k + 70], b[k:k + 70])))
    if pred["iface"]["Py"] != "" or info["py_iface_len"] != 0:
        P.append(("tie", "Python interface: library %d characters, model %d" % (info["py_iface_len"], len(pred["iface"]["Py"]))))
    bodies = {}
    for lang, text in (("C", c), ("Py", py)):
        prob, bodies[lang] = match_pieces(normalise_text(text), pred["impl"][lang])
        if prob:
            P.append(("tie", "%s implementation: %s" % (lang, prob)))
    # generateMethodBodyCode: an empty body is replaced by the profile's empty-method string ("pass" in Python)
    if any(b == "" for b in bodies.get("Py", [])):
        P.append(("tie", "Python implementation: a method frame is followed by no body (the model fills an empty body with %r)" % pred.get("empty_body", {}).get("Py")))

    # ---- oracle: structure of the C code
    pc = parse_c(h, c)
    pp = parse_py(py)
    for lang, parsed, tmap in (("C", pc, C_TYPE), ("Py", pp, C_TYPE)):
        for pr in parsed["problems"]:
            P.append(("oracle", "%s: %s" % (lang, pr)))
        if parsed["STATE_COUNT"] != (len(info["states"]) if ode else None):
            P.append(("oracle", "%s: STATE_COUNT is %s, the model has %s states (ode=%s)" % (lang, parsed["STATE_COUNT"], len(info["states"]), ode)))
        if parsed["VARIABLE_COUNT"] != len(info["variables"]):
            P.append(("oracle", "%s: VARIABLE_COUNT is %s, the model has %d variables" % (lang, parsed["VARIABLE_COUNT"], len(info["variables"]))))
        exp_voi = (info["voi"]["name"], info["voi"]["units"], info["voi"]["component"], "VARIABLE_OF_INTEGRATION") if ode else None
        if parsed["VOI_INFO"] != exp_voi:
            P.append(("oracle", "%s: VOI_INFO is %s, expected %s" % (lang, parsed["VOI_INFO"], exp_voi)))
        for name, arr in (("STATE_INFO", "states"), ("VARIABLE_INFO", "variables")):
            rows = parsed[name]
            if arr == "states" and not ode:
                if rows is not None:
                    P.append(("oracle", "%s: STATE_INFO emitted for a model without ODEs" % lang))
                continue
            if rows is None:
                P.append(("oracle", "%s: %s is missing" % (lang, name)))
                continue
            if len(rows) != len(recs[arr]):
                P.append(("oracle", "%s: %s has %d rows, the model has %d %s" % (lang, name, len(rows), len(recs[arr]), arr)))
            for r in recs[arr]:
                exp = (r["name"], r["units"], r["component"], tmap[r["type"]])
                got = rows[r["index"]] if r["index"] < len(rows) else None
                if got != exp:
                    P.append(("oracle", "%s: %s[%d] is %s but the analyser variable with index %d is %s" % (lang, name, r["index"], got, r["index"], exp)))
        exp_enum = (["VARIABLE_OF_INTEGRATION", "STATE"] if ode else []) + ["CONSTANT", "COMPUTED_CONSTANT", "ALGEBRAIC"] + (["EXTERNAL"] if ext else [])
        if parsed["enum"] != exp_enum:
            P.append(("oracle", "%s: VariableType is %s, expected %s" % (lang, parsed["enum"], exp_enum)))
    # buffers
    if pc["sizes"] is None:
        P.append(("oracle", "C: the VariableInfo struct was not found in the interface"))
    else:
        for field in ("name", "units", "component"):
            longest = max(len(r[field].encode("utf-8")) for r in all_recs)
            if longest >= pc["sizes"][field]:
                P.append(("oracle", "C: char %s[%d] cannot hold a %s of %d bytes plus the terminator" % (field, pc["sizes"][field], field, longest)))
            elif pc["sizes"][field] != longest + 1:
                P.append(("oracle", "C: char %s[%d] but the longest %s needs %d" % (field, pc["sizes"][field], field, longest + 1)))
        if (pc["sizes"]["component"], pc["sizes"]["name"], pc["sizes"]["units"]) != pred["sizes"]:
            P.append(("tie", "buffer sizes (component, name, units): library %s, model %s" % (
                (pc["sizes"]["component"], pc["sizes"]["name"], pc["sizes"]["units"]), pred["sizes"])))
    # declarations
    for n, want in (("STATE_COUNT", ode), ("VARIABLE_COUNT", True)):
        if pc["decl_counts"][n] != (1 if want else 0):
            P.append(("oracle", "C interface declares %s %d times (ode=%s)" % (n, pc["decl_counts"][n], ode)))
    for n, want in (("VOI_INFO", ode), ("STATE_INFO", ode), ("VARIABLE_INFO", True)):
        if pc["decl_info"][n] != (1 if want else 0):
            P.append(("oracle", "C interface declares %s %d times (ode=%s)" % (n, pc["decl_info"][n], ode)))
    if len(pc["external_typedef"]) != (1 if ext else 0):
        P.append(("oracle", "C interface: %d ExternalVariable typedefs (externals=%s)" % (len(pc["external_typedef"]), ext)))
    exp_protos = (["createStatesArray"] if ode else []) + ["createVariablesArray", "deleteArray", "initialiseVariables", "computeComputedConstants"] + \
        (["computeRates"] if ode else []) + ["computeVariables"]
    if [sig_name(s) for s in pc["prototypes"]] != exp_protos:
        P.append(("oracle", "C interface declares %s, expected %s for (ode=%s, externals=%s)" % ([sig_name(s) for s in pc["prototypes"]], exp_protos, ode, ext)))
    for s in pc["prototypes"]:
        n = pc["definitions"].count(s)
        if n != 1:
            same_name = [d for d in pc["definitions"] if sig_name(d) == sig_name(s)]
            P.append(("oracle", "C: %r is declared in the interface and defined %d times with that signature (definitions of that name: %s)" % (s, n, same_name)))
        if ("ExternalVariable externalVariable" in s) != (ext and sig_name(s) in ("initialiseVariables", "computeRates", "computeVariables")):
            P.append(("oracle", "C: %r: externalVariable parameter does not match externals=%s" % (s, ext)))
    names = [sig_name(d) for d in pc["definitions"]]
    dup = sorted({n for n in names if names.count(n) > 1})
    if dup:
        P.append(("oracle", "C: functions defined more than once: %s" % dup))
    pynames = [d[0] for d in pp["definitions"]]
    dup = sorted({n for n in pynames if pynames.count(n) > 1})
    if dup:
        P.append(("oracle", "Python: functions defined more than once: %s" % dup))
    exp_py = (["create_states_array"] if ode else []) + ["create_variables_array", "initialise_variables", "compute_computed_constants"] + \
        (["compute_rates"] if ode else []) + ["compute_variables"]
    std_py = [n for n in pynames if n in ("create_states_array", "create_variables_array", "initialise_variables", "compute_computed_constants", "compute_rates", "compute_variables")]
    if std_py != exp_py:
        P.append(("oracle", "Python defines %s, expected %s" % (std_py, exp_py)))
    if pred["decl"]["C"] != pc["prototypes"]:
        P.append(("tie", "declared signatures: library %s, model %s" % (pc["prototypes"], pred["decl"]["C"])))
    if pred["def"]["C"] != pc["definitions"]:
        P.append(("tie", "defined signatures (C): library %s, model %s" % (pc["definitions"], pred["def"]["C"])))
    if pred["def"]["Py"] != ["def %s(%s):" % d for d in pp["definitions"]]:
        P.append(("tie", "defined signatures (Python): library %s, model %s" % (pp["definitions"], pred["def"]["Py"])))
    # NLA systems
    nobj = sorted(int(x) for x in re.findall(r"^void objectiveFunction(\d+)\(", c, flags=re.M))
    nfind = sorted(int(x) for x in re.findall(r"^void findRoot(\d+)\(", c, flags=re.M))
    exp_nla = sorted({e["nla"] for e in info["equations"] if e["type"] == "nla"})
    if nobj != exp_nla or nfind != exp_nla:
        P.append(("oracle", "C: objectiveFunction %s / findRoot %s, the model's NLA systems are %s" % (nobj, nfind, exp_nla)))
    # call sites <-> definitions of the NLA functions, both profiles: every called function is defined exactly once, every
    # defined findRoot is called, findRoot<i> hands objectiveFunction<i> to the solver
    for lang, text, def_find, def_obj, call_find, use_obj, block in (
            ("C", c, r"^void findRoot(\d+)\(", r"^void objectiveFunction(\d+)\(", r"^\s+findRoot(\d+)\(", r"nlaSolve\(objectiveFunction(\d+),",
             r"^void findRoot(\d+)\([^\n]*\n\{\n(.*?)^\}$"),
            ("Py", py, r"^def find_root_(\d+)\(", r"^def objective_function_(\d+)\(", r"^\s+find_root_(\d+)\(", r"nla_solve\(objective_function_(\d+),",
             r"^def find_root_(\d+)\([^\n]*\n(.*?)(?=^\S|\Z)")):
        dfind = [int(x) for x in re.findall(def_find, text, flags=re.M)]
        dobj = [int(x) for x in re.findall(def_obj, text, flags=re.M)]
        cfind = sorted({int(x) for x in re.findall(call_find, text, flags=re.M)})
        uobj = sorted({int(x) for x in re.findall(use_obj, text)})
        if sorted(dfind) != exp_nla or sorted(dobj) != exp_nla:
            P.append(("oracle", "%s: findRoot %s / objectiveFunction %s defined, the model's NLA systems (nlaSystemIndex) are %s" % (lang, sorted(dfind), sorted(dobj), exp_nla)))
        if cfind != sorted(set(dfind)):
            P.append(("oracle", "%s: findRoot called for systems %s, defined for %s" % (lang, cfind, sorted(dfind))))
        if uobj != sorted(set(dobj)):
            P.append(("oracle", "%s: objectiveFunction handed to the solver for systems %s, defined for %s" % (lang, uobj, sorted(dobj))))
        for i, body in re.findall(block, text, flags=re.M | re.S):
            inner = re.findall(use_obj, body)
            if inner != [i]:
                P.append(("oracle", "%s: findRoot%s hands objectiveFunction%s to the solver" % (lang, i, inner)))
    if sorted(i for i, _ in pred["nla"]) != exp_nla:
        P.append(("tie", "NLA systems: model %s, accessors %s" % (pred["nla"], exp_nla)))
    if bool(exp_nla) != nla:
        P.append(("oracle", "model type %s but NLA systems %s" % (info["type"], exp_nla)))
    # helpers
    for lang, text, table, names_def in (("C", c, C_HELPER_DEF, names), ("Py", py, PY_HELPER_DEF, pynames)):
        defined = {f for f, n in table.items() if n in names_def}
        expected = {f for f in need if f in table}
        if defined != expected:
            P.append(("oracle", "%s: helper functions defined %s, the MathML needs %s" % (lang, sorted(defined), sorted(expected))))
        called = called_names(text, set(table.values()))
        undefined = sorted(n for n in called if n not in names_def)
        if undefined:
            P.append(("oracle", "%s: %s called but not defined" % (lang, undefined)))
        # emitted exactly when the equations use them: a definition that nothing calls
        unused = sorted(f for f in defined if table[f] not in called)
        if unused:
            kept = {f for f, bit in zip(FLAG_NAMES, pred["astflags"]) if bit == "1"}
            if ext and not (set(unused) & kept):
                P.append(("known:C17-helper-for-externalised-equation",
                          "%s implementation of model %s (externals %s): %s defined but never called" % (
                              lang, model["name"], ",".join(model.get("externals") or []), ", ".join(table[f] for f in unused))))
            else:
                P.append(("oracle", "%s: helper functions %s are defined but never called (externals=%s, flags of the kept ASTs %s)" % (
                    lang, unused, ext, sorted(kept))))
        if sorted(pred["helpers"][lang]) != sorted(defined):
            P.append(("tie", "%s helper set: library %s, model %s" % (lang, sorted(defined), sorted(pred["helpers"][lang]))))
    # model's structured tables against the accessor records
    for lang in ("C", "Py"):
        pref = "" if lang == "C" else "VariableType."
        for arr, key in (("states", "states"), ("variables", "vars")):
            exp = [(r["name"], r["units"], r["component"], pref + C_TYPE[r["type"]]) for r in recs[arr]]
            if pred[key][lang] != exp:
                P.append(("tie", "%s %s info table of the model differs from the accessor records" % (lang, arr)))

    # ---- compile and run
    if run_c is not None:
        compiled = run_c["compile_rc"] == 0 and not run_c["diagnostics"]
        if not compiled and run_c.get("retry_rc") == 0 and not run_c.get("retry_diagnostics"):
            # only diagnostics of the listed classes: each must be explained by its matcher on the equations' ASTs
            asts = [parse_ast(e["ast"]) for e in info["equations"] if e["ast"] != "_"]
            compiled = True
            for kind in run_c["diag_kinds"]:
                first = next((l for l in run_c["diagnostics"].split("\n") if "-Werror=" + kind in l), "")
                if DIAG_MATCHERS[kind](asts):
                    P.append(("known:" + DIAG_FINDINGS[kind], "cc %s -c on the generated C of model %s: %s" % (" ".join(CFLAGS), model["name"], first.strip()[:200])))
                else:
                    P.append(("oracle", "cc reports -W%s but no equation has the shape of %s: %s" % (kind, DIAG_FINDINGS[kind], first.strip()[:300])))
        if not compiled and ode and findroot_in_constants(c, "C") and all(
                re.search(r"‘(voi|states|rates)’ undeclared", l) for l in run_c["diagnostics"].split("\n") if "error:" in l):
            P.append(("known:" + FINDROOT_FINDING, "C implementation of model %s: computeComputedConstants(double *variables) calls findRoot<i>(voi, states, rates, variables): %s" % (
                model["name"], next((l.strip() for l in run_c["diagnostics"].split("\n") if "error:" in l), "")[:160])))
        elif not compiled:
            if c03_known_shape(c, "C"):
                P.append(("c03", "C text does not compile because of a C03 shape"))
            else:
                P.append(("oracle", "cc %s -c: rc=%s, diagnostics: %s" % (" ".join(CFLAGS), run_c["compile_rc"], (run_c.get("retry_diagnostics") or run_c["diagnostics"])[:600])))
        elif run_c["link"] is None or run_c["link"][0] != 0:
            P.append(("oracle", "the compiled object does not link with a main that uses every declared name: %s" % (run_c["link"],)))
        elif run_c["run"] != 0 or not run_c["out"].get("ended"):
            P.append(("oracle", "the program reading the compiled tables failed (rc=%s)" % run_c["run"]))
        else:
            o = run_c["out"]
            enum = (["VARIABLE_OF_INTEGRATION", "STATE"] if ode else []) + ["CONSTANT", "COMPUTED_CONSTANT", "ALGEBRAIC", "EXTERNAL"]
            if o.get("STATE_COUNT") != (len(info["states"]) if ode else None) or o.get("VARIABLE_COUNT") != len(info["variables"]):
                P.append(("oracle", "compiled object: STATE_COUNT=%s VARIABLE_COUNT=%s, model %d / %d" % (o.get("STATE_COUNT"), o.get("VARIABLE_COUNT"), len(info["states"]), len(info["variables"]))))
            if ode:
                v = info["voi"]
                if o.get("VOI_INFO") != (v["name"], v["units"], v["component"], enum.index("VARIABLE_OF_INTEGRATION")):
                    P.append(("oracle", "compiled object: VOI_INFO=%s" % (o.get("VOI_INFO"),)))
            for name, arr in (("STATE_INFO", "states"), ("VARIABLE_INFO", "variables")):
                if arr == "states" and not ode:
                    continue
                rows = {r[0]: r[1:] for r in o["tables"][name]}
                for r in recs[arr]:
                    exp = (r["name"], r["units"], r["component"], enum.index(C_TYPE[r["type"]]))
                    if rows.get(r["index"]) != exp:
                        P.append(("oracle", "compiled object: %s[%d]=%s, analyser variable %d is %s" % (name, r["index"], rows.get(r["index"]), r["index"], exp)))
            if pc["sizes"] and o.get("sizeof") != pc["sizes"]:
                P.append(("oracle", "compiled object: sizeof buffers %s, declared %s" % (o.get("sizeof"), pc["sizes"])))
            if o.get("functions") != (4 if ode else 3):
                P.append(("oracle", "compiled object: %s model functions" % o.get("functions")))
    if run_py is not None:
        if not run_py.get("loaded"):
            if c03_known_shape(py, "Py"):
                P.append(("c03", "Python text does not load because of a C03 shape"))
            else:
                P.append(("oracle", "the Python module does not load: %s" % run_py.get("load_error")))
        else:
            if run_py.get("STATE_COUNT") != (len(info["states"]) if ode else None) or run_py.get("VARIABLE_COUNT") != len(info["variables"]):
                P.append(("oracle", "Python module: STATE_COUNT=%s VARIABLE_COUNT=%s" % (run_py.get("STATE_COUNT"), run_py.get("VARIABLE_COUNT"))))
            if ode:
                v = info["voi"]
                if run_py.get("VOI_INFO") != [v["name"], v["units"], v["component"], "VARIABLE_OF_INTEGRATION"]:
                    P.append(("oracle", "Python module: VOI_INFO=%s" % run_py.get("VOI_INFO")))
            for name, arr in (("STATE_INFO", "states"), ("VARIABLE_INFO", "variables")):
                if arr == "states" and not ode:
                    continue
                rows = run_py.get(name) or []
                for r in recs[arr]:
                    exp = [r["name"], r["units"], r["component"], C_TYPE[r["type"]]]
                    got = rows[r["index"]] if r["index"] < len(rows) else None
                    if got != exp:
                        P.append(("oracle", "Python module: %s[%d]=%s, analyser variable %d is %s" % (name, r["index"], got, r["index"], exp)))
            if run_py.get("array_lengths") != [len(info["states"]) if ode else None, len(info["variables"])]:
                P.append(("oracle", "Python module: created arrays have lengths %s" % run_py.get("array_lengths")))
            for fn, res in sorted((run_py.get("calls") or {}).items()):
                want_absent = fn == "compute_rates" and not ode
                if res == "absent":
                    if not want_absent:
                        P.append(("oracle", "Python module: %s is not defined" % fn))
                elif res not in ("ok", "numeric"):
                    if fn == "compute_computed_constants" and ode and res.startswith("NameError: name 'voi'") and findroot_in_constants(py, "Py"):
                        P.append(("known:" + FINDROOT_FINDING, "Python implementation of model %s: compute_computed_constants(variables) calls find_root_<i>(voi, states, rates, variables): %s" % (model["name"], res)))
                    elif c03_known_shape(py, "Py"):
                        P.append(("c03", "Python text fails because of a C03 shape"))
                    else:
                        P.append(("oracle", "Python module: calling %s failed: %s" % (fn, res)))
            for fn, params in (run_py.get("functions") or {}).items():
                if fn in ("initialise_variables", "compute_rates", "compute_variables") and ("external_variable" in params) != ext:
                    P.append(("oracle", "Python module: %s%s does not match externals=%s" % (fn, tuple(params), ext)))
            exp_ext = sorted(r["index"] for r in info["variables"] if r["type"] == "external")
            if ext and run_py.get("calls", {}).get("compute_variables") == "ok" and run_py.get("external_indices") != exp_ext:
                P.append(("oracle", "Python module: external_variable called for indices %s, the external variables are %s" % (run_py.get("external_indices"), exp_ext)))
    return P


# --------------------------------------------------------------------------- batch
def process(drv, mdl, models, workdir, tag, compile_run=True):
    """models: [{"name","xml","externals","meta"}] -> list of result dicts"""
    os.makedirs(workdir, exist_ok=True)
    lines = []
    for m in models:
        p = os.path.join(workdir, m["name"] + ".cellml")
        with open(p, "w") as f:
            f.write(m["xml"])
        m["path"] = p
        lines.append(p + "\t" + (",".join(m.get("externals") or []) or "-") + "\t" + (m.get("history") or "-"))
    outs = run_sharded([drv, "gen"], lines, workdir, tag + "_drv")
    results, cases, case_of = [], [], {}
    for m, line in zip(models, outs):
        r = {"model": m, "line": line, "info": None, "status": "ok"}
        try:
            r["info"] = json.loads(line)
        except (ValueError, TypeError):
            r["status"] = "crashed"
        results.append(r)
        if r["info"] is not None:
            mml, _names = M.mml_of_xml(m["xml"])
            r["mml"] = mml
            if not r["info"]["ok"]:
                r["status"] = "rejected"
                info = {"type": r["info"]["type"] if r["info"]["type"] != "-" else "invalid", "version": "", "ext": False}
                case_of[len(cases)] = r
                cases.append(ocaml_case(info, mml))
            else:
                case_of[len(cases)] = r
                cases.append(ocaml_case(r["info"], mml))
    mouts = run_sharded([mdl], cases, workdir, tag + "_mdl") if cases else []
    for i, line in enumerate(mouts):
        case_of[i]["pred"] = parse_model_line(line or "")
        case_of[i]["pred_line"] = (line or "")[:300] if case_of[i]["pred"] is None else None
    jobs = []
    for r in results:
        if r["status"] != "ok":
            continue
        p = r["model"]["path"]
        r["files"] = {"h": open(p + ".h").read(), "c": open(p + ".c").read(), "py": open(p + ".py").read()}
        if compile_run:
            ode = r["info"]["type"] in ("ode", "dae")
            nla = r["info"]["type"] in ("nla", "dae")
            jobs.append((r, "c", (p + ".cdir", r["files"]["h"], r["files"]["c"], ode, nla)))
            jobs.append((r, "py", (p + ".pydir", r["files"]["py"])))

    def one(job):
        r, kind, args = job
        try:
            return compile_and_read_c(*args) if kind == "c" else load_py(*args)
        except Exception as ex:   # never let one model kill the batch
            return {"compile_rc": -1, "diagnostics": "check exception %r" % (ex,), "loaded": False, "load_error": repr(ex)}
    with ThreadPoolExecutor(max_workers=vf.NCPU) as ex:
        done = list(ex.map(one, jobs))
    for (r, kind, _), res in zip(jobs, done):
        r["run_" + kind] = res
    for r in results:
        if r["status"] == "ok":
            r["problems"] = judge(r["model"], r["info"], r.get("pred"), r["files"], r.get("run_c"), r.get("run_py"))
    return results


def cleanup(r):
    p = r["model"]["path"]
    for ext in ("", ".h", ".c", ".py"):
        try:
            os.remove(p + ext)
        except OSError:
            pass
    shutil.rmtree(p + ".cdir", ignore_errors=True)
    shutil.rmtree(p + ".pydir", ignore_errors=True)


def replay_content(r, problems):
    info = r["info"] or {}
    return {"mode": "model", "name": r["model"]["name"], "externals": r["model"].get("externals") or [], "meta": r["model"].get("meta"),
            "history": r["model"].get("history"),
            "problems": [t for _, t in problems][:12], "kinds": sorted({k for k, _ in problems}),
            "analyser": {k: info.get(k) for k in ("type", "ext", "stateCount", "variableCount", "voi", "states", "variables", "need")},
            "driver_line": r["line"][:3000], "model_line_error": r.get("pred_line"),
            "generated_interface_C": (r.get("files") or {}).get("h"), "generated_implementation_C": (r.get("files") or {}).get("c"),
            "generated_implementation_Python": (r.get("files") or {}).get("py"), "cellml": r["model"]["xml"]}


# --------------------------------------------------------------------------- the check
def run(ctx):
    t0 = time.time()
    quick = ctx.quick()
    ctx.proofs()
    ctx.assumptions += [
        "A-cc: the platform C compiler (cc, -std=c11) and CPython are the judges of 'compiles without diagnostics' and 'loads'; the "
        "diagnostics of other compilers are not examined",
        "method bodies are outside the model (C03): the extracted model predicts every character of the interface and of the "
        "implementation except the bodies of objectiveFunction<i>, findRoot<i>, initialiseVariables, computeComputedConstants, "
        "computeRates and computeVariables, which are only required to consist of indented lines",
        "modifiedProfile() (SHA-1 of the profile) is not modelled: 'a modified' / '.post0' are normalised away before comparing text",
        "the hypothesis of info_entry_i (indices dense, unique and in list order) is C05's theorem result_wf_indices; it is "
        "re-checked on the accessor dump of every model",
        "need-flags are compared at the MathML level (every <math> of the model, union over components) and at the level of the "
        "final equation ASTs; equations replaced by external variables keep their flags (observed, reported in input_distribution)",
    ]
    build = vf.build_repo("plain")
    workdir = os.path.join(ctx.workdir, "models")
    shutil.rmtree(workdir, ignore_errors=True)
    os.makedirs(workdir, exist_ok=True)
    drv_exe, members = build_driver(build)
    drv = _private_copy(drv_exe, workdir, "bin_c17_driver")
    mdl = _private_copy(vf.ocaml_driver("emit"), workdir, "bin_emit_model")
    genmdl = _private_copy(vf.ocaml_driver("gen"), workdir, "bin_gen_model")

    n_random = 40 if quick else 560
    n_extra = 76 if quick else 936
    seeds = [ctx.rng.getrandbits(48) for _ in range(n_random)]
    tg = time.time()
    gen = random_models(seeds, genmdl, workdir)
    gen_failed = [g for g in gen if "error" in g]
    models = [dict(m) for m in M.control_models()]
    for i, g in enumerate(gen):
        if "error" in g:
            continue
        ext = M.pick_externals(ctx.rng, g["xml"]) if ctx.rng.random() < 0.4 else []
        models.append({"name": "r%04d" % i, "xml": g["xml"], "externals": ext, "meta": {"family": "random", "seed": g["seed"],
                                                                                        "components": g["meta"].get("components"), "nla": g["meta"].get("nla")}})
    models += M.extra_models(ctx.rng, n_extra)
    models += M.buffer_models() + M.nla_elimination_models()
    # the externals dimension: for the four plain base models and some random models, analysed once WITHOUT externals to
    # learn the classes, every class x {one, all} marked external, and everything marked external
    bases = M.externals_base_models()
    n_rand_bases = 6 if quick else 40
    for i, g in enumerate([g for g in gen if "error" not in g][:n_rand_bases]):
        bases.append({"name": "xrand%03d" % i, "xml": g["xml"], "externals": [], "meta": {"family": "externals", "kind": "?", "cls": "-", "qty": "none"}})
    phase1 = process(drv, mdl, [dict(b) for b in bases], os.path.join(workdir, "phase1"), "xb", compile_run=False)
    for b, r1 in zip(bases, phase1):
        models.append(b)
        if r1["status"] == "ok":
            b["meta"]["kind"] = r1["info"]["type"]
            models += M.externals_matrix(b, r1["info"])
    shutil.rmtree(os.path.join(workdir, "phase1"), ignore_errors=True)
    # profile objects with a history (customised through the setters, then setProfile): a third of the models, and every
    # setter at once on the controls
    for m in models:
        if ctx.rng.random() < 0.34:
            m["history"] = random_history(ctx.rng, members)
    allset = ",".join(str(i) for i in range(len(members)))
    for tag in ("C", "PY"):
        for cm in M.control_models()[:2]:
            models.append(dict(cm, name="%s__history_all_%s" % (cm["name"], tag), history="%s:%s" % (tag, allset),
                               meta=dict(cm["meta"], family="history")))
        for i in (members.index(x) for x in PIECEWISE_MEMBERS if x in members):
            cm = M.control_models()[0]
            models.append(dict(cm, name="%s__history_%s_%s" % (cm["name"], members[i], tag), history="%s:%d" % (tag, i),
                               meta=dict(cm["meta"], family="history")))
    expected_findings = {}
    for fm in M.finding_models():
        expected_findings[fm["name"]] = fm["meta"]["expect"]
        models.append(fm)
    results = process(drv, mdl, models, workdir, "valid")
    hist = {"models": len(models), "ok": 0, "rejected": 0, "crashed": 0, "types": {}, "externals": {"with": 0, "without": 0},
            "combos_ode_ext": {}, "helpers_needed": {}, "placements": {}, "kinds": {}, "info_entries": {}, "nla_systems": 0,
            "flags_kept_for_externalised_equations": 0, "c03_shapes_skipped": 0, "known_findings": {}, "families": {}, "buffer_matrix": {}, "nla_multi_system_models": 0,
            "nla_index_gap_models": 0, "nla_elimination_indices": {}, "externals_matrix": {}, "ode_typed_models_without_states": 0,
            "profile_histories": {"models": 0, "setters_applied": 0, "distinct_setters": 0, "initial_tag": {}, "all_setters": 0}, "violations": 0, "generator_failures": len(gen_failed),
            "rejected_samples": []}
    distinct, nontrivial = set(), set()
    used_setters = set()
    nviol = 0
    evaluations = 0
    sample = None
    for r in results:
        m = r["model"]
        fam = m["meta"].get("family", "?")
        hist["families"][fam] = hist["families"].get(fam, 0) + 1
        if r["status"] == "crashed":
            hist["crashed"] += 1
            nviol += 1
            if nviol <= 5:
                ctx.violation("C17 model %s: the pipeline driver reported %s" % (m["name"], r["line"][:60]), "model_%s.json" % m["name"], replay_content(r, [("oracle", r["line"][:200])]))
            continue
        if fam == "externals" and r["status"] in ("ok", "rejected"):
            cell = "%s/%s/%s" % (m["meta"]["kind"], m["meta"]["cls"], m["meta"]["qty"])
            res_ = r["info"]["type"] if r["status"] == "ok" else "refused:" + r["info"]["type"]
            hist["externals_matrix"].setdefault(cell, {})
            hist["externals_matrix"][cell][res_] = hist["externals_matrix"][cell].get(res_, 0) + 1
        if r["status"] == "rejected":
            # a model of the valid families that the analyser refuses (externals can do that): both strings must be empty
            hist["rejected"] += 1
            if len(hist["rejected_samples"]) < 4:
                hist["rejected_samples"].append("%s %s: %s" % (m["name"], r["info"]["type"], r["info"].get("first", "")[:120]))
            lens = [r["info"][k] for k in ("c_iface_len", "c_impl_len", "py_iface_len", "py_impl_len")]
            pred = r.get("pred")
            if any(lens) or pred is None or pred["iface"]["C"] or pred["impl"]["C"] or pred["impl"]["Py"]:
                nviol += 1
                if nviol <= 5:
                    ctx.violation("C17 model %s of type %s: code strings not empty (lengths %s)" % (m["name"], r["info"]["type"], lens),
                                  "model_%s.json" % m["name"], replay_content(r, [("oracle", "non-valid model, code lengths %s" % lens)]))
            evaluations += 4
            cleanup(r)
            continue
        hist["ok"] += 1
        info = r["info"]
        ode, ext = info["type"] in ("ode", "dae"), bool(info["ext"])
        hist["types"][info["type"]] = hist["types"].get(info["type"], 0) + 1
        hist["externals"]["with" if ext else "without"] += 1
        key = "ode=%d,ext=%d" % (ode, ext)
        hist["combos_ode_ext"][key] = hist["combos_ode_ext"].get(key, 0) + 1
        need = sorted(M.needed_helpers(m["xml"]))
        for f in need:
            hist["helpers_needed"][f] = hist["helpers_needed"].get(f, 0) + 1
        if fam == "extra":
            hist["placements"][m["meta"]["placement"]] = hist["placements"].get(m["meta"]["placement"], 0) + 1
            hist["kinds"][m["meta"]["kind"]] = hist["kinds"].get(m["meta"]["kind"], 0) + 1
        n_entries = len(info["states"]) + len(info["variables"]) + (1 if ode else 0)
        b = "1" if n_entries == 1 else "2-5" if n_entries <= 5 else "6-15" if n_entries <= 15 else "16+"
        hist["info_entries"][b] = hist["info_entries"].get(b, 0) + 1
        hist["nla_systems"] += len({e["nla"] for e in info["equations"] if e["type"] == "nla"})
        if r.get("pred") and ext and r["pred"]["astflags"] != info["need"]:
            hist["flags_kept_for_externalised_equations"] += 1
        # buffer matrix: which class of variable carries the STRICTLY longest string of each field (measured on the dump)
        carriers = ([("voi", info["voi"])] + [("state", x) for x in info["states"]] if ode else []) + [(x["type"], x) for x in info["variables"]]
        for field in ("name", "units", "component"):
            longest = max(len(x[field]) for _, x in carriers)
            classes = {cl for cl, x in carriers if len(x[field]) == longest}
            if len(classes) == 1:
                cell = "%s/%s/%s" % (info["type"], field, classes.pop())
                hist["buffer_matrix"][cell] = hist["buffer_matrix"].get(cell, 0) + 1
        if ode and not info["states"]:
            hist["ode_typed_models_without_states"] += 1
        if m.get("history"):
            hm = history_members(m["history"], members)
            ph = hist["profile_histories"]
            ph["models"] += 1
            ph["setters_applied"] += len(hm)
            used_setters.update(hm)
            ph["initial_tag"][m["history"].split(":")[0]] = ph["initial_tag"].get(m["history"].split(":")[0], 0) + 1
            ph["all_setters"] += len(hm) == len(members)
        nla_idx = sorted({e["nla"] for e in info["equations"] if e["type"] == "nla"})
        if len(nla_idx) >= 2:
            hist["nla_multi_system_models"] += 1
        if nla_idx and nla_idx != list(range(len(nla_idx))):
            hist["nla_index_gap_models"] += 1
        if fam == "nla_elimination":
            key = "%s:%s" % (m["meta"]["kind"], ",".join(str(i) for i in nla_idx) or "-")
            hist["nla_elimination_indices"][key] = hist["nla_elimination_indices"].get(key, 0) + 1
        hid = hashlib.sha256((m["xml"] + "|" + ",".join(m.get("externals") or []) + "|" + (m.get("history") or "")).encode()).hexdigest()
        distinct.add(hid)
        if need or n_entries >= 2:
            nontrivial.add(hid)
        evaluations += 2
        probs = r["problems"]
        hist["c03_shapes_skipped"] += any(k == "c03" for k, _ in probs)
        real = []
        seen_here = {k[len("known:"):] for k, _ in probs if k.startswith("known:")}
        if m["name"] in expected_findings and expected_findings[m["name"]] not in seen_here:
            ctx.notes.append("the minimal model of known finding %s no longer shows it (repaired?)" % expected_findings[m["name"]])
        for k, t in probs:
            if k == "c03":
                continue
            if k == "history":
                # the one way a history may show: the two members loadProfile never assigns, through the 'modified profile' marker only
                hm = history_members(m.get("history"), members)
                if any(x in hm for x in PIECEWISE_MEMBERS) and not any(k2 == "tie" for k2, _ in probs):
                    k = "known:" + SETPROFILE_FINDING
                    t = "model %s, history %s...: %s" % (m["name"], m["history"][:40], t[:200])
            if k.startswith("known:"):
                fid = k[len("known:"):]
                if ctx.known_finding(fid, t):
                    hist["known_findings"][fid] = hist["known_findings"].get(fid, 0) + 1
                    continue
                t = "finding %s is observed but not listed as known: %s" % (fid, t)
            real.append((k, t))
        if sample is None and fam == "extra" and m["meta"]["placement"] == "piece_condition" and not real:
            sample = m["xml"]
        if real:
            nviol += 1
            if nviol <= 5:
                ctx.violation("C17 model %s (%s, externals=%s): %s" % (m["name"], info["type"], m.get("externals") or "none", real[0][1][:300]),
                              "model_%s.json" % m["name"], replay_content(r, real))
        else:
            cleanup(r)
    hist["violations"] = nviol
    hist["profile_histories"]["distinct_setters"] = len(used_setters)
    hist["profile_histories"]["setters_in_table"] = len(members)
    wanted = ["%s/%s/%s" % (k, f, c) for k, cs in M.BUFFER_KINDS.items() for f in ("name", "units", "component") for c in cs]
    hist["buffer_matrix_cells_wanted"] = len(wanted)
    hist["buffer_matrix_cells_missing"] = [w for w in wanted if w not in hist["buffer_matrix"]]
    if hist["buffer_matrix_cells_missing"]:
        ctx.notes.append("buffer matrix: no model with the strictly longest string on %s" % ", ".join(hist["buffer_matrix_cells_missing"][:8]))

    # ---------------- invalid analyser models and the generator's own guards
    inv = M.invalid_models()
    inv_dir = os.path.join(ctx.workdir, "invalid")
    shutil.rmtree(inv_dir, ignore_errors=True)
    os.makedirs(inv_dir, exist_ok=True)
    glines, gexp = ["nomodel"], [("-", "nomodel")]
    for name, xml, exts, typ in inv:
        p = os.path.join(inv_dir, name + ".cellml")
        open(p, "w").write(xml)
        glines.append("model %s %s" % (p, ",".join(exts) or "-"))
        gexp.append((typ, name))
    # a VALID model with no profile, and valid controls (must be non-empty: the guard is not vacuous)
    ctrl = M.control_models()[0]
    p = os.path.join(inv_dir, "valid_control.cellml")
    open(p, "w").write(ctrl["xml"])
    glines += ["noprofile %s -" % p, "model %s -" % p]
    gexp += [("ode", "noprofile"), ("ode", "valid_control")]
    gout = run_sharded([drv, "guards"], glines, inv_dir, "guards", nsh=1)
    inv_hist = {}
    inv_cases = []
    for (typ, name), line in zip(gexp, gout):
        evaluations += 4
        f = dict(x.split("=", 1) for x in (line or "").split() if "=" in x)
        if not f:
            nviol += 1
            ctx.violation("C17 guards: %s: driver reported %s" % (name, line), "guards_%s.json" % name, {"mode": "guards", "case": name, "line": line})
            continue
        inv_hist[f["type"]] = inv_hist.get(f["type"], 0) + 1
        lens = [int(f[k]) for k in ("c_iface", "c_impl", "py_iface", "py_impl")]
        if name == "valid_control":
            ok = f["valid"] == "1" and lens[0] > 0 and lens[1] > 0 and lens[2] == 0 and lens[3] > 0
            what = "a valid model must give non-empty C interface / implementations and an empty Python interface"
        else:
            ok = lens == [0, 0, 0, 0] and (name in ("nomodel", "noprofile") or f["valid"] == "0")
            what = "both code strings must be empty for both profiles"
        if name not in ("nomodel", "noprofile", "valid_control") and f["type"] != typ:
            ok, what = False, "the generator of invalid models expected analyser type %s" % typ
        if not ok:
            nviol += 1
            xml = dict((n, x) for n, x, _, _ in inv).get(name, ctrl["xml"])
            ctx.violation("C17 guards: case %s (type %s): lengths %s: %s" % (name, f["type"], lens, what), "guards_%s.json" % name,
                          {"mode": "guards", "case": name, "line": line, "expected_type": typ, "cellml": xml})
        if name not in ("nomodel", "noprofile", "valid_control"):
            inv_cases.append((name, ocaml_case({"type": f["type"], "version": "x", "ext": False}, M.mml_of_xml(dict((n, x) for n, x, _, _ in inv)[name])[0])))
    mo = run_sharded([mdl], [c for _, c in inv_cases], inv_dir, "inv_mdl", nsh=1) if inv_cases else []
    for (name, _), line in zip(inv_cases, mo):
        pred = parse_model_line(line or "")
        if pred is None or pred["iface"]["C"] or pred["iface"]["Py"] or pred["impl"]["C"] or pred["impl"]["Py"]:
            nviol += 1
            ctx.violation("C17 guards: the extracted model does not predict empty strings for %s" % name, "guards_model_%s.json" % name,
                          {"mode": "guards", "case": name, "model_line": (line or "")[:500]})
    hist["invalid_types_exercised"] = inv_hist

    ctx.cov["evaluations"] = evaluations
    ctx.cov["distinct_nontrivial"] = len(nontrivial)
    ctx.cov["externals_matrix"] = {"cells (type of the unmarked model / class marked external / how many) -> resulting analyser types": hist["externals_matrix"]}
    ctx.cov["buffer_matrix"] = {"cells (model type / field / class carrying the strictly longest string)": hist["buffer_matrix"],
                                "missing": hist["buffer_matrix_cells_missing"]}
    ctx.cov["rule"] = ("one evaluation = one (valid model, profile) pair put through the structural parse, the string-exact comparison with the "
                       "extracted model, the strict compile + table read-out (C) or the module load + calls (Python); or one code string of an "
                       "invalid / guard case.  non-trivial = at least one helper needed or at least two info entries; distinct by model text + externals.")
    ctx.cov["samples"] = [s for s in [sample, M.control_models()[2]["xml"]] if s][:2]
    ctx.cov["input_distribution"] = hist
    ctx.cov["traces_validated_against_impl"] = hist["ok"] * 2
    if gen_failed:
        ctx.notes.append("generator failures: %s" % "; ".join(g["error"][:120] for g in gen_failed[:3]))
    ctx.log("valid models %d ok / %d rejected / %d crashed; types %s; combos %s; invalid types %s; violations %d; %.1fs" % (
        hist["ok"], hist["rejected"], hist["crashed"], hist["types"], hist["combos_ode_ext"], inv_hist, nviol, time.time() - t0))


def replay(ctx, path):
    r = json.load(open(path))
    build = vf.build_repo("plain")
    workdir = os.path.join(ctx.workdir, "replay")
    shutil.rmtree(workdir, ignore_errors=True)
    os.makedirs(workdir, exist_ok=True)
    drv = _private_copy(build_driver(build)[0], workdir, "bin_c17_driver")
    mdl = _private_copy(vf.ocaml_driver("emit"), workdir, "bin_emit_model")
    if r.get("mode") == "guards":
        p = os.path.join(workdir, "case.cellml")
        line = "nomodel"
        if r["case"] != "nomodel":
            open(p, "w").write(r["cellml"])
            line = ("noprofile %s -" if r["case"] == "noprofile" else "model %s -") % p
        print("impl :", run_sharded([drv, "guards"], [line], workdir, "g", nsh=1)[0])
        return
    model = {"name": re.sub(r"\W", "_", r.get("name", "replay")), "xml": r["cellml"], "externals": r.get("externals") or [], "meta": r.get("meta") or {},
             "history": r.get("history")}
    res = process(drv, mdl, [model], workdir, "replay")[0]
    print("driver :", res["line"][:1500])
    print("status :", res["status"])
    for k, t in res.get("problems", []):
        print("PROBLEM (%s): %s" % (k, t))
    if res["status"] == "ok":
        print("model  : flags=%s astflags=%s sizes=%s helpers=%s" % (res["pred"]["flags"], res["pred"]["astflags"], res["pred"]["sizes"], res["pred"]["helpers"]) if res.get("pred") else "model  : no line")
        print("files  : %s.{h,c,py}" % res["model"]["path"])
