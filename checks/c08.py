"""C08 — unit compatibility and scaling obey the algebra of units.

proofs : Properties_C08.v over UnitsDefs.v (model of units.cpp / validator.cpp / analyser.cpp reductions) and the
         tables regenerated from /repo/src by tools/translate_units.py
tie    : extracted model vs a fresh build: every ordered pair of units of generated worlds through
         Units::compatible/equivalent/scalingFactor, per units isDefined/isBaseUnit/defineUnitsMap/updateUnitMultiplier,
         every ordered pair of names through validator.cpp:unitsAreEquivalent; sampled pairs through the public
         Validator and Analyser routes
search : the property's own laws evaluated on the implementation's output (equivalence relation, same-exponents,
         antisymmetry, cocycle on all triples, zero cases, equivalent = compatible & factor 1, SI ratio under the
         property's condition against an independent python reduction, validator / analyser agreement)
"""
import json
import math
import os
import subprocess
from fractions import Fraction as Fr

import vf

# ----------------------------------------------------------------------------- independent SI reference (python side)
BASE = ["ampere", "candela", "dimensionless", "kelvin", "kilogram", "metre", "mole", "second"]


def _d(**kw):
    return {k: Fr(v) for k, v in kw.items()}


SI = {  # name: (dimension over base units, log10 of the SI scale)
    "ampere": (_d(ampere=1), 0), "becquerel": (_d(second=-1), 0), "candela": (_d(candela=1), 0),
    "coulomb": (_d(ampere=1, second=1), 0), "dimensionless": ({}, 0),
    "farad": (_d(ampere=2, kilogram=-1, metre=-2, second=4), 0), "gram": (_d(kilogram=1), -3),
    "gray": (_d(metre=2, second=-2), 0), "henry": (_d(ampere=-2, kilogram=1, metre=2, second=-2), 0),
    "hertz": (_d(second=-1), 0), "joule": (_d(kilogram=1, metre=2, second=-2), 0), "katal": (_d(mole=1, second=-1), 0),
    "kelvin": (_d(kelvin=1), 0), "kilogram": (_d(kilogram=1), 0), "litre": (_d(metre=3), -3), "lumen": (_d(candela=1), 0),
    "lux": (_d(candela=1, metre=-2), 0), "metre": (_d(metre=1), 0), "mole": (_d(mole=1), 0),
    "newton": (_d(kilogram=1, metre=1, second=-2), 0), "ohm": (_d(ampere=-2, kilogram=1, metre=2, second=-3), 0),
    "pascal": (_d(kilogram=1, metre=-1, second=-2), 0), "radian": ({}, 0), "second": (_d(second=1), 0),
    "siemens": (_d(ampere=2, kilogram=-1, metre=-2, second=3), 0), "sievert": (_d(metre=2, second=-2), 0),
    "steradian": ({}, 0), "tesla": (_d(ampere=-1, kilogram=1, second=-2), 0),
    "volt": (_d(ampere=-1, kilogram=1, metre=2, second=-3), 0), "watt": (_d(kilogram=1, metre=2, second=-3), 0),
    "weber": (_d(ampere=-1, kilogram=1, metre=2, second=-2), 0),
}
PREFIX = {"yotta": 24, "zetta": 21, "exa": 18, "peta": 15, "tera": 12, "giga": 9, "mega": 6, "kilo": 3, "hecto": 2, "deca": 1,
          "deci": -1, "centi": -2, "milli": -3, "micro": -6, "nano": -9, "pico": -12, "femto": -15, "atto": -18, "zepto": -21,
          "yocto": -24}
COMMON_PREFIX = ["milli", "kilo", "centi", "micro", "mega", "deci", "hecto", "deca", "nano", "giga"]
EXPS = [Fr(1)] * 8 + [Fr(-1), Fr(-1), Fr(2), Fr(2), Fr(-2), Fr(3), Fr(-3), Fr(1, 2), Fr(-1, 2)]


def prefix_value(p):
    """int value of a prefix text, None when convertPrefixToInt reports failure"""
    if p == "":
        return 0
    if p in PREFIX:
        return PREFIX[p]
    t = p[1:] if p[:1] in "+-" else p
    if t.isdigit() and t.isascii():
        v = int(p)
        return v if -2 ** 31 <= v < 2 ** 31 else None
    return None


# ----------------------------------------------------------------------------- worlds

class World:
    """models: list of dict(kind 'M'|'L', units: list of dict(name, imp=(mj, ref) | ch=[(ref, prefix, exp, mlog)]))"""

    def __init__(self, models):
        self.models = models
        self.tops = [(mi, u["name"]) for mi, m in enumerate(models) for u in m["units"]]

    def line(self, mode="P", pair=None):
        t = [mode, str(len(self.models))]
        for m in self.models:
            t += [m["kind"], str(len(m["units"]))]
            for u in m["units"]:
                if "imp" in u:
                    t += [u["name"], "I", str(u["imp"][0]), u["imp"][1]]
                else:
                    t += [u["name"], "D", str(len(u["ch"]))]
                    for ref, pre, e, ml in u["ch"]:
                        t += [ref, pre or "-", str(e.numerator), str(e.denominator), str(ml.numerator), str(ml.denominator)]
        if pair:
            t += ["@", pair[0], pair[1]]
        return " ".join(t)

    def get(self, mi, name):
        if 0 <= mi < len(self.models):
            for u in self.models[mi]["units"]:
                if u["name"] == name:
                    return u
        return None

    # ---- independent reduction (CellML semantics; python side of the oracle)
    def is_base(self, mi, name, depth=0):
        u = self.get(mi, name)
        if u is None or depth > 50:
            return False
        if "imp" in u:
            return self.is_base(u["imp"][0], u["imp"][1], depth + 1)
        return not u["ch"] and (name not in SI or name in BASE)

    def defined(self, mi, name, depth=0):
        u = self.get(mi, name)
        if u is None or depth > 50:
            return False
        if "imp" in u:
            return self.defined(u["imp"][0], u["imp"][1], depth + 1)
        return all(ref in SI or self.defined(mi, ref, depth + 1) for ref, _, _, _ in u["ch"])

    def walk(self, mi, name, fn, e=Fr(1), depth=0, idepth=0):
        """visit every units object in the closure with its accumulated exponent (idepth: number of imports above it)"""
        u = self.get(mi, name)
        if u is None or depth > 50:
            return
        fn(mi, name, u, e, idepth)
        if "imp" in u:
            self.walk(u["imp"][0], u["imp"][1], fn, e, depth + 1, idepth + 1)
        else:
            for ref, _, ex, _ in u["ch"]:
                if ref not in SI:
                    self.walk(mi, ref, fn, e * ex, depth + 1, idepth)

    def dims(self, mi, name):
        """dimension of a defined units: dict base unit -> exponent (zeros and dimensionless dropped).  An imported base
        unit is a base unit named as the importing units (what flattening turns it into)."""
        out = {}

        def add(k, v):
            out[k] = out.get(k, Fr(0)) + v

        def go(mi, name, e):
            u = self.get(mi, name)
            if self.is_base(mi, name):
                add(name, e)
            elif "imp" in u:
                go(u["imp"][0], u["imp"][1], e)
            elif not u["ch"]:
                for k, v in SI[name][0].items():
                    add(k, v * e)
            else:
                for ref, _, ex, _ in u["ch"]:
                    if ref in SI:
                        for k, v in SI[ref][0].items():
                            add(k, v * ex * e)
                    else:
                        go(mi, ref, ex * e)
        go(mi, name, Fr(1))
        return {k: v for k, v in out.items() if v != 0 and k != "dimensionless"}

    def si_log(self, mi, name):
        """log10 of the SI scale, CellML 2.0 reading: a unit child is multiplier * (prefix * ref)^exponent"""
        u = self.get(mi, name)
        if "imp" in u:
            return self.si_log(u["imp"][0], u["imp"][1])
        if not u["ch"]:
            return Fr(SI[name][1]) if (name in SI and name not in BASE) else Fr(0)
        s = Fr(0)
        for ref, pre, ex, ml in u["ch"]:
            s += ml + ex * (prefix_value(pre) + (SI[ref][1] if ref in SI else self.si_log(mi, ref)))
        return s

    def facts(self, mi, name):
        """structural facts about the closure of a units, used by the carve-outs and the finding matchers"""
        f = {"imports": False, "import_exp_ne1": False, "bad_prefix": False, "exp_ne1_scaled": False, "exp_ne1": False,
             "scaled_compound_ref": False, "bare_std_scaled": False, "import_visits": 0, "import_of_import": False,
             "import_targets": set()}

        def fn(mi2, n2, u, e, idepth):
            if "imp" in u:
                f["imports"] = True
                f["import_visits"] += 1
                f["import_targets"].add(u["imp"][0])
                if idepth >= 1:
                    f["import_of_import"] = True     # an import inside the closure of an imported units
                if e != 1 and not self.is_base(mi2, n2):
                    f["import_exp_ne1"] = True
            else:
                if not u["ch"] and n2 in SI and SI[n2][1] != 0:
                    f["bare_std_scaled"] = True
                for ref, pre, ex, ml in u["ch"]:
                    pv = prefix_value(pre)
                    if pv is None:
                        f["bad_prefix"] = True
                        pv = 0
                    if ex != 1:
                        f["exp_ne1"] = True
                        if pv != 0 or ml != 0:
                            f["exp_ne1_scaled"] = True
                    if ref not in SI and not self.is_base(mi2, ref) and (pv != 0 or ml != 0):
                        f["scaled_compound_ref"] = True
        self.walk(mi, name, fn)
        # the import history is never popped: a second visit of imported units after an import of an import looks like a cycle
        # (the source url of an epoch is the destination of the latest epoch with another destination: an outer import, or a
        # sibling import from another model)
        f["import_revisit"] = f["import_visits"] >= 3 and (f["import_of_import"] or len(f["import_targets"]) >= 2)
        return f


def gen_world(rng, valid_only=False):
    """valid_only: a model the validator accepts (no imports, no missing references, valid prefixes)"""
    stdnames = sorted(SI)
    nlib = 0 if valid_only else rng.choice([0, 0, 0, 1, 1, 2])
    models = []
    counter = [0]

    def fresh(prefix):
        counter[0] += 1
        return "%s%d" % (prefix, counter[0])

    def gen_model(mi, nunits, later_models):
        units = []
        depth = {}
        for _ in range(nunits):
            r = rng.random()
            if r < 0.12:
                name = fresh("B")
                units.append({"name": name, "ch": []})
                depth[name] = 0
                continue
            if later_models and r < 0.12 + (0.3 if mi == 0 else 0.15):
                mj = rng.choice(later_models)
                cands = [u["name"] for u in models_by_index[mj]["units"]]
                k = rng.random()
                if k < 0.06 or not cands:
                    imp = (mj, "nowhere")
                elif k < 0.1:
                    imp = (-1, rng.choice(cands))
                else:
                    imp = (mj, rng.choice(cands))
                name = fresh("I")
                units.append({"name": name, "imp": imp})
                depth[name] = 1
                continue
            # twin of an earlier compound units: permuted / inlined / re-scaled
            comp = [u for u in units if u.get("ch")]
            if comp and r > 0.72:
                src = rng.choice(comp)
                ch = list(src["ch"])
                k = rng.random()
                if k < 0.3:
                    rng.shuffle(ch)
                elif k < 0.65:
                    # inline one reference to a compound units of this model
                    idx = [i for i, c in enumerate(ch) if c[0] not in SI and any(u["name"] == c[0] and u.get("ch") for u in units)]
                    if idx:
                        i = rng.choice(idx)
                        ref, pre, ex, ml = ch[i]
                        inner = next(u for u in units if u["name"] == ref)
                        new = [(r2, p2, e2 * ex, m2 * ex if rng.random() < 0.5 else m2) for r2, p2, e2, m2 in inner["ch"]]
                        if pre or ml != 0:
                            new.append(("dimensionless", pre, Fr(1), ml))
                        ch = ch[:i] + new + ch[i + 1:]
                    else:
                        rng.shuffle(ch)
                else:
                    i = rng.randrange(len(ch))
                    ref, pre, ex, ml = ch[i]
                    ch[i] = (ref, rng.choice(["", rng.choice(COMMON_PREFIX)]), ex, Fr(rng.choice([0, 0, 1, -1, 3, -3])))
                    rng.shuffle(ch)
                d = 1 + max([depth.get(c[0], 0) for c in ch] + [0])
                if d <= 4:
                    name = fresh("t")
                    units.append({"name": name, "ch": ch})
                    depth[name] = d
                    continue
            ch = []
            for _ in range(rng.choice([1, 1, 1, 2, 2, 3])):
                k = rng.random()
                earlier = [n for n in depth if depth[n] <= 3]
                if k < 0.55 or not earlier:
                    ref = rng.choice(stdnames)
                elif k < 0.97 or valid_only:
                    ref = rng.choice(earlier)
                else:
                    ref = "nowhere"
                k = rng.random()
                if k < 0.5:
                    pre = ""
                elif k < 0.8:
                    pre = rng.choice(COMMON_PREFIX)
                elif k < 0.84:
                    pre = rng.choice(sorted(PREFIX))
                elif k < 0.975 or valid_only:
                    pre = rng.choice(["3", "-2", "+1", "0", "-6", "12", "2", "-1"])
                else:
                    pre = rng.choice(["foo", "1.5", "99999999999", "kilos", "-", "1e3"])
                ex = rng.choice(EXPS)
                ml = Fr(rng.choice([0] * 7 + [1, -1, 2, -2, 3, -3, 6, -6]))
                ch.append((ref, pre, ex, ml))
            name = fresh("u")
            units.append({"name": name, "ch": ch})
            depth[name] = 1 + max([depth.get(c[0], 0) for c in ch] + [0])
        if mi == 0 and rng.random() < 0.5:
            gen_chain(units, depth)
        return units

    def gen_chain(units, depth):
        """a chain U1 -> U2 -> U3 -> U4 of user units in which an exponent != 1, a multiplier != 1 and a prefix != 0 sit on
        chosen levels (all 27 combinations of levels 1..3 are drawn uniformly)"""
        le, lm, lp = rng.choice([1, 2, 3]), rng.choice([1, 2, 3]), rng.choice([1, 2, 3])
        if rng.random() < 0.5:
            leaf = fresh("B")
            units.append({"name": leaf, "ch": []})
            depth[leaf] = 0
        else:
            leaf = fresh("c")
            units.append({"name": leaf, "ch": [(rng.choice(stdnames), rng.choice(["", "", rng.choice(COMMON_PREFIX)]),
                                                rng.choice(EXPS), Fr(rng.choice([0, 0, 1, -3])))]})
            depth[leaf] = 1
        below = leaf
        for level in (3, 2, 1):
            ex = rng.choice([Fr(2), Fr(-1), Fr(3), Fr(-2), Fr(1, 2), Fr(-1, 2)]) if le == level else Fr(1)
            ml = Fr(rng.choice([1, -1, 2, -2, 3, -3])) if lm == level else Fr(0)
            pre = rng.choice(COMMON_PREFIX + ["3", "-2", "+1", "-6"]) if lp == level else ""
            ch = [(below, pre, ex, ml)]
            if rng.random() < 0.3:
                ch.insert(rng.randrange(2), (rng.choice(stdnames), "", Fr(1), Fr(0)))
            name = fresh("c")
            units.append({"name": name, "ch": ch})
            depth[name] = depth[below] + 1
            below = name

    models_by_index = {}
    total = 1 + nlib
    for mi in range(total - 1, -1, -1):
        later = list(range(mi + 1, total))
        n = rng.choice([3, 4, 5, 6, 7, 8]) if mi == 0 else rng.choice([1, 2, 3, 4])
        models_by_index[mi] = {"kind": "M", "units": gen_model(mi, n, later)}
    models = [models_by_index[i] for i in range(total)]
    loose = rng.sample(["litre", "gram", "second", "metre", "kilogram", "newton", "dimensionless", "volt", "radian", "mole"],
                       rng.choice([0, 1, 1, 2]))
    if loose:
        models.append({"kind": "L", "units": [{"name": n, "ch": []} for n in loose]})
    return World(models)


def level_coverage(w, cov):
    """cov[(le, lm, lp)] += 1 for every reference path from a units of model 0 on which an exponent != 1 sits on level le, a
    multiplier != 1 on level lm and a prefix != 0 on level lp (levels counted from the top units, 4 = 4 or deeper)"""
    def go(mi, name, level, E, M, P, depth):
        u = w.get(mi, name)
        if u is None or "imp" in u or depth > 8:
            return
        for ref, pre, ex, ml in u["ch"]:
            lv = min(level, 4)
            E2 = E | ({lv} if ex != 1 else set())
            M2 = M | ({lv} if ml != 0 else set())
            P2 = P | ({lv} if prefix_value(pre) not in (0, None) else set())
            t = w.get(mi, ref) if ref not in SI else None
            if t is not None and "ch" in t and t["ch"]:
                go(mi, ref, level + 1, E2, M2, P2, depth + 1)
            else:
                for a in E2:
                    for b in M2:
                        for c in P2:
                            cov[(a, b, c)] = cov.get((a, b, c), 0) + 1
    for (mi, name) in w.tops:
        if mi == 0:
            go(mi, name, 1, set(), set(), set(), 0)


def valid_subworld(w):
    """model 0 restricted to the units the validator accepts (closure without imports, missing references and invalid
    prefixes) plus the parent-less standard units: what the analyser can be run on"""
    keep = []
    for u in w.models[0]["units"]:
        if "ch" not in u:
            continue
        f = w.facts(0, u["name"])
        if w.defined(0, u["name"]) and not f["imports"] and not f["bad_prefix"]:
            keep.append(u)
    models = [{"kind": "M", "units": keep}] + [m for m in w.models if m["kind"] == "L"]
    return World(models)


def pair_names(w):
    return [nm for (mi, nm) in w.tops if mi == 0 or w.models[mi]["kind"] == "L"]


def parse_units_text(t):
    """'10^3 x metre x second^-2' -> (Fraction scale, {name: Fraction}); None when it cannot be read"""
    scale = Fr(0)
    dims = {}
    try:
        for it in t.split(" x "):
            if it.startswith("10^"):
                scale = Fr(float(it[3:])).limit_denominator(1 << 20)
            elif "^" in it:
                n, e = it.split("^")
                dims[n] = Fr(float(e)).limit_denominator(1 << 20)
            else:
                dims[it] = Fr(1)
    except ValueError:
        return None
    return scale, dims


def side_reduction(text):
    """one half of the analyser's warning -> ('shown', scale, dims) | ('name', dims-of-the-name) | ('dimensionless',) | None"""
    import re
    m = re.search(r"\(i\.e\. '([^']*)'\)", text)
    if m:
        r = parse_units_text(m.group(1))
        return None if r is None else ("shown",) + r
    if "is 'dimensionless'" in text:
        return ("dimensionless",)
    m = re.search(r" is in '([^']*)'", text)
    if m:
        r = parse_units_text(m.group(1))
        return None if r is None else ("name", r[1])
    return None


def truncated_hint(q):
    """what validator.cpp prints after 10^ for a log10 multiplier q: std::to_string, trailing zeros erased, then the LAST
    CHARACTER erased (regex ".$") — right for integers ("3." -> "3"), a digit short otherwise"""
    t = "%f" % float(q)
    t = t.rstrip("0")
    return float(t[:-1]) if t[:-1] not in ("", "-") else 0.0


def check_VB(ctx, w, il, ml, st):
    """public validator route on every ordered pair: issue <=> model status false; hint = model multiplier"""
    out = []
    names = pair_names(w)
    n = len(names)
    secs = ml.split("|")
    if not il.startswith("n=") or len(secs) != 2:
        return [("validator route: impl %s / model %s" % (il[:50], ml[:50]), None)]
    mp = secs[1].split()
    if len(mp) != n * n:
        return [("validator route: model line has %d pairs for %d names" % (len(mp), n), None)]
    got = {}
    for t in il.split()[1:]:
        k, h = t.split(":")
        if k in got:
            out.append(("validator reports the connection %s twice" % k, None))
        got[k] = h
    for i in range(n):
        for j in range(n):
            v = mp[i * n + j].split(";")[0]
            if v in ("F", "X"):
                out.append(("validator model %s on (%s,%s)" % (v, names[i], names[j]), None))
                continue
            s_, q_ = v.split(",")
            q = parse_q(q_)
            key = "%d_%d" % (i, j)
            st["pairs"] += 1
            if (key in got) != (s_ == "0"):
                out.append(("validator route (%s,%s): units issue reported=%d, model status=%s" % (names[i], names[j], key in got, s_), None))
                continue
            if key in got:
                st["issues"] += 1
                h = got[key]
                if (h == "none") != (q == 0):
                    out.append(("validator route (%s,%s): hint %s, model multiplier %s" % (names[i], names[j], h, q), None))
                elif h != "none":
                    st["hints"] += 1
                    if abs(float(h) - float(q)) <= 1e-6 * max(1.0, abs(float(q))):
                        pass
                    elif q.denominator != 1 and abs(float(h) - truncated_hint(q)) <= 1e-9:
                        out.append(("validator route (%s,%s): hint 10^%s for the multiplier 10^%s" % (names[i], names[j], h, q),
                                    "C08-validator-hint-last-digit"))
                    else:
                        out.append(("validator route (%s,%s): hint 10^%s, model multiplier %s" % (names[i], names[j], h, q), None))
    return out


def check_AB(ctx, w, il, ml, st, units_equiv):
    """public analyser route on every ordered pair of a validator-accepted world: warning <=> model ana_equiv false; the
    reduction printed for each side = model ana_scale / ana_map; oracle: warning <=> not Units::equivalent"""
    out = []
    names = pair_names(w)
    n = len(names)
    secs = ml.split("|")
    if not il.startswith("errors=") or len(secs) != 2:
        return [("analyser route: impl %s / model %s" % (il[:50], ml[:50]), None)]
    head = il.split(";")[0]
    if int(field(head, "errors")) > 0:
        return [("analyser route: the generated world is not accepted: %s" % head, None)]
    per = secs[0].split()
    mp = secs[1].split()
    if len(per) != n or len(mp) != n * n:
        return [("analyser route: model line has %d names / %d pairs for %d names" % (len(per), len(mp), n), None)]
    red = []
    for t in per:
        sc, m = t.split(";")
        if sc in ("F", "X") or m in ("F", "X"):
            red.append(None)
        else:
            red.append((parse_q(sc), {} if m == "{}" else {kv.split("=")[0]: parse_q(kv.split("=")[1]) for kv in m.split(",")}))
    recs = {}
    for r in il.split(";")[1:]:
        parts = r.split("#")
        if len(parts) != 3 or parts[0] == "?":
            st["unparsed"] += 1
            continue
        recs[parts[0]] = (parts[1], parts[2])
    fa = [w.facts(*_find(w, x)) for x in names]

    def side_ok(text, exp, what):
        sr = side_reduction(text)
        if sr is None:
            st["unparsed"] += 1
            return
        st["sides_compared"] += 1
        if sr[0] == "shown":
            if sr[1] != exp[0] or sr[2] != exp[1]:
                out.append(("analyser prints %s as 10^%s %s, model ana_scale/ana_map = 10^%s %s" % (what, sr[1], sr[2], exp[0], exp[1]), None))
        elif sr[0] == "dimensionless":
            if exp[0] != 0 or exp[1]:
                out.append(("analyser prints %s as dimensionless, model = 10^%s %s" % (what, exp[0], exp[1]), None))
        else:
            if exp[0] != 0 or (exp[1] and exp[1] != sr[1]):
                out.append(("analyser prints %s without a reduction, model = 10^%s %s" % (what, exp[0], exp[1]), None))

    for i in range(n):
        if red[i] is None:
            out.append(("analyser model fails on %s" % names[i], None))
            continue
        key = "%d_r" % i
        if key not in recs:
            out.append(("no units warning for %s against a fresh base unit" % names[i], None))
        else:
            side_ok(recs[key][0], red[i], names[i])
        for j in range(n):
            if red[j] is None:
                continue
            a = mp[i * n + j].split(";")[1]
            key = "%d_%d" % (i, j)
            st["pairs"] += 1
            if a not in "01" or (key in recs) != (a == "0"):
                out.append(("analyser route (%s,%s): units warning=%d, model ana_equiv=%s" % (names[i], names[j], key in recs, a), None))
                continue
            if key in recs:
                st["warnings"] += 1
                side_ok(recs[key][0], red[i], names[i])
                side_ok(recs[key][1], red[j], names[j])
            ue = units_equiv(names[i], names[j])
            if ue is not None and (key not in recs) != ue:
                inC = not any(f["exp_ne1"] or f["scaled_compound_ref"] for f in (fa[i], fa[j]))
                out.append(("analyser says the units of '%s = %s' are %sequivalent, Units::equivalent says %s" %
                            (names[i], names[j], "" if key not in recs else "not ", ue),
                            "C08-three-formulas-disagree" if not inC else None))
    return out


# ----------------------------------------------------------------------------- parsing of driver output

def parse_q(t):
    n, d = t.split("/")
    return Fr(int(n), int(d))


def parse_impl_P(line, w):
    secs = line.split("|")
    if len(secs) != 3:
        return None
    n = len(w.tops) + 1
    toks = secs[0].split()
    if len(toks) != n * n:
        return None
    pairs = [[None] * n for _ in range(n)]
    for i in range(n):
        for j in range(n):
            c, e, f = toks[i * n + j].split(",")
            pairs[i][j] = (c == "1", e == "1", float(f))
    info = []
    for t in secs[1].split():
        flags, mp, mu = t.split(";")
        m = None
        if mp == "{}":
            m = {}
        elif mp != "-":
            m = {kv.split("=")[0]: Fr(float(kv.split("=")[1])) for kv in mp.split(",")}
        info.append({"defined": flags[1] == "1", "base": flags[3] == "1", "map": m, "mult": None if mu == "N" else Fr(float(mu))})
    val = [(t.split(",")[0] == "1", Fr(float(t.split(",")[1]))) for t in secs[2].split()]
    return pairs, info, val


def parse_model_P(line, w):
    secs = line.split("|")
    if len(secs) != 3:
        return None
    n = len(w.tops) + 1
    toks = secs[0].split()
    if len(toks) != n * n:
        return None
    pairs = [[None] * n for _ in range(n)]
    for i in range(n):
        for j in range(n):
            c, e, f = toks[i * n + j].split(",")
            pairs[i][j] = (c, e, f)
    info = []
    for t in secs[1].split():
        flags, mp, mu = t.split(";")
        m = None
        if mp == "{}":
            m = {}
        elif mp not in ("-", "F", "X"):
            m = {kv.split("=")[0]: parse_q(kv.split("=")[1]) for kv in mp.split(",")}
        elif mp in ("F", "X"):
            m = mp
        info.append({"defined": flags[1], "base": flags[3], "map": m, "mult": mu})
    val = [t for t in secs[2].split()]
    return pairs, info, val


def pow10(q):
    x = float(q)
    if x > 300:
        return math.inf
    if x < -300:
        return 0.0
    return 10.0 ** x


def close(a, b, tol=1e-9):
    if a == b:
        return True
    if math.isinf(a) or math.isinf(b) or a == 0.0 or b == 0.0:
        # overflow / underflow region of pow(): accept when both are extreme
        return (a > 1e290 or math.isinf(a)) and (b > 1e290 or math.isinf(b)) or (abs(a) < 1e-290 and abs(b) < 1e-290)
    return abs(a - b) <= tol * max(abs(a), abs(b))


# ----------------------------------------------------------------------------- comparison of one P case

def compare_P(w, il, ml):
    """correspondence of one case: list of problem strings"""
    bad = []
    pi = parse_impl_P(il, w)
    pm = parse_model_P(ml, w)
    if pi is None:
        return ["implementation output: %s" % il[:80]]
    if pm is None:
        return ["model output: %s" % ml[:80]]
    n = len(w.tops) + 1
    names = ["%d:%s" % t for t in w.tops] + ["null"]
    for i in range(n):
        for j in range(n):
            ic, ie, f = pi[0][i][j]
            mc, me, mf = pm[0][i][j]
            if mc not in "01" or (mc == "1") != ic:
                bad.append("compatible(%s,%s): impl=%d model=%s" % (names[i], names[j], ic, mc))
            elif me not in "01" or (me == "1") != ie:
                bad.append("equivalent(%s,%s): impl=%d model=%s" % (names[i], names[j], ie, me))
            else:
                if mf in ("F", "X"):
                    bad.append("scalingFactor(%s,%s): model=%s" % (names[i], names[j], mf))
                else:
                    exp = 0.0 if mf == "Z" else pow10(parse_q(mf))
                    if not close(f, exp):
                        bad.append("scalingFactor(%s,%s): impl=%r model=%s" % (names[i], names[j], f, mf))
    for k, (a, b) in enumerate(zip(pi[1], pm[1])):
        if b["defined"] not in "01" or a["defined"] != (b["defined"] == "1"):
            bad.append("isDefined(%s): impl=%d model=%s" % (names[k], a["defined"], b["defined"]))
        if b["base"] not in "01" or a["base"] != (b["base"] == "1"):
            bad.append("isBaseUnit(%s): impl=%d model=%s" % (names[k], a["base"], b["base"]))
        if a["map"] != b["map"]:
            bad.append("defineUnitsMap(%s): impl=%s model=%s" % (names[k], a["map"], b["map"]))
        mm = None if b["mult"] == "N" else (b["mult"] if b["mult"] in ("F", "X") else parse_q(b["mult"]))
        if a["mult"] != mm:
            bad.append("updateUnitMultiplier(%s): impl=%s model=%s" % (names[k], a["mult"], b["mult"]))
    if len(pi[2]) != len(pm[2]):
        bad.append("validator section length: impl=%d model=%d" % (len(pi[2]), len(pm[2])))
    else:
        for k, (a, b) in enumerate(zip(pi[2], pm[2])):
            if b in ("F", "X"):
                bad.append("unitsAreEquivalent #%d: model=%s" % (k, b))
                continue
            s, q = b.split(",")
            if (s == "1") != a[0] or parse_q(q) != a[1]:
                bad.append("unitsAreEquivalent #%d: impl=%s model=%s" % (k, a, b))
    return bad


def oracle_P(ctx, w, il, stats):
    """the property's own laws on the implementation's output.  Returns list of (problem, finding_id or None)."""
    out = []
    pi = parse_impl_P(il, w)
    if pi is None:
        return [("implementation output: %s" % il[:80], None)]
    pairs, info, val = pi
    n = len(w.tops)
    names = ["%d:%s" % t for t in w.tops] + ["null"]
    dfn = [w.defined(*t) for t in w.tops]
    fa = [w.facts(*t) for t in w.tops]
    for i in range(n):
        if info[i]["defined"] != dfn[i]:
            out.append(("isDefined(%s)=%d, but the units is %sfully defined" % (names[i], info[i]["defined"], "" if dfn[i] else "not "),
                        "C08-import-history-false-cycle" if (dfn[i] and fa[i]["import_revisit"]) else None))
            dfn[i] = info[i]["defined"]     # the remaining laws are about what the library calls defined
    C = lambda i, j: pairs[i][j][0]
    F = lambda i, j: pairs[i][j][2]
    # definedness and the exponent map against the independent reduction
    for i in range(n):
        if dfn[i]:
            d = w.dims(*w.tops[i])
            if info[i]["map"] != d:
                out.append(("defineUnitsMap(%s)=%s but the units reduce to %s" % (names[i], info[i]["map"], d),
                            "C08-import-exponent-dropped" if fa[i]["import_exp_ne1"] else None))
    # null, undefined, equivalence relation, same exponents
    for i in range(n + 1):
        for j in range(n + 1):
            c, e, f = pairs[i][j]
            if i == n or j == n or not dfn[i] or not dfn[j]:
                if c or e or f != 0.0:
                    out.append(("null/undefined pair (%s,%s): compatible=%d equivalent=%d factor=%r" % (names[i], names[j], c, e, f), None))
                continue
            stats["pairs_defined"] += 1
            same = w.dims(*w.tops[i]) == w.dims(*w.tops[j])
            if c != (info[i]["map"] == info[j]["map"]):
                out.append(("compatible(%s,%s)=%d but defineUnitsMap gives %s / %s" % (names[i], names[j], c, info[i]["map"], info[j]["map"]), None))
            if c != same:
                out.append(("compatible(%s,%s)=%d but same base-unit exponents=%d" % (names[i], names[j], c, same),
                            "C08-import-exponent-dropped" if (fa[i]["import_exp_ne1"] or fa[j]["import_exp_ne1"]) else None))
            if c != C(j, i):
                out.append(("compatible not symmetric on (%s,%s)" % (names[i], names[j]), None))
            if i == j and not c:
                out.append(("compatible(%s,%s) is false on a defined units" % (names[i], names[i]), None))
            badp = fa[i]["bad_prefix"] or fa[j]["bad_prefix"]
            if e != (c and f == 1.0):
                out.append(("equivalent(%s,%s)=%d but compatible=%d factor=%r" % (names[i], names[j], e, c, f), None))
            if not c:
                if f != 0.0:
                    out.append(("scalingFactor(%s,%s)=%r for incompatible units" % (names[i], names[j], f), None))
                continue
            stats["pairs_compatible"] += 1
            if i != j:
                stats["pairs_compatible_distinct"] += 1
            if badp:
                continue
            if not (f > 0.0):
                out.append(("scalingFactor(%s,%s)=%r for compatible units" % (names[i], names[j], f), None))
                continue
            if not close(f * F(j, i), 1.0):
                out.append(("factor(a,b)*factor(b,a)=%r on (%s,%s)" % (f * F(j, i), names[i], names[j]), None))
            # SI ratio under the property's condition
            if not (fa[i]["exp_ne1_scaled"] or fa[j]["exp_ne1_scaled"]):
                stats["si_checked"] += 1
                exp = pow10(w.si_log(*w.tops[j]) - w.si_log(*w.tops[i]))
                if not close(f, exp):
                    out.append(("scalingFactor(%s,%s)=%r but the ratio of SI scales is %r" % (names[i], names[j], f, exp),
                                "C08-bare-standard-unit-scale" if (fa[i]["bare_std_scaled"] or fa[j]["bare_std_scaled"]) else None))
    # transitivity and cocycle on all triples
    dl = [i for i in range(n) if dfn[i]]
    for i in dl:
        for j in dl:
            if not C(i, j):
                continue
            for k in dl:
                if C(j, k):
                    stats["triples"] += 1
                    if not C(i, k):
                        out.append(("compatible not transitive on (%s,%s,%s)" % (names[i], names[j], names[k]), None))
                    elif not (fa[i]["bad_prefix"] or fa[j]["bad_prefix"] or fa[k]["bad_prefix"]):
                        if not close(F(i, k), F(i, j) * F(j, k)):
                            out.append(("factor(a,c)=%r but factor(a,b)*factor(b,c)=%r on (%s,%s,%s)" %
                                        (F(i, k), F(i, j) * F(j, k), names[i], names[j], names[k]), None))
    # the validator's reduction gives what Units gives
    vn = [k for k, (mi, _) in enumerate(w.tops) if mi == 0 or w.models[mi]["kind"] == "L"]
    if len(val) == len(vn) * len(vn):
        for a, i in enumerate(vn):
            for b, j in enumerate(vn):
                st, vm = val[a * len(vn) + b]
                if not (dfn[i] and dfn[j]) or fa[i]["imports"] or fa[j]["imports"] or fa[i]["bad_prefix"] or fa[j]["bad_prefix"]:
                    continue
                stats["validator_pairs"] += 1
                inC = not any(fa[x]["exp_ne1"] or fa[x]["scaled_compound_ref"] for x in (i, j))
                if st != C(i, j):
                    out.append(("validator status(%s,%s)=%d but Units::compatible=%d" % (names[i], names[j], st, C(i, j)), None))
                elif st and not close(pow10(-vm), F(i, j)):
                    fid = None
                    if not inC:
                        fid = "C08-three-formulas-disagree"
                    elif fa[i]["bare_std_scaled"] or fa[j]["bare_std_scaled"]:
                        fid = "C08-bare-standard-unit-scale"
                    out.append(("validator multiplier 10^%s for (%s,%s) but Units::scalingFactor=%r" % (-vm, names[i], names[j], F(i, j)), fid))
                elif st and inC:
                    stats["validator_agree_in_fragment"] += 1
    return out


# ----------------------------------------------------------------------------- running

def run_sharded(exe, lines, workdir, tag, extra=(), timeout=3000):
    """run a driver over the case lines, sharded over the cores; outputs go to files (a pipe would make the shards wait for
    one another once 64 KiB are pending)"""
    nsh = min(vf.NCPU, max(1, len(lines) // 20))
    procs = []
    for k in range(nsh):
        p = os.path.join(workdir, "%s.%d.cases" % (tag, k))
        with open(p, "w") as f:
            for l in lines[k::nsh]:
                f.write(l + "\n")
        o = open(p + ".out", "w")
        procs.append((subprocess.Popen([exe, p] + list(extra), stdout=o, stderr=subprocess.DEVNULL), o, p + ".out"))
    out = [None] * len(lines)
    for k, (pr, o, path) in enumerate(procs):
        try:
            pr.wait(timeout=timeout)
        except subprocess.TimeoutExpired:
            pr.kill()
        o.close()
        res = open(path, errors="replace").read().split("\n")
        idx = list(range(k, len(lines), nsh))
        for t, i in enumerate(idx):
            out[i] = res[t] if t < len(res) and res[t] != "" else "<missing>"
        os.remove(path)
    return out


FIX_BITS = {"C08-import-exponent-dropped": 0, "C08-bare-standard-unit-scale": 1, "C08-import-history-false-cycle": 2}


def case_classes(w):
    """finding classes a world falls in (matchers over the case)"""
    cl = set()
    for t in w.tops:
        f = w.facts(*t)
        if f["import_exp_ne1"]:
            cl.add("C08-import-exponent-dropped")
        if f["bare_std_scaled"]:
            cl.add("C08-bare-standard-unit-scale")
        if f["import_revisit"]:
            cl.add("C08-import-history-false-cycle")
    return cl


def alt_settings(ctx, w, current):
    """Inside the class of an OPEN finding the implementation may behave as the model with that repair switched the other
    way.  A finding that is fixed (or unknown) excuses nothing: its switch stays as in the model's current_fixes."""
    flip = sorted(FIX_BITS[c] for c in case_classes(w) if c in ctx.known)
    out = []
    for mask in range(1, 1 << len(flip)):
        b = list(current)
        for k, pos in enumerate(flip):
            if mask >> k & 1:
                b[pos] = "1" if b[pos] == "0" else "0"
        out.append("".join(b))
    return out


def run(ctx):
    quick = ctx.quick()
    ctx.proofs()
    ctx.assumptions += [
        "multipliers are exact positive powers of ten (log10 exact); zero/negative/other multipliers are outside the model",
        "double arithmetic on the generated exponents/prefixes/log-multipliers is exact (dyadic rationals of small size); "
        "std::pow(10,x) is compared at relative tolerance 1e-9 and not at all once it over/underflows",
        "utilities.cpp areEqual(double,double) (comparison of 15-digit renderings) is exact equality on these values",
        "unit names are unique inside a model (Model::units(name) returns the first)",
        "the analyser's own reduction (updateUnitsMap/updateUnitsMultiplier are private) is observed only through the presence of "
        "its units warning for 'x = y' on a sample of validator-accepted, import-free worlds",
        "cyclic units definitions are not generated (known family K3: the reducers recurse without bound)",
    ]
    build = vf.build_repo("plain")
    drv = vf.compile_driver(build, os.path.join(vf.ROOT, "harness/c08_driver.cpp"))
    mdl = vf.ocaml_driver("units")
    drv, mdl = _private_copy(ctx, drv, "c08_driver"), _private_copy(ctx, mdl, "units_model_driver")
    current = vf.sh([mdl, "--fixes"], timeout=60)[1].strip()
    if len(current) != 3 or set(current) - set("01"):
        raise vf.BuildError("model driver does not report its fix setting: %r" % current)
    ctx.notes.append("model compared with /repo under current_fixes (fx_import fx_std fx_pop) = %s" % current)

    nworlds = 3000 if quick else 20000
    worlds = []
    cdir = os.path.join(vf.ROOT, "corpus", "C08")
    corpus = []
    if os.path.isdir(cdir):
        for fn in sorted(os.listdir(cdir)):
            corpus.append(World(json.load(open(os.path.join(cdir, fn)), object_hook=_unjson)))
    worlds += corpus
    for _ in range(nworlds):
        worlds.append(gen_world(ctx.rng))
    lines = [w.line("P") for w in worlds]
    ctx.log("generated %d worlds" % len(worlds))
    il = run_sharded(drv, lines, ctx.workdir, "p_impl")
    ml = run_sharded(mdl, lines, ctx.workdir, "p_model")
    # the two public routes, batched over every ordered pair of names of every world
    vblines = [w.line("VB") for w in worlds]
    subworlds = [valid_subworld(w) for w in worlds]
    ablines = [sw.line("AB") for sw in subworlds]
    vbi = run_sharded(drv, vblines, ctx.workdir, "vb_impl")
    vbm = run_sharded(mdl, vblines, ctx.workdir, "vb_model")
    abi = run_sharded(drv, ablines, ctx.workdir, "ab_impl")
    abm = run_sharded(mdl, ablines, ctx.workdir, "ab_model")
    ctx.log("drivers done")
    vbstats = {"pairs": 0, "issues": 0, "hints": 0}
    abstats = {"pairs": 0, "warnings": 0, "sides_compared": 0, "unparsed": 0}
    levelcov = {}

    stats = {k: 0 for k in ["pairs_defined", "pairs_compatible", "pairs_compatible_distinct", "si_checked", "triples",
                            "validator_pairs", "validator_agree_in_fragment"]}
    hist = {"units_per_world": {}, "with_imports": 0, "with_loose_standard": 0, "exp_ne1": 0, "nested": 0}
    nviol = 0
    nontrivial = set()
    evals = 0
    alt_cache = {}

    def model_alt(line, bits):
        key = (line, bits)
        if key not in alt_cache:
            p = os.path.join(ctx.workdir, "alt.cases")
            open(p, "w").write(line + "\n")
            alt_cache[key] = vf.sh([mdl, p, bits], timeout=120)[1].split("\n")[0]
        return alt_cache[key]

    for wi, w in enumerate(worlds):
        n = len(w.tops)
        evals += 3 * (n + 1) * (n + 1) + 4 * n
        hist["units_per_world"][n] = hist["units_per_world"].get(n, 0) + 1
        if any("imp" in u for m in w.models for u in m["units"]):
            hist["with_imports"] += 1
        if any(m["kind"] == "L" for m in w.models):
            hist["with_loose_standard"] += 1
        if any(c[2] != 1 for m in w.models for u in m["units"] for c in u.get("ch", [])):
            hist["exp_ne1"] += 1
        if any(c[0] not in SI for m in w.models for u in m["units"] for c in u.get("ch", [])):
            hist["nested"] += 1
        if il[wi].startswith(("CRASH", "THROW", "TIMEOUT", "<missing>")):
            nviol += 1
            if nviol <= 5:
                ctx.violation("C08: implementation %s" % il[wi][:40], "crash_%d.json" % nviol,
                              {"mode": "P", "case": lines[wi], "world": _json(w), "impl": il[wi], "model": ml[wi]})
            continue
        bad = compare_P(w, il[wi], ml[wi])
        if bad:
            # inside a known-finding class the implementation may already be repaired
            ok = False
            for bits in alt_settings(ctx, w, current):
                if not compare_P(w, il[wi], model_alt(lines[wi], bits)):
                    ok = True
                    break
            if not ok:
                nviol += 1
                if nviol <= 5:
                    stats0 = dict(stats)
                    law = [what for what, fid in oracle_P(ctx, w, il[wi], stats0) if fid is None or fid not in ctx.known]
                    ctx.violation("C08 correspondence: %s%s" % ("; ".join(bad[:3]), ("; property law broken: " + law[0]) if law else ""),
                                  "corr_%d.json" % nviol,
                                  {"mode": "P", "case": lines[wi], "world": _json(w), "impl": il[wi], "model": ml[wi], "problems": bad[:20],
                                   "property_laws_broken_on_the_implementation": law[:10]})
                continue
        before = stats["pairs_compatible_distinct"]
        probs = oracle_P(ctx, w, il[wi], stats)
        if stats["pairs_compatible_distinct"] > before:
            nontrivial.add(lines[wi])
        level_coverage(w, levelcov)
        # public routes on every pair
        pi = parse_impl_P(il[wi], w)
        idx = {nm: k for k, (mi, nm) in enumerate(w.tops) if mi == 0 or w.models[mi]["kind"] == "L"}

        def units_equiv(n1, n2, pi=pi, idx=idx):
            return None if pi is None else pi[0][idx[n1]][idx[n2]][1]
        evals += 2 * len(pair_names(w)) ** 2
        for mode, plist, case, iout, mout in (
                ("VB", check_VB(ctx, w, vbi[wi], vbm[wi], vbstats), vblines[wi], vbi[wi], vbm[wi]),
                ("AB", check_AB(ctx, subworlds[wi], abi[wi], abm[wi], abstats, units_equiv), ablines[wi], abi[wi], abm[wi])):
            bad = [(what, fid) for what, fid in plist if not (fid and ctx.known_finding(fid, what))]
            if bad:
                nviol += 1
                if nviol <= 5:
                    ctx.violation("C08 %s: %s" % ("validator route" if mode == "VB" else "analyser route", bad[0][0]),
                                  "%s_%d.json" % (mode.lower(), nviol),
                                  {"mode": mode, "case": case, "world": _json(w), "impl": iout[:20000], "model": mout[:20000],
                                   "problem": bad[0][0], "all_problems": [b[0] for b in bad[:20]],
                                   "finding_class_not_listed": bad[0][1]})
        for what, fid in probs:
            if fid and ctx.known_finding(fid, what):
                continue
            nviol += 1
            if nviol <= 5:
                ctx.violation("C08 oracle: %s" % what, "oracle_%d.json" % nviol,
                              {"mode": "P", "case": lines[wi], "world": _json(w), "impl": il[wi], "model": ml[wi], "problem": what,
                               "finding_class_not_listed": fid})
    ctx.log("P: %d worlds, %s" % (len(worlds), stats))

    # ---------------- public routes: validator (V) and analyser (A) on sampled pairs
    nv = 600 if quick else 5000
    na = 600 if quick else 5000
    vcases, acases = [], []
    for _ in range(nv):
        w = gen_world(ctx.rng, valid_only=ctx.rng.random() < 0.7)
        names = [nm for (mi, nm) in w.tops if mi == 0 or w.models[mi]["kind"] == "L"]
        a, b = ctx.rng.choice(names), ctx.rng.choice(names)
        vcases.append((w, a, b))
    for _ in range(na):
        w = gen_world(ctx.rng, valid_only=True)
        names = [nm for (mi, nm) in w.tops if mi == 0 or w.models[mi]["kind"] == "L"]
        comp = [(x, y) for x in names for y in names if x != y and w.dims(*_find(w, x)) == w.dims(*_find(w, y))]
        if comp and ctx.rng.random() < 0.8:
            a, b = ctx.rng.choice(comp)
        else:
            a, b = ctx.rng.choice(names), ctx.rng.choice(names)
        acases.append((w, a, b))
    vlines = [w.line("V", (a, b)) for w, a, b in vcases]
    alines = [w.line("A", (a, b)) for w, a, b in acases]
    vi = run_sharded(drv, vlines, ctx.workdir, "v_impl")
    vm = run_sharded(mdl, vlines, ctx.workdir, "v_model")
    ai = run_sharded(drv, alines, ctx.workdir, "a_impl")
    am = run_sharded(mdl, alines, ctx.workdir, "a_model")
    vstats = {"mismatch_reported": 0, "hint_compared": 0}
    for k, (w, a, b) in enumerate(vcases):
        evals += 1
        prob = check_V(vi[k], vm[k], vstats)
        if prob and "hint" in prob and hint_truncated(vm[k]) and ctx.known_finding("C08-validator-hint-last-digit", prob):
            prob = None
        if prob:
            nviol += 1
            if nviol <= 5:
                ctx.violation("C08 validator route: %s" % prob, "valid_%d.json" % nviol,
                              {"mode": "V", "case": vlines[k], "world": _json(w), "pair": [a, b], "impl": vi[k], "model": vm[k], "problem": prob})
    astats = {"units_warning": 0, "scaled": 0, "scale_compared": 0, "skipped_invalid": 0}
    for k, (w, a, b) in enumerate(acases):
        evals += 2
        probs = check_A(w, a, b, ai[k], am[k], astats)
        if any(fid is None for _, fid in probs):
            # inside the class of an open finding the implementation may already be repaired (or not yet)
            for bits in alt_settings(ctx, w, current):
                alt = check_A(w, a, b, ai[k], model_alt(alines[k], bits), dict(astats))
                if all(fid is not None for _, fid in alt):
                    probs = alt
                    break
        for prob, fid in probs:
            if fid and ctx.known_finding(fid, prob):
                continue
            nviol += 1
            if nviol <= 5:
                ctx.violation("C08 analyser route: %s" % prob, "analyser_%d.json" % nviol,
                              {"mode": "A", "case": alines[k], "world": _json(w), "pair": [a, b], "impl": ai[k], "model": am[k], "problem": prob})
    ctx.log("V: %d cases %s; A: %d cases %s" % (len(vcases), vstats, len(acases), astats))

    ctx.cov["evaluations"] = evals
    ctx.cov["distinct_nontrivial"] = len(nontrivial)
    ctx.cov["rule"] = ("seeded random acyclic worlds: a main model of 3-8 units (user base units, compound units with 1-3 children over standard "
                       "units and earlier units, nesting <= 4, named/integer/occasionally invalid prefixes, exponents in {+-1,+-2,+-3,+-1/2}, "
                       "multipliers 10^k, twins built by permuting / inlining / re-scaling an earlier units), 0-2 import-source models attached "
                       "with ImportSource::setModel (imports of imports, missing references, no model), and parent-less standard units; every "
                       "ordered pair (incl. nullptr) goes through compatible/equivalent/scalingFactor and every pair of names through "
                       "unitsAreEquivalent, on both sides. non-trivial = the world contains two different units objects that the implementation "
                       "finds compatible; distinct by case text")
    ctx.cov["samples"] = [lines[len(corpus)], lines[-1], vlines[0], alines[0]]
    lv = {"exponent_level x multiplier_level x prefix_level -> reference paths":
          {"%d%d%d" % k: v for k, v in sorted(levelcov.items())},
          "combinations_of_levels_1_to_3_covered": sum(1 for a in (1, 2, 3) for b in (1, 2, 3) for c in (1, 2, 3) if levelcov.get((a, b, c))),
          "of": 27}
    ctx.log("VB: %s; AB: %s; level coverage %d/27" % (vbstats, abstats, lv["combinations_of_levels_1_to_3_covered"]))
    ctx.cov["level_coverage"] = lv
    ctx.cov["input_distribution"] = {"worlds": len(worlds), "histogram": hist, "pair_statistics": stats,
                                     "validator_route_all_pairs": vbstats, "analyser_route_all_pairs": abstats,
                                     "validator_route": dict(vstats, cases=len(vcases)), "analyser_route": dict(astats, cases=len(acases))}
    ctx.cov["traces_validated_against_impl"] = len(worlds) + len(vcases) + len(acases)


def _private_copy(ctx, exe, name):
    """the build cache (.build, .work/ocaml) is shared with concurrently running checks, which may prune it"""
    import shutil
    dst = os.path.join(ctx.workdir, name)
    tmp = dst + ".%d.tmp" % os.getpid()
    shutil.copy2(exe, tmp)
    os.replace(tmp, dst)
    return dst


def _find(w, name):
    for (mi, nm) in w.tops:
        if nm == name and (mi == 0 or w.models[mi]["kind"] == "L"):
            return (mi, nm)
    return None


def field(line, key):
    for t in line.split():
        if t.startswith(key + "="):
            return t[len(key) + 1:]
    return None


def check_V(il, ml, vstats):
    if not il.startswith("mismatch="):
        return "implementation %s" % il[:60]
    st = field(ml, "status")
    if st not in ("0", "1"):
        return "model %s" % ml[:60]
    mism = int(field(il, "mismatch"))
    if (mism > 0) != (st == "0"):
        return "units issue reported=%d, model status=%s" % (mism, st)
    if mism > 1:
        return "the same connection is reported %d times" % mism
    if mism:
        vstats["mismatch_reported"] += 1
        q = parse_q(field(ml, "mult"))
        h = field(il, "hint")
        if (h == "none") != (q == 0):
            return "multiplication factor hint %s, model multiplier %s" % (h, q)
        if h != "none":
            vstats["hint_compared"] += 1
            if abs(float(h) - float(q)) > 1e-6 * max(1.0, abs(float(q))):
                return "multiplication factor hint 10^%s, model multiplier %s" % (h, q)
    return None


def hint_truncated(ml):
    """matcher of C08-validator-hint-last-digit: the log10 multiplier is not an integer"""
    try:
        return parse_q(field(ml, "mult")).denominator != 1
    except Exception:
        return False


def check_A(w, a, b, il, ml, astats):
    out = []
    if not il.startswith("errors="):
        return [("implementation %s" % il[:60], None)]
    same = field(ml, "same")
    if same not in ("0", "1"):
        return [("model %s" % ml[:60], None)]
    if int(field(il, "errors")) > 0:
        astats["skipped_invalid"] += 1
        return [("generated world is not accepted by the analyser: %s" % il, None)]
    warn = int(field(il, "unitswarn"))
    if (warn > 0) != (same == "0"):
        out.append(("analyser units warning=%d for 'x = y', model ana_equiv=%s" % (warn, same), None))
    if warn:
        astats["units_warning"] += 1
    # oracle: the analyser's verdict is the one Units::compatible / scalingFactor give (model values, tied in mode P)
    fa = [w.facts(*_find(w, x)) for x in (a, b)]
    fac = field(ml, "factor")
    units_equiv = fac not in ("Z", "F", "X") and parse_q(fac) == 0
    if (warn == 0) != units_equiv:
        inC = not any(f["exp_ne1"] or f["scaled_compound_ref"] for f in fa)
        fid = None
        if not inC:
            fid = "C08-three-formulas-disagree"
        elif any(f["bare_std_scaled"] for f in fa):
            fid = "C08-bare-standard-unit-scale"
        out.append(("analyser says units of 'x = y' are %sequivalent, Units::equivalent says %s (units %s, %s)" %
                    ("" if warn == 0 else "not ", units_equiv, a, b), fid))
    # scale put in front of the connected variable = Units::scalingFactor(n2, n1)
    if int(field(il, "errors2")) == 0:
        fr = field(ml, "factor_rev")
        sc = field(il, "scale")
        if fr not in ("Z", "F", "X"):
            q = parse_q(fr)
            astats["scale_compared"] += 1
            if q == 0:
                if sc != "none":
                    out.append(("analyser scales by %s, Units::scalingFactor is 1" % sc, None))
            else:
                astats["scaled"] += 1
                if sc == "none" or "," in sc or not close(float(sc), pow10(q), 1e-12):
                    out.append(("analyser scales by %s, Units::scalingFactor is 10^%s" % (sc, q), None))
    return out


def _json(w):
    return [{"kind": m["kind"], "units": [
        {"name": u["name"], "imp": list(u["imp"])} if "imp" in u else
        {"name": u["name"], "ch": [[r, p, str(e), str(ml)] for r, p, e, ml in u["ch"]]} for u in m["units"]]} for m in w.models]


def _unjson(d):
    if "ch" in d:
        d["ch"] = [(r, p, Fr(e), Fr(ml)) for r, p, e, ml in d["ch"]]
    if "imp" in d:
        d["imp"] = tuple(d["imp"])
    return d


def replay(ctx, path):
    r = json.load(open(path))
    build = vf.build_repo("plain")
    drv = vf.compile_driver(build, os.path.join(vf.ROOT, "harness/c08_driver.cpp"))
    mdl = vf.ocaml_driver("units")
    drv, mdl = _private_copy(ctx, drv, "c08_driver_replay"), _private_copy(ctx, mdl, "units_model_driver_replay")
    cf = os.path.join(ctx.workdir, "replay.cases")
    open(cf, "w").write(r["case"] + "\n")
    il = vf.sh([drv, cf])[1].strip()
    ml = vf.sh([mdl, cf])[1].strip()
    print("case :", r["case"])
    print("impl :", il)
    print("model:", ml)
    if r.get("mode") == "P":
        w = World(json.loads(json.dumps(r["world"]), object_hook=_unjson))
        for b in compare_P(w, il, ml)[:20]:
            print("correspondence:", b)
        stats = {k: 0 for k in ["pairs_defined", "pairs_compatible", "pairs_compatible_distinct", "si_checked", "triples",
                                "validator_pairs", "validator_agree_in_fragment"]}
        for what, fid in oracle_P(ctx, w, il, stats)[:20]:
            print("oracle:", what, "[%s]" % fid if fid else "")
