"""C03 — generated code computes what the model's equations say.

proofs : Properties_C03.v  (printer model gen; C / Python expression readers; gen_reads_back on the safe class;
         refutation witnesses for the shapes the generator mis-prints)
tie    : (i) expression layer, string-exact: random + systematic ASTs built through the public
             AnalyserEquationAst API, Generator::equationCode(ast, profile) for C and Python == extracted gen
         (ii) whole models: generated CellML models -> Parser/Analyser/Generator -> cc / python exec, arrays
             compared with an independent evaluation of the MathML (see model_layer)
search : the extracted readers parse the REAL library's text; it must read as tr(ast) up to re-association;
         a mismatch outside the listed shape classes, or inside the proved-safe class, is a violation
"""
import json
import os
import subprocess

import vf
import astgen

REL = {"EQ", "NEQ", "LT", "LEQ", "GT", "GEQ"}


# --------------------------------------------------------------------------- known-finding matchers
def _top(a):
    while a is not None and ((a[0] == "PLUS" and a[3] is None) or a[0] in ("OTHERWISE", "DEGREE", "LOGBASE", "BVAR")):
        a = a[2]
    return a


def _is_uplus(a):
    return a is not None and a[0] == "PLUS" and a[3] is None


def _is_uminus(a):
    return a is not None and a[0] == "MINUS" and a[3] is None


def _lit10(a):
    a = _top(a)
    if a is None or a[0] != "CN":
        return False
    try:
        return float(a[1]) == 10.0
    except ValueError:
        return False


def _is_logb(a):
    return a is not None and a[0] == "LOG" and a[3] is not None and not _lit10(a[2])


def _kind(a, lang):
    """which infix construct the text of `a` is at its outermost level (through unary plus), else None"""
    a = _top(a)
    if a is None:
        return None
    t = a[0]
    if lang == "C" and t in REL:
        return "rel"
    if lang == "C" and t in ("AND", "OR"):
        return "logic"
    if t in ("PLUS", "MINUS") and a[3] is not None:
        return "add"
    if t in ("TIMES", "DIVIDE"):
        return "mul"
    if _is_logb(a):
        return "logb"
    if t == "PIECEWISE":
        return "cond"
    if _is_uminus(a):
        return "neg"
    if t == "CN" and a[1].startswith("-"):
        return "negnum"
    return None


def _starts_minus(a):
    a = _top(a)
    if a is None:
        return False
    if a[0] == "CN":
        return a[1].startswith("-")
    if _is_uminus(a):
        return True
    if a[0] in ("TIMES", "DIVIDE"):
        return _starts_minus(a[2])
    return False


def _pieces(a):
    """(value, condition) operands of the pieces directly under a PIECEWISE node"""
    out = []
    if a[2] is not None and a[2][0] == "PIECE":
        out += [a[2][2], a[2][3]]
    if a[3] is not None and a[3][0] == "PIECE":
        out += [a[3][2], a[3][3]]
    return [x for x in out if x is not None]


def classify_site(lang, s):
    """id of the known finding whose shape class the minimal unsafe sub-AST `s` belongs to, else None"""
    t = s[0]
    if t == "CN":
        return "C03-uppercase-exponent" if ("E" in s[1] and "." not in s[1]) else None
    ops = [x for x in (s[2], s[3]) if x is not None]
    if lang == "C" and t == "NOT":
        k = _kind(s[2], lang)
        if k in ("rel", "logic", "add", "mul", "logb", "cond"):
            return "C03-not-operand"
        # "-b/c" and "-b*c": the negation of a product is printed without parentheses, so it is a product
        if k == "neg" and _kind(_top(s[2])[2], lang) in ("mul", "logb"):
            return "C03-not-operand"
    if lang == "C" and t in REL and any(_kind(x, lang) in ("rel", "logic", "cond") for x in ops):
        return "C03-relational-operand"
    divisor = None
    if t == "DIVIDE":
        divisor = s[3]
    elif t == "ROOT" and s[3] is not None:
        divisor = s[2]
    if divisor is not None:
        d = _top(divisor)
        if _is_uminus(d) and _kind(d[2], lang) in ("mul", "logb"):
            return "C03-divide-by-negated-product"
        if _is_logb(d):
            return "C03-logbase-quotient"
    if lang == "Py" and t == "PIECEWISE" and any(_kind(x, lang) == "cond" for x in _pieces(s)):
        return "C03-python-nested-conditional"
    if lang == "C" and _is_uminus(s) and _starts_minus(s[2]):
        return "C03-double-minus"
    cand = ops + (_pieces(s) if t == "PIECEWISE" else [])
    for x in list(cand):
        if x[0] in ("DEGREE", "LOGBASE", "OTHERWISE") and x[2] is not None:
            cand.append(x[2])
    if any(_is_uplus(x) and _kind(x, lang) is not None for x in cand):
        return "C03-unary-plus-drops-parentheses"
    return None


# --------------------------------------------------------------------------- running the two sides
def run_sharded(drv, mode, lines, workdir, tag, nsh=None):
    """run `drv mode file` over the lines, sharded over processes; outputs go to files (a pipe would make the
    shards run one after the other once its buffer is full); returns one output line per input line"""
    nsh = nsh or min(vf.NCPU, max(1, len(lines) // 200))
    procs = []
    for k in range(nsh):
        part = lines[k::nsh]
        p = os.path.join(workdir, "%s.%d.cases" % (tag, k))
        with open(p, "w") as f:
            f.write("".join(x + "\n" for x in part))
        of = open(p + ".out", "wb")
        procs.append((k, len(part), p + ".out", of, subprocess.Popen([drv, mode, p], stdout=of, stderr=subprocess.DEVNULL)))
    out = [None] * len(lines)
    for k, n, op, of, pr in procs:
        pr.wait()
        of.close()
        res = open(op, "rb").read().decode("utf-8", "replace").split("\n")
        for i in range(n):
            out[k + i * nsh] = res[i] if i < len(res) else "<missing>"
    return out


def run_model(mdl, mode, lines, workdir, tag):
    return run_sharded(mdl, mode, lines, workdir, tag)


def judge(ctx, case_line, impl, model, readback):
    """-> (problems, findings) for one AST.  impl = 'C\\tPy' from the library, model = the 10 model fields,
    readback = 'treeC\\ttreePy' read from the library's text by the extracted readers"""
    problems, found = [], []
    if impl.startswith(("CRASH", "THROW", "TIMEOUT")) or impl == "<missing>":
        return ["implementation %s" % impl], []
    mf = model.split("\t")
    if len(mf) != 10:
        return ["model driver line malformed: %r" % model[:200]], []
    imf = impl.split("\t")
    if len(imf) != 2:
        return ["implementation line malformed: %r" % impl[:200]], []
    rb = readback.split("\t")
    if len(rb) != 2:
        return problems + ["read-back line malformed: %r" % readback[:200]], []
    for k, lang in ((0, "C"), (1, "Py")):
        if imf[k] != mf[k]:
            # inside a known-finding class the library may print what the (defective) model prints, or text that
            # satisfies the property (a later repair of the defect must not raise an alarm); elsewhere: exact
            sites = [astgen.parse_line(x) for x in mf[8 + k].split(" ;; ") if x]
            repaired = (mf[2 + k] != "1" and sites and all(classify_site(lang, s) is not None for s in sites)
                        and rb[k] == mf[4 + k])
            if not repaired:
                problems.append("%s text differs: library %r, model %r" % (lang, imf[k], mf[k]))
    for k, lang in ((0, "C"), (1, "Py")):
        intended, got, safe = mf[4 + k], rb[k], mf[2 + k] == "1"
        if got == intended:
            continue
        sites = [astgen.parse_line(x) for x in mf[8 + k].split(" ;; ") if x]
        what = "%s text %r reads as %s, the equation says %s" % (lang, imf[k], got, intended)
        if safe or not sites:
            problems.append("ORACLE (inside the proved-safe class): " + what)
            continue
        ids = [classify_site(lang, s) for s in sites]
        if any(i is None for i in ids):
            bad = [astgen.line(s) for s, i in zip(sites, ids) if i is None]
            problems.append("ORACLE (shape outside the known classes: %s): %s" % (" ;; ".join(bad)[:300], what))
        else:
            found += [(i, what) for i in sorted(set(ids))]
    return problems, found


def expr_layer(ctx, drv, mdl):
    quick = ctx.quick()
    rng = ctx.rng
    asts = []
    cdir = os.path.join(vf.ROOT, "corpus", "C03")
    if os.path.isdir(cdir):
        for fn in sorted(os.listdir(cdir)):
            if fn.endswith(".ast"):
                asts += [astgen.parse_line(l.strip()) for l in open(os.path.join(cdir, fn)) if l.strip()]
    n_corpus = len(asts)
    asts += astgen.systematic(rng, 2 if quick else 3)
    n_sys = len(asts) - n_corpus
    n_rand = 3000 if quick else 100000
    maxd = 4 if quick else 6
    for i in range(n_rand):
        asts.append(astgen.rand_ast(rng, rng.choice(range(1, maxd + 1))))
    lines = [astgen.line(a) for a in asts]
    impl = run_sharded(drv, "ast", lines, ctx.workdir, "ast")
    model = run_model(mdl, "ast", lines, ctx.workdir, "astm")
    rb_in = [x if ("\t" in x and not x.startswith(("CRASH", "THROW", "TIMEOUT"))) else "?\t?" for x in impl]
    readback = run_model(mdl, "read", rb_in, ctx.workdir, "rb")

    nbad = 0
    hist = {"depth": {}, "safe_C": 0, "safe_Py": 0, "readback_ok_C": 0, "readback_ok_Py": 0, "types": {}, "findings": {}}
    distinct = set()
    for i, a in enumerate(asts):
        problems, found = judge(ctx, lines[i], impl[i], model[i], readback[i])
        d = astgen.ast_depth(a)
        hist["depth"][d] = hist["depth"].get(d, 0) + 1
        astgen.types_in(a, hist["types"])
        mf = model[i].split("\t")
        if len(mf) == 10:
            hist["safe_C"] += mf[2] == "1"
            hist["safe_Py"] += mf[3] == "1"
            rb = readback[i].split("\t")
            if len(rb) == 2:
                hist["readback_ok_C"] += rb[0] == mf[4]
                hist["readback_ok_Py"] += rb[1] == mf[5]
        if astgen.nested_operator_pairs(a) >= 1:
            distinct.add(lines[i])
        for fid, what in found:
            hist["findings"][fid] = hist["findings"].get(fid, 0) + 1
            if not ctx.known_finding(fid, what):
                problems.append("finding %s is not listed as known: %s" % (fid, what))
        if problems and nbad < 5:
            nbad += 1
            small = shrink_case(ctx, drv, mdl, a)
            sl = astgen.line(small)
            si, sm, sr = eval_one(ctx, drv, mdl, sl)
            sp, _ = judge(ctx, sl, si, sm, sr)
            ctx.violation("C03 expression: %s" % "; ".join(sp or problems)[:400], "expr_%d.json" % nbad,
                          {"mode": "ast", "case": sl, "original_case": lines[i], "library": si, "model": sm,
                           "readback_of_library_text": sr, "problems": sp or problems})
    ctx.cov["evaluations"] += 2 * len(asts)
    ctx.cov["distinct_nontrivial"] += len(distinct)
    hist["types"] = dict(sorted(hist["types"].items(), key=lambda kv: -kv[1]))
    ctx.cov.setdefault("input_distribution", {})["expressions"] = {
        "corpus": n_corpus, "systematic_parent_child_chains": n_sys, "random": n_rand, "max_depth": maxd, **hist}
    ctx.cov["traces_validated_against_impl"] = ctx.cov.get("traces_validated_against_impl", 0) + 2 * len(asts)
    ctx.cov["samples"] += [lines[n_corpus], lines[n_corpus + n_sys // 2], lines[-1], lines[-2]]
    ctx.log("expressions: %d ASTs x 2 profiles; safe C %d / Py %d; read back C %d / Py %d; findings %s" % (
        len(asts), hist["safe_C"], hist["safe_Py"], hist["readback_ok_C"], hist["readback_ok_Py"], hist["findings"]))


def eval_one(ctx, drv, mdl, line):
    cf = os.path.join(ctx.workdir, "one.cases")
    open(cf, "w").write(line + "\n")
    impl = vf.sh([drv, "ast", cf], timeout=60)[1].split("\n")[0]
    model = vf.sh([mdl, "ast", cf], timeout=60)[1].split("\n")[0]
    rf = os.path.join(ctx.workdir, "one.rb")
    open(rf, "w").write((impl if "\t" in impl else "?\t?") + "\n")
    rb = vf.sh([mdl, "read", rf], timeout=60)[1].split("\n")[0]
    return impl, model, rb


def shrink_case(ctx, drv, mdl, a):
    def fails(c):
        l = astgen.line(c)
        i, m, r = eval_one(ctx, drv, mdl, l)
        p, _ = judge(ctx, l, i, m, r)
        return bool(p)
    try:
        return astgen.shrink(a, fails, budget=150)
    except Exception:
        return a


def run(ctx):
    ctx.proofs()
    ctx.assumptions += [
        "A-cc: a C compiler / CPython read a generated expression as the precedence-climbing readers of GramDefs.v do "
        "(the whole-model layer compiles and executes generated code, which checks this on every run)",
        "the expression-layer tie uses the generator without an analyser model (Generator::equationCode): a CI prints "
        "its variable's name; with a model it prints <array>[<index>], a token-for-token substitution",
        "convertToDouble+areEqual on printed text is modelled on exact decimal values; agrees with the code for "
        "literals of at most 15 significant digits (all generated literals)",
        "IEEE evaluation, libm and the compilers themselves are not modelled",
    ]
    build = vf.build_repo("plain")
    drv = vf.compile_driver(build, os.path.join(vf.ROOT, "harness/c03_driver.cpp"))
    mdl = vf.ocaml_driver("gen")
    ctx.cov["rule"] = (
        "expression layer: systematic parent/child(/grandchild) chains over every operator construct in every operand "
        "position plus seeded random ASTs (all 70 node types, depth <= 4 quick / 6 thorough), each printed by the "
        "library for the C and the Python profile and by the extracted model, then read back by the extracted "
        "readers. non-trivial = at least one operator directly nested in another operator (a parenthesisation "
        "decision); distinct by case text.")
    expr_layer(ctx, drv, mdl)
    import c03_models
    c03_models.model_layer(ctx, build)


def replay(ctx, path):
    r = json.load(open(path))
    build = vf.build_repo("plain")
    if r.get("mode") == "model":
        import c03_models
        return c03_models.replay_model(ctx, build, path)
    drv = vf.compile_driver(build, os.path.join(vf.ROOT, "harness/c03_driver.cpp"))
    mdl = vf.ocaml_driver("gen")
    if r.get("mode") == "ast":
        i, m, rb = eval_one(ctx, drv, mdl, r["case"])
        print("case    :", r["case"])
        print("library :", i)
        print("model   :", m)
        print("readback:", rb)
        print("verdict :", judge(ctx, r["case"], i, m, rb))
