"""C05 — analysis classifies every model and variable correctly and consistently.

proofs : Properties_C05.v over the model AnalysisDefs.v (check(), the do/while loop, model typing, NLA grouping,
         requalification, indices, dependency wiring): termination of the loop, well-formedness clauses of valid
         results, confluence of the first pass, renaming invariance, and the refutation of full permutation
         invariance (with the sub-domain on which it holds).
tie    : generated abstract systems with ground truth (gen/abstract_systems.py) rendered as CellML 2.0 over 1-3
         connected components, in several orders and under renamings; Parser -> Analyser::analyseModel dumped
         canonically (harness/c05_driver.cpp) and compared EXACTLY with the extracted model's prediction.
search : on the implementation's own output: (a) the extracted well-formedness predicate AnalysisSpec.wf_failures
         evaluated on the real AnalyserModel, (b) ground truth of the generator, (c) invariance of
         (model type, role of every class) across the re-orderings / renamings of one system.
"""
import itertools
import json
import os
import subprocess
import sys
import time

import vf

sys.path.insert(0, os.path.join(vf.ROOT, "gen"))
import abstract_systems as A  # noqa: E402

VALID = ("ode", "dae", "nla", "algebraic")
WF_NAMES = {"1": "classes-once", "2": "indices-dense", "3": "one-definer", "31": "equation-variables",
            "4": "dependencies-complete", "41": "dependencies-sound", "5": "topological-order(direct)",
            "51": "topological-order(with NLA systems)", "6": "nla-system-shape"}
# clauses of the property itself; 51 and 6 are what the generator additionally assumes: counted, not demanded
WF_DEMANDED = {"1", "2", "3", "31", "4", "41", "5"}


# ------------------------------------------------------------------------------------------ helpers

def fields(line):
    return dict(t.split("=", 1) for t in line.split(" ") if "=" in t)


def classification(system, line):
    """(model type, ((class, role), ...)) from a canonical line"""
    f = fields(line)
    cls = A.class_of(system)

    def c(vid):
        a, b = vid.split(".")
        return cls[(int(a), int(b))]
    roles = {}
    if f.get("VOI", "-") != "-":
        roles[c(f["VOI"])] = "voi"
    for it in f.get("S", "").split(";"):
        if it:
            roles[c(it.split(":")[0])] = "state"
    for it in f.get("V", "").split(";"):
        if it:
            roles[c(it.split(":")[0])] = it.split(":")[1]
    return (f.get("T", "?"), tuple(sorted(roles.items())))


def run_sharded(exe, args, lines, workdir, tag, timeout=3000):
    """run exe over the case lines split in NCPU shards (outputs go to files, so no child ever waits for the
    parent to read a pipe); returns the output lines in order"""
    n = max(1, min(vf.NCPU, len(lines) // 50 + 1))
    procs = []
    for k in range(n):
        part = lines[k::n]
        p = os.path.join(workdir, "%s.%d.cases" % (tag, k))
        o = os.path.join(workdir, "%s.%d.out" % (tag, k))
        with open(p, "w") as f:
            f.write("".join(l + "\n" for l in part))
        fo = open(o, "w")
        procs.append((len(part), o, fo, subprocess.Popen([exe] + args + [p], stdout=fo, stderr=subprocess.DEVNULL)))
    out = [None] * len(lines)
    t0 = time.time()
    for k, (cnt, o, fo, pr) in enumerate(procs):
        try:
            pr.wait(timeout=max(1, timeout - (time.time() - t0)))
        except subprocess.TimeoutExpired:
            pr.kill()
        fo.close()
        res = open(o, errors="replace").read().split("\n")
        for i in range(cnt):
            out[k + i * n] = res[i] if i < len(res) and res[i] != "" else "<missing>"
    return out


def drivers():
    build = vf.build_repo("plain")
    drv = vf.compile_driver(build, os.path.join(vf.ROOT, "harness/c05_driver.cpp"))
    mdl = vf.ocaml_driver("analysis")
    return drv, mdl


# ------------------------------------------------------------------------------------------ known findings

def kf_nla_pass(group_systems):
    """matcher of C05-nla-pass-order-dependent: some listing of the system is not solved by isolated forms alone
    (gen/abstract_systems.py: first_pass_complete), so the analyser's greedy NLA pass has decisions to take"""
    return any(not A.first_pass_complete(s) for s in group_systems)


def kf_dependency_retarget(system, eq_ids):
    """matcher of C05-dependency-lost-on-retarget: every equation whose dependency list is wrong mentions a class
    that is known before it is computed (it carries an initial value) and has variables in several components, so
    that the analyser re-targets its tracked variable after dependencies on it were recorded"""
    members, inited = {}, set()
    for ci, c in enumerate(system["comps"]):
        for v in c["vars"]:
            members.setdefault(v["cls"], set()).add(ci)
            if v["init"] is not None:
                inited.add(v["cls"])
    risky = {k for k, cs in members.items() if len(cs) >= 2 and k in inited}
    found = 0
    for c in system["comps"]:
        byname = {v["name"]: v["cls"] for v in c["vars"]}
        for q in c["eqs"]:
            if q["id"] in eq_ids:
                found += 1
                names = A.expr_names(q["lhs"]) + A.expr_names(q["rhs"])
                if not any(byname[n] in risky for n in names):
                    return False
    return found == len(eq_ids) and found > 0


def kf_same_component(group_systems):
    """matcher of C05-same-component-equivalents: an equation mentions a class that has two or more variables in the
    equation's own component (equivalent through a variable of another component)"""
    for s in group_systems:
        for c in s["comps"]:
            count = {}
            for v in c["vars"]:
                count[v["cls"]] = count.get(v["cls"], 0) + 1
            byname = {v["name"]: v["cls"] for v in c["vars"]}
            for q in c["eqs"]:
                if any(count[byname[n]] >= 2 for n in A.expr_names(q["lhs"]) + A.expr_names(q["rhs"])):
                    return True
    return False


def kf_state_without_equation(impl_line):
    """matcher of C05-state-without-equation: a state whose equations() is empty"""
    for it in fields(impl_line).get("S", "").split(";"):
        if it and it.split(":")[3] == "":
            return True
    return False


def kf_nla_split(impl_line):
    """matcher of C05-nla-system-split: an NLA equation one of whose siblings has another sibling set / system index"""
    f = fields(impl_line)
    eqs = {}
    for it in f.get("E", "").split(";"):
        if it:
            p = it.split(":")
            eqs[p[0]] = (p[1], p[4], set(x for x in p[5].split("+") if x))
    for e, (typ, idx, sibs) in eqs.items():
        if typ != "nla":
            continue
        for d in sibs:
            if d not in eqs or eqs[d][1] != idx or (eqs[d][2] | {d}) != (sibs | {e}):
                return True
    return False


# ------------------------------------------------------------------------------------------ generation

FAULT_PAIRS = list(itertools.combinations(range(len(A.ILL_POSED)), 2))
FAULT_TRIPLES = list(itertools.combinations(range(len(A.ILL_POSED)), 3))


def make_cases(ctx, n_systems, n_orders):
    """list of groups; a group = dict(base=system, members=[(kind, system, naming)]).
    Always first: the 8 systems of the model-type decision table and the corpus (witnesses of the findings).  Then the
    generated systems: every third one with each single fault, every third one with two pairs of faults (cycling
    through all pairs of fault kinds, in random order) and, every other time, a triple."""
    rng = ctx.rng
    groups = []
    corpus = os.path.join(vf.ROOT, "corpus", "C05.jsonl")
    seeds = A.decision_table_systems()
    if os.path.exists(corpus):
        seeds += [json.loads(l) for l in open(corpus) if l.strip()]
    npair = ntriple = 0
    for i in range(n_systems + len(seeds)):
        if i < len(seeds):
            base = seeds[i]
        else:
            base = A.random_system(rng, max_classes=rng.choice([4, 6, 8, 10]))
        variants = [base]
        if base["truth"]["variant"] == "table":
            pass
        elif i % 3 == 0 or i < len(seeds):
            for f in A.ILL_POSED:
                v = f(rng, base)
                if v is not None:
                    variants.append(v)
        elif i % 3 == 1:
            combos = []
            for _ in range(2):
                combos.append(FAULT_PAIRS[npair % len(FAULT_PAIRS)])
                npair += 1
            if (i // 3) % 2 == 0:
                combos.append(FAULT_TRIPLES[ntriple % len(FAULT_TRIPLES)])
                ntriple += 1
            for combo in combos:
                fs = [A.ILL_POSED[j] for j in combo]
                rng.shuffle(fs)
                v = A.variant_combination(rng, base, fs)
                if v is not None:
                    variants.append(v)
        for b in variants:
            members = [("listed", b, "plain")]
            for _ in range(n_orders - 1):
                members.append(("reordered", A.reorder(rng, b), "plain"))
            members.append(("renamed-globally", b, "alt"))
            r = A.rename_per_component(rng, A.reorder(rng, b) if rng.random() < 0.5 else b)
            if A.parser_safe(r):
                members.append(("renamed-per-component", r, "plain"))
            for _, m, _ in members:
                ids = [q["id"] for c in m["comps"] for q in c["eqs"]]
                if len(ids) != len(set(ids)):
                    # hypothesis unique_ids of C05_result_wf_dependencies_* / C05_direct_equations_topological_order
                    raise RuntimeError("generated system with repeated equation ids: %r" % (ids,))
            groups.append({"base": b, "members": members})
    return groups


def only_cc_vs_algebraic(c1, c2):
    """two classifications with the same model type that differ only in computed_constant <-> algebraic roles:
    the matcher of C05-requalification-single-sweep"""
    if c1[0] != c2[0] or c1 == c2:
        return False
    r1, r2 = dict(c1[1]), dict(c2[1])
    if set(r1) != set(r2):
        return False
    return all(r1[k] == r2[k] or {r1[k], r2[k]} == {"computed_constant", "algebraic"} for k in r1)


def table_cell(impl_line):
    """(has a variable of unknown type, has a state that is not initialised, has an over-constrained variable) as told
    by the issues of an analysis, and the model type those imply by AnalyserModel::Type's decision table"""
    u, s, o = int("E:UNUSED:" in impl_line), int("E:STATE_NOT_INIT:" in impl_line), int("E:COMPUTED_TWICE:" in impl_line)
    if u or s:
        exp = "unsuitably_constrained" if o else "underconstrained"
    else:
        exp = "overconstrained" if o else None
    return (u, s, o), exp


# ------------------------------------------------------------------------------------------ the check

def run(ctx):
    quick = ctx.quick()
    ctx.proofs()
    ctx.assumptions += [
        "the abstraction: all units dimensionless, MathML restricted to eq / binary plus,minus,times / diff / ci / cn; "
        "equivalence classes are taken as given (Parser and areEquivalentVariables are C02's and C18's)",
        "equations are recognised in the AnalyserModel by the single <cn> each carries",
        "external variables are not exercised here (C20); the model keeps their code paths",
        "clauses 51 (ordering constraints through NLA systems) and 6 (shape of NLA systems) of AnalysisSpec.wf_failures "
        "are what the generator assumes beyond the property text: they are counted in the evidence, not demanded",
    ]
    drv, mdl = drivers()
    n_systems = 300 if quick else 3500
    groups = make_cases(ctx, n_systems, 3)
    flat = []
    for gi, g in enumerate(groups):
        for mi, (kind, s, naming) in enumerate(g["members"]):
            flat.append((gi, mi, kind, s, naming))
    ctx.log("cases: %d systems/variants, %d documents" % (len(groups), len(flat)))
    cml = [A.to_cellml(s, A.Naming(nm)).encode().hex() for _, _, _, s, nm in flat]
    mlines = [A.to_model_line(s) for _, _, _, s, _ in flat]
    impl = run_sharded(drv, [], cml, ctx.workdir, "impl")
    model = run_sharded(mdl, ["analyse"], mlines, ctx.workdir, "model")
    wf_impl = run_sharded(mdl, ["wf"], [m + " | " + c for m, c in zip(mlines, impl)], ctx.workdir, "wfi")
    wf_model = run_sharded(mdl, ["wf"], [m + " | " + c for m, c in zip(mlines, model)], ctx.workdir, "wfm")

    hist = {"model_type": {}, "variant": {}, "features": {}, "member_kind": {}, "equations": {}, "components": {},
            "wf_clauses_failing_on_impl": {}, "first_pass_complete": {"yes": 0, "no": 0},
            "fault_combinations": {}, "model_type_decision_table": {}}

    def bump(h, k):
        hist[h][k] = hist[h].get(k, 0) + 1
    nviol = [0]

    def violation(what, name, content):
        nviol[0] += 1
        if nviol[0] <= 5:
            ctx.violation(what, "%s_%d.json" % (name, nviol[0]), content)

    def payload(i, extra=None):
        gi, mi, kind, s, naming = flat[i]
        d = {"kind": kind, "naming": naming, "system": s, "model_line": mlines[i], "cellml": A.to_cellml(s, A.Naming(naming)),
             "impl": impl[i], "model": model[i], "wf_impl": wf_impl[i]}
        if extra:
            d.update(extra)
        return d

    distinct = set()
    late = []          # correspondence differences: reported after the oracle's own violations
    mismatch = set()
    for i, (gi, mi, kind, s, naming) in enumerate(flat):
        c, m = impl[i], model[i]
        tr = s.get("truth", {})
        bump("member_kind", kind)
        bump("variant", tr.get("variant", "?"))
        bump("equations", str(sum(len(k["eqs"]) for k in s["comps"])))
        bump("components", str(len(s["comps"])))
        if kind == "listed":
            for ft in tr.get("features", []):
                bump("features", ft)
        if A.nontrivial(s):
            distinct.add(mlines[i] + "/" + naming)
        if not c.startswith("T="):
            violation("C05: implementation %s" % c[:60], "impl_failure", payload(i))
            continue
        bump("model_type", fields(c)["T"])
        # ---- oracle (d): the model type follows from the kinds of variable errors reported (decision table)
        cell, exp_type = table_cell(c)
        if fields(c)["T"] in ("underconstrained", "overconstrained", "unsuitably_constrained") or cell != (0, 0, 0):
            key = "unknown=%d should_be_state=%d overconstrained=%d -> %s" % (cell + (fields(c)["T"],))
            bump("model_type_decision_table", key)
            if fields(c)["T"] != exp_type:
                violation("C05 oracle: model type %s does not follow from the variable errors reported (expected %s)" % (fields(c)["T"], exp_type),
                          "table", payload(i))
        if tr.get("variant") == "combo" and kind == "listed":
            bump("fault_combinations", "+".join(sorted(tr["faults"])))
        # ---- oracle (a): well-formedness of the real AnalyserModel (AnalysisSpec.wf_failures, extracted)
        w = wf_impl[i]
        if w not in ("WF=ok", "WF=na"):
            wf_fields = fields(w)
            codes = wf_fields["WF"].split(",") if "WF" in wf_fields else ["?"]
            bad_deps = set(int(x) for x in wf_fields.get("DEPS", "").split("+") if x)
            for code in codes:
                bump("wf_clauses_failing_on_impl", WF_NAMES.get(code, code))
            demanded = [x for x in codes if x in WF_DEMANDED or x == "?"]
            if ("4" in demanded or "41" in demanded) and kf_dependency_retarget(s, bad_deps) and ctx.known_finding(
                    "C05-dependency-lost-on-retarget",
                    "an equation's dependencies are not the equations computing the variables it reads (equations %s): %s" % (
                        sorted(bad_deps), A.to_model_line(s)[:80])):
                demanded = [x for x in demanded if x not in ("4", "41")]
            if "3" in demanded and kf_nla_split(c) and ctx.known_finding(
                    "C05-nla-system-split",
                    "a variable is computed by NLA equations of different NLA systems: %s" % A.to_model_line(s)[:80]):
                demanded.remove("3")
            if "3" in demanded and kf_state_without_equation(c) and ctx.known_finding(
                    "C05-state-without-equation",
                    "a state is computed by no equation (the equation mentioning its rate was discarded): %s" % A.to_model_line(s)[:80]):
                demanded.remove("3")
            if demanded:
                violation("C05 oracle: valid AnalyserModel is not well formed: %s" % ", ".join(WF_NAMES.get(x, x) for x in demanded),
                          "wf", payload(i))
        # ---- correspondence: exact
        if c != m:
            if len(late) < 5:
                late.append(("C05 correspondence: analyser and model differ", "correspondence", payload(i)))
            mismatch.add(i)

    # ---- oracle (b): ground truth; (c): invariance
    start = 0
    index = {}
    for i, (gi, mi, *_r) in enumerate(flat):
        index[(gi, mi)] = i
    for gi, g in enumerate(groups):
        base = g["base"]
        tr = base["truth"]
        idx = [index[(gi, mi)] for mi in range(len(g["members"]))]
        if any(not impl[i].startswith("T=") for i in idx):
            continue
        systems = [flat[i][3] for i in idx]
        fpc = not kf_nla_pass(systems)
        hist["first_pass_complete"]["yes" if fpc else "no"] += 1
        cls = [classification(flat[i][3], impl[i]) for i in idx]
        if len(set(cls)) > 1:
            j = next(k for k in range(len(cls)) if cls[k] != cls[0])
            txt = "classification changes with order/naming (%s vs %s): %s" % (cls[0][0], cls[j][0], A.to_model_line(systems[0])[:80])
            if not fpc and all(c == cls[0] or only_cc_vs_algebraic(cls[0], c) for c in cls) and ctx.known_finding(
                    "C05-requalification-single-sweep",
                    "a variable is a computed constant or algebraic depending on the order of the equations: %s" % A.to_model_line(systems[0])[:80]):
                pass
            elif not fpc and ctx.known_finding("C05-nla-pass-order-dependent", txt):
                pass
            elif kf_same_component(systems) and ctx.known_finding("C05-same-component-equivalents", txt):
                pass
            else:
                violation("C05 oracle: classification is not invariant under re-ordering / renaming", "invariance",
                          {"first": payload(idx[0]), "other": payload(idx[j]), "classifications": [list(cls[0]), list(cls[j])]})
        # ground truth, on every listing
        for k, i in enumerate(idx):
            t, roles = cls[k]
            roles = dict(roles)
            var = tr["variant"]
            nla_feat = any(x in ("nla1", "nlasys") for x in tr.get("kinds", {}).values())
            bad = None
            if var == "base":
                if t != tr["type"]:
                    bad = "model type %s, expected %s" % (t, tr["type"])
                else:
                    for kk, r in tr["roles"].items():
                        got = roles.get(int(kk))
                        if r is not None and got != ({"voi": "voi"}.get(r, r)):
                            bad = "class %s is %s, expected %s" % (kk, got, r)
                            break
                if bad and not fpc and t == tr["type"] and "is computed_constant, expected algebraic" in bad and ctx.known_finding(
                        "C05-requalification-single-sweep", "%s although it depends on an NLA unknown: %s" % (bad, mlines[i][:80])):
                    bad = None
                if bad and not fpc and ctx.known_finding("C05-nla-pass-order-dependent",
                                                         "a well-posed system is mis-classified (%s): %s" % (bad, mlines[i][:80])):
                    bad = None
                if bad and kf_same_component(systems) and ctx.known_finding(
                        "C05-same-component-equivalents", "a well-posed system is mis-classified (%s): %s" % (bad, mlines[i][:80])):
                    bad = None
            elif var == "table":
                if t != tr["type"]:
                    bad = "decision table cell %s: model type %s, expected %s" % (tr["cell"], t, tr["type"])
            elif var == "combo":
                pass
            elif var in ("nonconstant_init", "two_vois"):
                rule = "NON_CONST_INIT" if var == "nonconstant_init" else "VOI_SEVERAL"
                if t != "invalid" or rule not in impl[i]:
                    bad = "expected an invalid model with %s" % rule
            elif var in ("double_init", "initialised_voi"):
                rule = "INIT_TWICE" if var == "double_init" else "VOI_INIT"
                if t != "invalid" or rule not in impl[i]:
                    # an initialised voi that is also doubly initialised reports INIT_TWICE first
                    if not (t == "invalid" and ("INIT_TWICE" in impl[i] or "VOI_INIT" in impl[i])):
                        bad = "expected an invalid model with %s" % rule
            elif not nla_feat:
                if var == "uninitialised_state":
                    if t not in ("underconstrained", "unsuitably_constrained") or "STATE_NOT_INIT" not in impl[i]:
                        bad = "expected under-constrained with a state that is not initialised"
                elif var == "missing_equation":
                    dropped_state = any(tr["roles"].get(kk) == "state" and tr["dropped"] in ids for kk, ids in tr["definer"].items())
                    if not dropped_state and t not in ("underconstrained", "unsuitably_constrained"):
                        bad = "expected under-constrained after dropping equation %d" % tr["dropped"]
                elif var == "extra_equation":
                    if fpc is False and t in VALID:
                        # the copy only mentions an initialised class: the analyser reads it as an equation for that
                        # class (NLA with initial guess); everything else must be over-constrained
                        pass
                    if t in VALID and not _copy_reads_initialised(flat[i][3], tr["added"]):
                        bad = "expected over-constrained after duplicating an equation"
                        if kf_state_without_equation(impl[i]) and ctx.known_finding(
                                "C05-state-without-equation", "an untyped equation (and its copy) is discarded: %s" % mlines[i][:80]):
                            bad = None
            if bad:
                violation("C05 oracle: ground truth: %s" % bad, "truth", payload(i, {"expected": tr}))

    # ---- exhaustive search on the extracted model: order dependence of small systems
    searches = [(3, 3)] if quick else [(4, 3), (3, 4)]
    ctx.cov["exhaustive_search"] = []
    for k, n in searches:
        rc, out = vf.sh([mdl, "search", str(k), str(n)], timeout=3000)
        line = next((l for l in out.split("\n") if l.startswith("SEARCH")), "")
        f = dict(x.split("=", 1) for x in line.split(" ") if "=" in x and not x.startswith("smallest"))
        ctx.cov["exhaustive_search"].append(line)
        ctx.log(line[:230])
        if not line or int(f.get("order_dependent_with_a_complete_first_pass", "1")) != 0 or int(f.get("first_pass_completeness_depends_on_order", "1")) != 0:
            violation("C05 model: a system solved by the first pass alone is order dependent (the stated sub-domain of invariance is wrong)",
                      "search", {"search": line})
    for what, name, content in late:
        violation(what, name, content)
    if mismatch:
        ctx.log("correspondence: %d of %d documents differ" % (len(mismatch), len(flat)))
    ctx.cov["evaluations"] = len(flat)
    ctx.cov["distinct_nontrivial"] = len(distinct)
    ctx.cov["traces_validated_against_impl"] = len(flat)
    ctx.cov["rule"] = ("%d generated well-posed systems (random dependency DAGs of constants, computed constants, algebraic equations, "
                       "ODEs, single non-isolated equations and NLA systems with initial guesses, over 1-3 flat or encapsulated components "
                       "joined by map_variables, aliased and shared variable names, classes with several variables in one component linked "
                       "through another component) plus the 8 systems of the model-type decision table and the corpus; every third one with its "
                       "7 single faults (extra equation, missing equation, uninitialised state, doubly initialised class, initialised voi, "
                       "non-constant initialisation, second voi), every third one with pairs / triples of faults cycling through all pairs; each listed in 3 "
                       "orders (components, variables, equations, connections shuffled), globally renamed, and renamed per component. "
                       "Every document goes through Parser -> Analyser and the extracted model; non-trivial = >= 2 equations and (a class "
                       "with >= 2 member variables or an ODE or a non-isolated equation); distinct by abstract system text + naming" % n_systems)
    k = len(flat) // 3
    ctx.cov["samples"] = [mlines[0], mlines[k], {"cellml": A.to_cellml(flat[k][3], A.Naming(flat[k][4])), "impl": impl[k]}]
    ctx.cov["exhaustive"] = False
    cells = sorted({k.split(" -> ")[0] for k in hist["model_type_decision_table"]})
    ctx.cov["decision_table_cells_covered"] = "%d of 7 error combinations of {unknown, should_be_state, overconstrained} (+ the valid one): %s" % (
        len([c for c in cells if c != "unknown=0 should_be_state=0 overconstrained=0"]), cells)
    pairs_seen = set()
    for k in hist["fault_combinations"]:
        fs = k.split("+")
        pairs_seen |= {tuple(sorted(x)) for x in itertools.combinations(fs, 2)}
    ctx.cov["fault_pairs_covered"] = "%d of %d pairs of fault kinds injected together" % (len(pairs_seen), len(FAULT_PAIRS))
    ctx.cov["input_distribution"] = hist
    ctx.log("model types %s" % hist["model_type"])
    ctx.log("wf clauses failing on the implementation: %s" % hist["wf_clauses_failing_on_impl"])


def _copy_reads_initialised(system, eq_id):
    """the duplicated equation mentions a class that carries an initial value and is not a state"""
    states = set()
    for c in system["comps"]:
        byname = {v["name"]: v["cls"] for v in c["vars"]}
        for q in c["eqs"]:
            for e in (q["lhs"], q["rhs"]):
                _diffs(e, byname, states)
    inited = {v["cls"] for c in system["comps"] for v in c["vars"] if v["init"] is not None}
    for c in system["comps"]:
        byname = {v["name"]: v["cls"] for v in c["vars"]}
        for q in c["eqs"]:
            if q["id"] == eq_id:
                names = A.expr_names(q["lhs"]) + A.expr_names(q["rhs"])
                return any(byname[n] in inited and byname[n] not in states for n in names)
    return False


def _diffs(e, byname, out):
    if e[0] == "D":
        out.add(byname[e[2]])
    elif e[0] == "O":
        _diffs(e[1], byname, out)
        _diffs(e[2], byname, out)


def replay(ctx, path):
    r = json.load(open(path))
    if "first" in r:
        items = [r["first"], r["other"]]
    else:
        items = [r]
    drv, mdl = drivers()
    for it in items:
        s = it["system"]
        cf = os.path.join(ctx.workdir, "replay.c.cases")
        mf = os.path.join(ctx.workdir, "replay.m.cases")
        open(cf, "w").write(A.to_cellml(s, A.Naming(it.get("naming", "plain"))).encode().hex() + "\n")
        open(mf, "w").write(A.to_model_line(s) + "\n")
        c = vf.sh([drv, cf])[1].strip()
        m = vf.sh([mdl, "analyse", mf])[1].strip()
        open(mf, "w").write(A.to_model_line(s) + " | " + c + "\n")
        w = vf.sh([mdl, "wf", mf])[1].strip()
        print(A.to_cellml(s, A.Naming(it.get("naming", "plain"))))
        print("impl :", c)
        print("model:", m)
        print("wf(impl):", w)
