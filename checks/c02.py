"""C02 -- printing then parsing a model preserves its content.

proofs : Properties_C02.v over XmlDefs / EntTreeDefs / PrintDefs / LoadDefs / RoundtripSpec (see design_notes/C02.md)
tie    : models built through harness/common/script.hpp (gen/script_gen.py valid / invalid models, gen/c02_models.py
         hostile-text models with imports, placeholders, connections, each deviation from printability).  For each:
           * the C++ driver describes the original model (ENT0), prints it, parses the text strictly, describes the
             re-parsed model (ENT1) and the parser's issues, prints again, parses again;
           * the extracted model gets ENT0 (+ the math strings parsed by python's expat, independent of libxml2) and
             predicts: the document TREE of the first print (compared with python's own parse of the printed text),
             the issue list (level, rule) of the strict parse, the re-parsed model, the second print, its issues, its model.
search : on the library's own output, for models in the property's domain (validator-accepted, or `printable` in the
         sense of RoundtripSpec.printableb): printed text non-empty and well-formed, 0 parser issues, dump.hpp content
         of original and re-parsed equal (numbers at 15 digits, math up to blanks, child order ignored), second print
         parses to the same content with 0 issues and is the same document up to child order.
"""
import hashlib
import json
import math
import os
import random
import re
import subprocess
import xml.etree.ElementTree as ET

import vf
import script_gen
import c02_models

CELLML = "http://www.cellml.org/cellml/2.0#"
MATHML = "http://www.w3.org/1998/Math/MathML"


# ------------------------------------------------------------------------------------------------ small helpers

def S(s):
    if isinstance(s, str):
        s = s.encode("utf-8")
    return "s" + bytes(s).hex()


def unS(tok):
    return bytes.fromhex(tok[1:])


_SHARD_SEQ = [0]


def shards(ctx, exe, name, lines, extra=()):
    """run exe over the lines split in up to NCPU files, in parallel; returns the output lines in order.
    (file names are unique per call: other checks call this concurrently from threads)"""
    import threading
    n = max(1, min(vf.NCPU, len(lines) // 40 + 1))
    procs = []
    _SHARD_SEQ[0] += 1
    uniq = "%d_%d_%d" % (os.getpid(), threading.get_ident() % 100000, _SHARD_SEQ[0])
    for k in range(n):
        part = lines[k::n]
        p = os.path.join(ctx.workdir, "%s.%s.%d.cases" % (name, uniq, k))
        with open(p, "w") as f:
            f.write("\n".join(part) + ("\n" if part else ""))
        # (output goes to a file, not a pipe: the lines are long and a full pipe would serialise the shards)
        po = p + ".out"
        fo = open(po, "wb")
        procs.append((k, len(part), subprocess.Popen([exe] + list(extra) + [p], stdout=fo, stderr=subprocess.DEVNULL), fo, po))
    out = [None] * len(lines)
    for k, cnt, pr, fo, po in procs:
        pr.wait()
        fo.close()
        with open(po, "rb") as f:
            o = f.read().decode("utf-8", "replace").split("\n")
        os.remove(po)
        try:
            os.remove(po[:-4])
        except OSError:
            pass
        for i in range(cnt):
            out[k + i * n] = o[i] if i < len(o) else "<missing>"
    return out


def rule_names():
    """int(ReferenceRule) -> name, from the table regenerated into coq/gen/RuleTable.v"""
    txt = open(os.path.join(vf.COQ, "gen", "RuleTable.v")).read()
    body = txt.split("Definition rule_names", 1)[1].split("].", 1)[0]
    return re.findall(r'"([A-Z0-9_]+)"', body)


# ------------------------------------------------------------------------------------------------ S-expressions

def tokenize(s):
    return s.replace("(", " ( ").replace(")", " ) ").split()


def parse_sx(tokens):
    """tokens -> nested lists"""
    stack = [[]]
    for t in tokens:
        if t == "(":
            stack.append([])
        elif t == ")":
            top = stack.pop()
            stack[-1].append(top)
        else:
            stack[-1].append(t)
    if len(stack) != 1:
        raise ValueError("unbalanced")
    return stack[0]


def parse_ent(text):
    """ENT text -> nested lists (head symbol first)"""
    return parse_sx(tokenize(text))[0]


# ---- xml <-> the S-expression text shared with ocaml/roundtrip/driver.ml (sxml)

def _split_tag(tag):
    if tag.startswith("{"):
        ns, nm = tag[1:].split("}", 1)
        return ns, nm
    return "", tag


def et_to_sx(e, strip=True, default_ns=""):
    """default_ns: the namespace an element without one is read in (a math string is inserted under the
    document's default namespace, CellML 2.0)"""
    ns, nm = _split_tag(e.tag)
    if ns == "":
        ns = default_ns
    ats = []
    for k, v in e.attrib.items():
        ans, anm = _split_tag(k)
        ats.append("(a %s %s %s)" % (S(ans), S(anm), S(v)))
    ats.sort()
    kids = []
    t = e.text or ""
    if t.strip(" \t\n\r"):
        kids.append("(t %s)" % S(t.strip(" \t\n\r") if strip else t))
    for c in e:
        if callable(c.tag):        # comment / PI
            pass
        else:
            kids.append(et_to_sx(c, strip, default_ns))
        tl = c.tail or ""
        if tl.strip(" \t\n\r"):
            kids.append("(t %s)" % S(tl.strip(" \t\n\r") if strip else tl))
    return "(e %s %s (%s ) (%s ))" % (S(ns), S(nm), "".join(" " + a for a in ats), "".join(" " + k for k in kids))


def parse_doc(text):
    """printed document (bytes) -> sxml text, or None when expat refuses it"""
    try:
        root = ET.fromstring(text)
    except ET.ParseError:
        return None
    except Exception:
        return None
    return et_to_sx(root)


# PrinterImpl::printMath: std::regex (ECMAScript) "<\\?xml[[:space:]]+version=.*?\\?>": "." stops at line terminators,
# ".*?" is NON-greedy since fixes/C02-xml-declaration-non-greedy.diff (each declaration goes on its own; the greedy
# pattern took the mathematics between two declarations on one line along: finding C02-greedy-xml-declaration)
_DECL = re.compile("<\\?xml[ \t\n\r\v\f]+version=[^\n\r\u2028\u2029]*?\\?>")


def math_elems(s):
    """what printMath makes of a math string: the children of the wrapper element, text trimmed.
    -> list of sxml texts, or None when the wrapped string is not well-formed"""
    if isinstance(s, bytes):
        try:
            s = s.decode("utf-8")
        except UnicodeDecodeError:
            return None
    s = _DECL.sub("", s)
    try:
        root = ET.fromstring("<w>" + s + "</w>")
    except ET.ParseError:
        return None
    out = []
    t = root.text or ""
    if t.strip(" \t\n\r"):
        out.append("(t %s)" % S(t.strip(" \t\n\r")))
    for c in root:
        if not callable(c.tag):
            out.append(et_to_sx(c, True, CELLML))
        tl = c.tail or ""
        if tl.strip(" \t\n\r"):
            out.append("(t %s)" % S(tl.strip(" \t\n\r")))
    return out


def math_text(s):
    """a math string read back from the library -> the text the model's [math_text] yields for the same elements"""
    if not s:
        return b""
    el = math_elems(s)
    if el is None:
        return b"<<malformed>>" + (s if isinstance(s, bytes) else s.encode())
    return "".join(x + "\n" for x in el).encode()


# ------------------------------------------------------------------------------------------------ ENT handling

def ent_math_strings(ent):
    """all math strings of an ENT tree (component math, test / reset values)"""
    out = []

    def comp(c):
        out.append(unS(c[6]))
        for r in c[8]:
            out.append(unS(r[-4]))
            out.append(unS(r[-2]))
        for k in c[9]:
            comp(k)
    for c in ent[5]:
        comp(c)
    return [m for m in out if m]


def math_table(ent):
    items = []
    seen = set()
    for m in ent_math_strings(ent):
        if m in seen:
            continue
        seen.add(m)
        el = math_elems(m)
        if el is None:
            items.append("(K %s X)" % S(m))
        else:
            items.append("(K %s (%s ))" % (S(m), "".join(" " + x for x in el)))
    return "(" + "".join(" " + i for i in items) + " )"


def num15(tok):
    """n<%.17g> -> canonical text of the same double"""
    return tok


def canon_ent(ent, math_norm, tags=True):
    """ENT tree -> a hashable canonical value: child order kept, import source numbers renumbered by first occurrence,
    equivalences as a sorted list of (names of a, names of b, mid, cid) with the two ends sorted.
    math_norm: function applied to every math string (bytes -> bytes)."""
    tagmap = {}

    def src(s):
        if s == "-":
            return None
        t = s[1]
        if t not in tagmap:
            tagmap[t] = len(tagmap)
        return (tagmap[t] if tags else 0, unS(s[2]), unS(s[3]))

    def units(u):
        return ("U", unS(u[1]), unS(u[2]), src(u[3]), unS(u[4]),
                tuple((unS(d[1]), unS(d[2]), d[3], d[4], unS(d[5])) for d in u[5]))

    def var(v):
        return ("V", unS(v[1]), unS(v[2]), None if v[3] == "-" else unS(v[3]), unS(v[4]), unS(v[5]))

    def reset(r):
        # (R id ORDER VAR VAR tv tvid rv rvid) where VAR is one token "-" or two tokens "S"/"O" s<hex>
        i = 1
        rid = unS(r[i]); i += 1
        order = r[i]; i += 1
        refs = []
        for _ in range(2):
            if r[i] == "-":
                refs.append(None); i += 1
            else:
                refs.append((r[i], unS(r[i + 1]))); i += 2
        tv, tvid, rv, rvid = r[i], r[i + 1], r[i + 2], r[i + 3]
        return ("R", rid, order, refs[0], refs[1], math_norm(unS(tv)), unS(tvid), math_norm(unS(rv)), unS(rvid))

    def comp(c):
        return ("C", unS(c[1]), unS(c[2]), unS(c[3]), src(c[4]), unS(c[5]), math_norm(unS(c[6])),
                tuple(var(v) for v in c[7]), tuple(reset(r) for r in c[8]), tuple(comp(k) for k in c[9]))

    us = tuple(units(u) for u in ent[4])
    cs = tuple(comp(c) for c in ent[5])

    def names(path, vi):
        cur = ent[5]
        ns = []
        if path != "-":
            for i in path.split("."):
                c = cur[int(i)]
                ns.append(unS(c[1]))
                cur = c[9]
            vs = c[7]
            return (tuple(ns), unS(vs[int(vi)][1]) if int(vi) < len(vs) else b"?")
        return ((), b"?")
    es = []
    for e in ent[6]:
        a, b_ = names(e[1], e[2]), names(e[3], e[4])
        if b_ < a:
            a, b_ = b_, a
        es.append((a, b_, unS(e[5]), unS(e[6])))
    es.sort()
    return ("M", unS(ent[1]), unS(ent[2]), unS(ent[3]), us, cs, tuple(es))


def reset_fix(ent):
    """the reset entries of ENT have a variable-length VAR field: parse_sx gives flat tokens, handled in canon_ent"""
    return ent


def sort_canon(x):
    """canonical value -> the same with every child list sorted (content up to child order) and import tags dropped"""
    if isinstance(x, tuple) and x and x[0] == "M":
        return ("M", x[1], x[2], x[3], tuple(sorted((sort_canon(u) for u in x[4]), key=repr)),
                tuple(sorted((sort_canon(c) for c in x[5]), key=repr)), x[6])
    if isinstance(x, tuple) and x and x[0] == "U":
        s = x[3]
        return ("U", x[1], x[2], None if s is None else (s[1], s[2]), x[4], tuple(sorted(x[5], key=repr)))
    if isinstance(x, tuple) and x and x[0] == "C":
        s = x[4]
        return ("C", x[1], x[2], x[3], None if s is None else (s[1], s[2]), x[5], x[6], tuple(sorted(x[7], key=repr)),
                tuple(sorted(x[8], key=repr)), tuple(sorted((sort_canon(k) for k in x[9]), key=repr)))
    return x


# ------------------------------------------------------------------------------------------------ dump.hpp content

_DQ = re.compile(r'"((?:[^"\\]|\\.)*)"')


def dump_tokens(text):
    """dump.hpp text -> tokens ( ( ) "string" atom )"""
    toks = []
    i, n = 0, len(text)
    while i < n:
        ch = text[i]
        if ch in "()":
            toks.append(ch)
            i += 1
        elif ch == '"':
            m = _DQ.match(text, i)
            toks.append(("s", m.group(1)))
            i = m.end()
        elif ch == " ":
            i += 1
        else:
            j = i
            while j < n and text[j] not in ' ()"':
                j += 1
            toks.append(text[i:j])
            i = j
    return toks


def dump_tree(text):
    stack = [[]]
    for t in dump_tokens(text):
        if t == "(":
            stack.append([])
        elif t == ")":
            top = stack.pop()
            stack[-1].append(top)
        else:
            stack[-1].append(t)
    return stack[0][0]


def _undq(s):
    """dump.hpp dq body -> bytes"""
    out = bytearray()
    i = 0
    while i < len(s):
        if s[i] == "\\":
            if s[i + 1] == "x":
                out.append(int(s[i + 2:i + 4], 16))
                i += 4
            else:
                out.append(ord(s[i + 1]))
                i += 2
        else:
            out.append(ord(s[i]))
            i += 1
    return bytes(out)


def r15(tok):
    """a %.17g number -> the double after a trip through 15 significant digits (1.0 is never written)"""
    try:
        f = float(tok)
    except ValueError:
        return tok
    if f == 1.0:
        return "1"
    if math.isnan(f) or math.isinf(f):
        return tok
    return repr(float("%.15g" % f))


def dump_content(tree, round_numbers):
    """dump.hpp tree -> canonical content: numbers through 15 digits (original side) or as read (re-parsed side),
    math normalised, linkage / same-other-orphan status and hasmodel dropped, unset order value ignored, sorted"""
    def go(x):
        if isinstance(x, tuple):
            return ("s", x[1])
        if isinstance(x, str):
            return x
        head = x[0] if x and isinstance(x[0], str) else None
        if head in ("exp", "mult"):
            if x[1] in ("inf", "-inf", "nan", "-nan"):
                return (head, x[1])
            return (head, repr(float(r15(x[1]))) if round_numbers else repr(float(x[1])))
        if head in ("math", "testvalue", "resetvalue"):
            return (head, math_text(_undq(x[1][1])))
        if head == "units" and len(x) == 3 and isinstance(x[1], tuple) and x[2] in ("linked", "unlinked", "foreign"):
            return ("units", go(x[1]))
        if head in ("var", "testvar"):
            return (head,) + tuple(go(y) for y in x[1:2])
        if head == "order":
            return ("order", x[1] if x[2] == "set" else "-", x[2])
        if head == "import" and len(x) > 1 and isinstance(x[1], list):
            return ("import",) + tuple(go(y) for y in x[1:] if not (isinstance(y, list) and y and y[0] == "hasmodel"))
        kids = [go(y) for y in x[1:]]
        if head in ("unitslist", "components", "variables", "resets", "equivalences", "units"):
            kids = sorted(kids, key=repr)
        return (head,) + tuple(kids)
    return go(tree)


# ------------------------------------------------------------------------------------------------ generators

def gen_cases(ctx, n_total):
    """-> list of (kind, script text, info)"""
    rng = ctx.rng
    cases = []
    # kinds and their share
    plan = [("valid", 0.30), ("valid_big", 0.10), ("hostile", 0.22), ("hostile_ws", 0.08), ("plain_imports", 0.08),
            ("deviation", 0.12), ("invalid", 0.10)]
    for kind, share in plan:
        n = max(1, int(n_total * share))
        for i in range(n):
            r = random.Random(rng.getrandbits(64))
            if kind == "valid":
                lines, info = script_gen.random_model_script(r, valid=True, p_import=r.choice([0.0, 0.15, 0.4]),
                                                             p_eq_ids=r.choice([0.3, 0.8]), p_id=r.choice([0.3, 0.7]))
            elif kind == "valid_big":
                lines, info = script_gen.random_model_script(r, valid=True, n_components=(4, 12), vars_per_component=(1, 5),
                                                             n_units=(2, 6), n_resets=(0, 5), n_equivalences=(2, 14), max_depth=4,
                                                             p_eq_ids=0.6, wild_numbers=False)
            elif kind == "hostile":
                lines, info = c02_models.hostile_model_script(r, hostile=True, ws=False, size=r.choice([1, 1, 2]))
            elif kind == "hostile_ws":
                lines, info = c02_models.hostile_model_script(r, hostile=True, ws=True, size=1)
            elif kind == "plain_imports":
                lines, info = c02_models.hostile_model_script(r, hostile=False, ws=False, size=r.choice([1, 2, 3]))
            elif kind == "deviation":
                dev = c02_models.DEVIATIONS[i % len(c02_models.DEVIATIONS)]
                lines, info = c02_models.hostile_model_script(r, hostile=r.random() < 0.3, deviation=dev, size=1)
                kind_name = "dev:" + dev
                cases.append((kind_name, ";".join(lines), info))
                continue
            else:
                lines, info = script_gen.random_model_script(r, valid=False, p_far_equivalence=0.1)
            cases.append((kind, ";".join(lines), info))
    return cases


# ------------------------------------------------------------------------------------------------ findings

def classify_known(ctx, ent0):
    """known-finding matchers over the CASE (the original model).  -> list of finding ids whose class the model is in"""
    ids = []
    # C02-std-named-units: a child-less, non-imported units named like a standard unit
    for u in ent0[4]:
        if u[3] == "-" and len(u[5]) == 0 and unS(u[1]).decode("utf-8", "replace") in script_gen.STANDARD_UNITS:
            ids.append("C02-std-named-units")
            break
    # C02-encapsulation-id-without-hierarchy: model / top-level leaf component with an encapsulation id that no
    # element of the document can carry
    has_h = any(len(c[9]) > 0 for c in ent0[5])
    if (unS(ent0[3]) and not has_h) or any(len(c[9]) == 0 and unS(c[3]) for c in ent0[5]):
        ids.append("C02-encapsulation-id-without-hierarchy")
    # C02-imported-entity-local-content: an imported units with unit children, an imported component with math,
    # resets, or a variable that is more than a name (or that no equivalence mentions)
    connected = set()
    for e in ent0[6]:
        connected.add((e[1], e[2]))
        connected.add((e[3], e[4]))

    def local_content(c, path):
        if c[4] != "-":
            if unS(c[6]) or len(c[8]) > 0:
                return True
            for vi, v in enumerate(c[7]):
                if unS(v[2]) or v[3] != "-" or unS(v[4]) or unS(v[5]) or (path, str(vi)) not in connected:
                    return True
        return any(local_content(k, path + "." + str(i)) for i, k in enumerate(c[9]))
    def ref_without_source(c):
        return (c[4] == "-" and bool(unS(c[5]))) or any(ref_without_source(k) for k in c[9])
    if any(u[3] != "-" and len(u[5]) > 0 for u in ent0[4]) or any(local_content(c, str(i)) for i, c in enumerate(ent0[5])) \
            or any(u[3] == "-" and unS(u[4]) for u in ent0[4]) or any(ref_without_source(c) for c in ent0[5]):
        ids.append("C02-imported-entity-local-content")
    # C02-non-mathml-math: a math string (component math, test / reset value) that is not made of MathML math elements
    math_head = "(e %s %s " % (S(MATHML), S("math"))
    for ms in ent_math_strings(ent0):
        el = math_elems(ms)
        if el is None or any(not x.startswith(math_head) for x in el):
            ids.append("C02-non-mathml-math")
            break
    # C02-number-overflows-at-15-digits: a finite exponent / multiplier whose 15-digit text is beyond DBL_MAX
    for u in ent0[4]:
        for d in u[5]:
            for tok in (d[3], d[4]):
                try:
                    f = float(tok[1:])
                    if math.isinf(f) or math.isnan(f):
                        ids.append("C02-number-overflows-at-15-digits")
                        continue
                    g = float("%.15g" % f)
                    if f != 0.0 and (math.isinf(g) or abs(g) < 2.2250738585072014e-308):
                        ids.append("C02-number-overflows-at-15-digits")
                except (ValueError, OverflowError):
                    pass
    return ids


def literal_domain(ent0):
    """names non-empty and unique in their scope (units in the model, components model-wide, variables in their
    component), every string valid UTF-8 without C0 control characters other than TAB LF CR"""
    strings = []

    def ok_str(b):
        try:
            t = b.decode("utf-8")
        except UnicodeDecodeError:
            return False
        return not any(ord(ch) < 32 and ch not in "\t\n\r" for ch in t)
    if not unS(ent0[1]):
        return False
    unames = [unS(u[1]) for u in ent0[4]]
    if any(not n for n in unames) or len(set(unames)) != len(unames):
        return False
    cnames = []

    def comp(c):
        cnames.append(unS(c[1]))
        vn = [unS(v[1]) for v in c[7]]
        if any(not n for n in vn) or len(set(vn)) != len(vn):
            return False
        return all(comp(k) for k in c[9])
    if not all(comp(c) for c in ent0[5]):
        return False
    if any(not n for n in cnames) or len(set(cnames)) != len(cnames):
        return False
    toks = re.findall(r"s[0-9a-f]*", " ".join(flatten_tokens(ent0)))
    return all(ok_str(unS(t)) for t in toks if re.fullmatch(r"s([0-9a-f]{2})*", t))


def flatten_tokens(x):
    if isinstance(x, list):
        out = []
        for y in x:
            out += flatten_tokens(y)
        return out
    return [x]


def crossed_names(ent0):
    """two equivalences between the same two components whose variable NAMES are the same unordered pair"""
    def var_name(path, vi):
        cur = ent0[5]
        for i in path.split("."):
            c = cur[int(i)]
            cur = c[9]
        return unS(c[7][int(vi)][1])
    seen = set()
    for e in ent0[6]:
        key = (frozenset((e[1], e[3])), tuple(sorted((var_name(e[1], e[2]), var_name(e[3], e[4])))))
        if key in seen:
            return True
        seen.add(key)
    return False


# ------------------------------------------------------------------------------------------------ one batch

class Result:
    pass


def fields(line):
    f = line.split("\t")
    return f


def kv(fs):
    d = {}
    for x in fs:
        if "=" in x:
            k, v = x.split("=", 1)
            d[k] = v
    return d


def issues_of_cpp(field, names):
    """'n=2 E:8 W:50' -> sorted list of 'E:MODEL_NAME'"""
    if field in ("-", ""):
        return None
    out = []
    for t in field.split()[1:]:
        lv, ri = t.split(":")
        ri = int(ri)
        out.append(lv + ":" + (names[ri] if 0 <= ri < len(names) else "?%d" % ri))
    return sorted(out)


def issues_of_ml(field):
    if field in ("-", ""):
        return None
    return sorted(field.split()[1:])


def evaluate(ctx, case, cpp_line, ml_line, names, stats):
    """compare one case; returns list of (severity, what, detail) with severity 'violation' | 'known:<id>' | 'note'"""
    kind, script, info = case
    problems = []
    if cpp_line.startswith(("CRASH", "THROW", "TIMEOUT", "<missing>")):
        problems.append(("violation", "library " + cpp_line.split("\t")[0] + " during print / parse", {}))
        return problems
    cf = fields(cpp_line)
    if cf[0] == "cyclic-units":
        what = "Printer::printModel dies (%s) on a model whose units reference each other in a cycle: Model::hasImports recurses without end" % cf[1]
        stats["cyclic_units"] += 1
        if ctx.known_finding("C02-cyclic-units-crash", what):
            problems.append(("known:C02-cyclic-units-crash", what, {}))
        else:
            problems.append(("violation", what, {}))
        return problems
    if cf[0] != "ok" or len(cf) < 13:
        stats["skipped"] += 1
        return problems
    ent0_text, val, d0, p1, pi, i1, ent1_text, d1, p2, i2, ent2_text, d2 = cf[1:13]
    if ent0_text.startswith("OOS"):
        stats["out_of_scope"] += 1
        stats.setdefault("oos_reasons", {}).setdefault(ent0_text, 0)
        stats["oos_reasons"][ent0_text] += 1
        return problems
    if ml_line is None or not ml_line.startswith("PB="):
        problems.append(("violation", "extracted model gave no answer: %s" % (ml_line or "")[:200], {}))
        return problems
    ml = kv(fields(ml_line))
    pb_fixed = ml["PB"][0] == "1"
    valid = val == "V=0"
    ent0 = parse_ent(ent0_text)
    p1_bytes = unS(p1)
    stats["printable"] += pb_fixed
    stats["valid"] += valid
    stats["flat"] += ml["PB"][2] == "1"
    stats["with_imports"] += ml["PB"][3] == "0"
    stats["with_hierarchy"] += ml["PB"][4] == "0"
    stats["with_connections"] += ml["PB"][5] == "0"
    stats["printable_in_proved_fragment"] += pb_fixed and ml["PB"][3] == "1" and ml["PB"][5] == "1"
    known = classify_known(ctx, ent0)

    def uniform_cids(ent_text):
        return all(e[6] == e[7] for e in parse_ent(ent_text)[6])

    # ---------------- correspondence: the first print
    doc = parse_doc(p1_bytes) if p1_bytes else None
    if ml["PX"] == "NONE":
        if p1_bytes:
            # the model says "not well-formed": e.g. control characters
            problems.append(("violation", "model predicts an empty document, the library printed one", {"printed": p1_bytes.decode("utf-8", "replace")[:2000]}))
    else:
        if not p1_bytes:
            raw_none = ml.get("PXRAW") == "NONE"
            problems.append(("violation", "printModel returned an empty string where the model (with escaping) predicts a document"
                             + (" -- matches the model of the printer WITHOUT escaping: attribute text with & < or a double quote" if raw_none else ""),
                             {"class": "C02-escape-attribute-values" if raw_none else "?"}))
        elif doc is None:
            problems.append(("violation", "printed text is not well-formed XML (python expat)", {"printed": p1_bytes.decode("utf-8", "replace")[:2000]}))
        elif doc != ml["PX"]:
            if ml.get("PXRAW") == doc:
                problems.append(("violation", "printed document differs from the model with escaping and equals the model WITHOUT escaping: attribute text changed by the XML reader (character references / white space)",
                                 {"class": "C02-escape-attribute-values"}))
            elif uniform_cids(ent0_text):
                problems.append(("violation", "printed document tree differs from the printer model", {"model": ml["PX"][:3000], "library": doc[:3000]}))
            else:
                stats["mixed_cid_print_differs"] += 1
    if not p1_bytes:
        if valid or pb_fixed:
            if not any(p[0] == "violation" for p in problems):
                problems.append(("violation", "empty document for a model in the property's domain", {}))
        return problems
    if ml["PX"] == "NONE" or doc is None:
        return problems

    # ---------------- correspondence: issues and re-parsed model
    mixed = not uniform_cids(ent0_text)
    ci1 = issues_of_cpp(i1, names)
    mi1 = issues_of_ml(ml["LI"])
    if ci1 != mi1 and doc == ml["PX"]:
        problems.append(("violation", "parser issues differ from the loader model", {"library": ci1, "model": mi1}))
    if ent1_text.startswith("OOS"):
        problems.append(("violation", "re-parsed model outside the entity model: " + ent1_text, {}))
        return problems
    ent1 = parse_ent(ent1_text)
    if doc == ml["PX"]:
        lm = parse_ent(ml["LM"])
        a = canon_ent(ent1, math_text)
        b = canon_ent(lm, lambda s: s)
        if mixed:
            a, b = a[:6] + (tuple(x[:3] for x in a[6]),), b[:6] + (tuple(x[:3] for x in b[6]),)
        if a != b:
            problems.append(("violation", "re-parsed model differs from the loader model", {"library": repr(a)[:3000], "model": repr(b)[:3000]}))
        # second print
        p2_bytes = unS(p2)
        doc2 = parse_doc(p2_bytes) if p2_bytes else None
        if not mixed and uniform_cids(ent1_text):
            if (ml["P2"] == "NONE") != (not p2_bytes):
                problems.append(("violation", "second print: model and library disagree on emptiness", {}))
            elif p2_bytes and doc2 != ml["P2"]:
                problems.append(("violation", "second print differs from the printer model applied to the loaded model", {"model": ml["P2"][:3000], "library": (doc2 or "")[:3000]}))
            elif p2_bytes:
                if issues_of_cpp(i2, names) != issues_of_ml(ml["LI2"]):
                    problems.append(("violation", "issues of the second parse differ from the model", {"library": issues_of_cpp(i2, names), "model": issues_of_ml(ml["LI2"])}))
                if not ent2_text.startswith("OOS") and canon_ent(parse_ent(ent2_text), math_text) != canon_ent(parse_ent(ml["LM2"]), lambda s: s):
                    problems.append(("violation", "model parsed from the second print differs from the loader model", {}))

    # ---------------- the property's own oracle on the library's output
    in_domain = valid or pb_fixed
    if in_domain:
        stats["in_domain"] += 1
        c0 = dump_content(dump_tree(d0), True)
        c1 = dump_content(dump_tree(d1), False)
        fails = []
        if ci1:
            fails.append(("parser raised issues on the printed document: %s" % ci1, "issues"))
        if c0 != c1:
            fails.append(("content of the re-parsed model differs from the original", "content"))
        if p2 == "s" or d2 == "-":
            fails.append(("second print / parse failed", "second"))
        else:
            c2 = dump_content(dump_tree(d2), False)
            if c2 != c1:
                fails.append(("content after the second round trip differs from the first", "second"))
            if issues_of_cpp(i2, names):
                fails.append(("parser raised issues on the second document", "second"))
            doc2 = parse_doc(unS(p2))
            if doc2 is None:
                fails.append(("second document not well-formed", "second"))
        for what, cls in fails:
            # known findings: the case is in the class AND the failure is the one the class explains
            matched = None
            if cls in ("content", "second") and not pb_fixed:
                for k in known:
                    matched = k
                    break
            if cls == "issues" and not pb_fixed and "C02-number-overflows-at-15-digits" in known \
                    and all(x in ("E:UNIT_ATTRIBUTE_MULTIPLIER_VALUE", "E:UNIT_ATTRIBUTE_EXPONENT_VALUE") for x in ci1):
                matched = "C02-number-overflows-at-15-digits"
            if not pb_fixed and "C02-non-mathml-math" in known and \
                    (cls != "issues" or all(x in ("E:XML_UNEXPECTED_CHARACTER", "E:XML_UNEXPECTED_ELEMENT", "E:XML_UNEXPECTED_NAMESPACE",
                                                  "E:TEST_VALUE_CHILD", "E:RESET_VALUE_CHILD", "E:XML_ATTRIBUTE_HAS_NAMESPACE") for x in ci1)):
                matched = "C02-non-mathml-math"
            if matched and ctx.known_finding(matched, what):
                problems.append(("known:" + matched, what, {}))
            else:
                problems.append(("violation", what + (" (valid=%s printable=%s)" % (valid, pb_fixed)), {"d0": d0[:3000], "d1": d1[:3000]}))
        pass
    elif literal_domain(ent0):
        # the property's wider, literal reading ("names non-empty and unique in their scope, strings XML character data")
        # without printability: the content may legitimately change (each such case violates a conjunct of `printable`
        # that has a _refuted witness); the classes that are FINDINGS are reported as such
        stats["literal_domain_not_printable"] += 1
        c0 = dump_content(dump_tree(d0), True)
        c1 = dump_content(dump_tree(d1), False)
        if c0 != c1:
            stats["literal_domain_content_differs"] += 1
            for k in known:
                ctx.known_finding(k, "content of the re-parsed model differs from the original (API-built model with non-empty unique names and plain strings, not validator-accepted)")
                break
    if in_domain:
        # the model's own theorem instance: printable => load (print m) = canon m with no issue
        if pb_fixed and doc == ml["PX"]:
            cn = canon_ent(parse_ent(ml["CN"]), lambda s: s, tags=False)
            lmv = canon_ent(parse_ent(ml["LM"]), lambda s: s, tags=False)
            if sort_canon(cn) != sort_canon(lmv) or issues_of_ml(ml["LI"]):
                problems.append(("violation", "model instance of the round-trip theorem fails: printableb holds but load (print m) is not canon m up to order / has issues",
                                 {"issues": issues_of_ml(ml["LI"])}))
    return problems


class _CtxStub:
    """stands in for vf.Ctx inside worker processes: remembers which known findings were matched"""
    def __init__(self, known_ids):
        self.known_ids = known_ids
        self.seen = []

    def known_finding(self, fid, text):
        if fid in self.known_ids:
            self.seen.append((fid, text))
            return True
        return False


def _eval_chunk(args):
    known_ids, names, items = args
    out = []
    for case, cl, mll in items:
        stub = _CtxStub(known_ids)
        st = new_stats()
        try:
            pr = evaluate(stub, case, cl, mll, names, st)
        except Exception as e:
            import traceback
            pr = [("violation", "check glue crashed on this case: %r" % (e,), {"trace": traceback.format_exc()[-1500:]})]
        out.append((pr, st, stub.seen))
    return out


def run_batch(ctx, cases, cpp, mdl, names, stats, tag):
    cpp_out = shards(ctx, cpp, tag + "_cpp", [c[1] for c in cases])
    ml_in = []
    ml_index = []
    for i, line in enumerate(cpp_out):
        cf = line.split("\t")
        if len(cf) >= 2 and cf[0] == "ok" and cf[1].startswith("(M"):
            try:
                ent0 = parse_ent(cf[1])
                ml_in.append("M " + cf[1] + "\t" + math_table(ent0))
                ml_index.append(i)
            except Exception as e:      # glue failure: counted, never silent
                stats["glue_errors"] += 1
    if tag != "shrink":
        ctx.log("library driver done (%d cases)" % len(cases))
    ml_out = shards(ctx, mdl, tag + "_ml", ml_in)
    if tag != "shrink":
        ctx.log("extracted model done")
    ml_by_case = {}
    for j, i in enumerate(ml_index):
        ml_by_case[i] = ml_out[j]
    items = [(c, cpp_out[i], ml_by_case.get(i)) for i, c in enumerate(cases)]
    known_ids = set(ctx.known) if hasattr(ctx, "known") else set()
    nproc = max(1, min(vf.NCPU, len(items) // 100))
    if nproc > 1:
        import multiprocessing
        step = (len(items) + nproc * 4 - 1) // (nproc * 4)
        chunks = [(known_ids, names, items[k:k + step]) for k in range(0, len(items), step)]
        with multiprocessing.Pool(nproc) as pool:
            parts = pool.map(_eval_chunk, chunks)
        evaluated = [x for part in parts for x in part]
    else:
        evaluated = _eval_chunk((known_ids, names, items))
    results = []
    for (c, cl, mll), (pr, st, seen) in zip(items, evaluated):
        for k, v in st.items():
            if isinstance(v, dict):
                d = stats.setdefault(k, {})
                for kk, vv in v.items():
                    d[kk] = d.get(kk, 0) + vv
            else:
                stats[k] = stats.get(k, 0) + v
        for fid, text in seen:
            ctx.known_finding(fid, text)
        results.append((c, cl, mll, pr))
    return results


def shrink(ctx, case, cpp, mdl, names, what, budget_s=45.0):
    """structural shrinking (delta debugging over script lines: drop chunks of halving size while the same kind of
    problem remains), bounded in time"""
    import time
    kind, script, info = case
    lines = script.split(";")
    t0 = time.time()

    def bad(ls):
        st = new_stats()
        res = run_batch(ctx, [(kind, ";".join(ls), info)], cpp, mdl, names, st, "shrink")
        return any(p[0] == "violation" and p[1].split(" (")[0] == what.split(" (")[0] for p in res[0][3])
    chunk = max(1, len(lines) // 2)
    while chunk >= 1 and time.time() - t0 < budget_s:
        i = len(lines) - chunk
        removed_any = False
        while i >= 1 and time.time() - t0 < budget_s:
            trial = lines[:i] + lines[i + chunk:]
            if len(trial) >= 2 and bad(trial):
                lines = trial
                removed_any = True
            i -= chunk
        if chunk == 1 and not removed_any:
            break
        chunk = chunk // 2 if chunk > 1 else (1 if removed_any else 0)
    return ";".join(lines)


def new_stats():
    return {k: 0 for k in ("skipped", "out_of_scope", "printable", "valid", "flat", "with_imports", "with_hierarchy",
                           "with_connections", "in_domain", "glue_errors", "mixed_cid_print_differs", "cyclic_units",
                           "literal_domain_not_printable", "literal_domain_content_differs", "printable_in_proved_fragment")}


def run(ctx):
    pr = ctx.proofs()
    build = vf.build_repo("plain")
    cpp = vf.compile_driver(build, os.path.join(vf.ROOT, "harness/c02_driver.cpp"), extra_flags=["-fno-access-control"])
    mdl = vf.ocaml_driver("roundtrip")
    names = rule_names()
    n_total = 1500 if ctx.quick() else 30000
    stats = new_stats()
    hist = {}
    seen = set()
    nontrivial = 0
    evaluations = 0
    reported = {}
    samples = []
    corpus_dir = os.path.join(vf.ROOT, "corpus", "C02")
    corpus = []
    if os.path.isdir(corpus_dir):
        for f in sorted(os.listdir(corpus_dir)):
            if f.endswith(".script"):
                corpus.append(("corpus:" + f, open(os.path.join(corpus_dir, f)).read().strip(), {}))
    chunk = 3000
    todo = n_total
    first = True
    while todo > 0:
        n = min(chunk, todo)
        cases = gen_cases(ctx, n)
        if first:
            cases = corpus + cases
            first = False
        todo -= n
        ctx.log("batch of %d cases generated" % len(cases))
        results = run_batch(ctx, cases, cpp, mdl, names, stats, "b%d" % todo)
        ctx.log("batch evaluated")
        for case, cl, mll, problems in results:
            evaluations += 1
            kind = case[0]
            hist[kind] = hist.get(kind, 0) + 1
            h = hashlib.sha1(case[1].encode()).hexdigest()
            cf = cl.split("\t")
            # non-trivial: the model holds at least one component with a variable, or a units with a child
            nt = len(cf) > 1 and ("(V " in cf[1] or "(D " in cf[1])
            if h not in seen and nt:
                nontrivial += 1
            seen.add(h)
            if len(samples) < 4 and nt and kind in ("valid", "hostile", "plain_imports", "dev:crossed_names"):
                if not any(s["kind"] == kind for s in samples):
                    samples.append({"kind": kind, "script": case[1][:600]})
            for sev, what, detail in problems:
                if sev != "violation":
                    continue
                key = what.split(" (")[0][:80]
                if key in reported:
                    reported[key]["count"] += 1
                    continue
                small = case[1]
                try:
                    small = shrink(ctx, case, cpp, mdl, names, what)
                except Exception:
                    pass
                reported[key] = {"count": 1}
                ctx.violation(what, "c02_%s.json" % hashlib.sha1(key.encode()).hexdigest()[:10],
                              {"property": "C02", "what": what, "kind": kind, "script": small, "original_script": case[1],
                               "detail": detail, "replay": "bin/check C02 --replay <this file>"})
    ctx.cov["evaluations"] = evaluations
    ctx.cov["distinct_nontrivial"] = nontrivial
    ctx.cov["rule"] = ("a case = one API script building a model; non-trivial = the model holds at least one variable or one unit child; "
                       "distinct by script text")
    ctx.cov["samples"] = samples
    ctx.cov["input_distribution"] = {"kinds": hist, "model_classes": stats,
                                     "violation_classes": {k: v["count"] for k, v in reported.items()}}
    ctx.assumptions += [
        "A-xml: libxml2's text<->tree step is not modelled; the printer model yields the tree the concatenated text denotes "
        "(attribute values read per XmlDefs.decode_attr); checked on every case against python's expat parse of the printed text",
        "numbers: show15 / to_double are libc's (%.15g, strtod); the OCaml glue uses Printf %.15g / float_of_string",
        "math is opaque: norm_math = expat parse of the wrapped string with text trimmed; math compared up to blanks",
        "Variable::equivalenceConnectionId is modelled as the id stored with the edge (exact when one connection id per component pair)",
    ]
    ctx.notes.append("domain of the oracle: validator-accepted (%d) or printableb (%d) of %d evaluated; out of scope of the entity model: %d"
                     % (stats["valid"], stats["printable"], evaluations, stats["out_of_scope"]))


def replay(ctx, path):
    data = json.load(open(path))
    build = vf.build_repo("plain")
    cpp = vf.compile_driver(build, os.path.join(vf.ROOT, "harness/c02_driver.cpp"), extra_flags=["-fno-access-control"])
    mdl = vf.ocaml_driver("roundtrip")
    names = rule_names()
    stats = new_stats()
    case = (data.get("kind", "replay"), data["script"], {})
    res = run_batch(ctx, [case], cpp, mdl, names, stats, "replay")
    _, cl, mll, problems = res[0]
    print("script :", data["script"])
    labels = ["status", "ENT0", "valid", "D0", "P1", "PI", "I1", "ENT1", "D1", "P2", "I2", "ENT2", "D2"]
    for k, f in enumerate(cl.split("\t")):
        lab = labels[k] if k < len(labels) else str(k)
        if lab in ("P1", "P2") and f.startswith("s"):
            f = unS(f).decode("utf-8", "replace")
        print("library %-6s: %s" % (lab, f[:4000]))
    for f in (mll or "").split("\t"):
        print("model   : %s" % f[:4000])
    for sev, what, detail in problems:
        print("%s: %s" % (sev.upper(), what))
        if sev == "violation":
            ctx.violation(what, "replay_" + os.path.basename(path), dict(data, detail=detail))
