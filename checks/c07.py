"""C07 — import resolution terminates, succeeds exactly when possible, reports failures.

proofs : Properties_C07.v over ImportDefs.v (fetchUnits / fetchComponent / fetchModel with history epochs and the
         library cache, hasUnresolvedImports, the pre-flatten scan)
tie    : extracted model vs Importer of the fresh build on generated file systems: all import graphs up to a
         size bound (gen/import_graphs.py) x every single fault x repair sequences, every step compared
search : the property itself on the implementation, against a ground truth computed in python from the graph
"""
import json
import os
import re
import shutil
import subprocess
import sys

import vf

sys.path.insert(0, os.path.join(vf.ROOT, "gen"))
import import_graphs as ig  # noqa: E402

ORIGIN = ig.ORIGIN
CRASH_RE = re.compile(r"(CRASH|THROW)\([^)]*\)")


# ----------------------------------------------------------------------------------------------- cases

class Table:
    """document versions: id -> (abstract text, bytes)"""

    def __init__(self):
        self.ids = {}
        self.rows = []

    def add(self, doc, group=False):
        key = (doc, group)
        if key not in self.ids:
            i = "d%d" % len(self.rows)
            self.ids[key] = i
            self.rows.append((i, ig.abstract_text(doc, group), ig.render(doc, group).hex()))
        return self.ids[key]

    def write(self, path):
        with open(path, "w") as f:
            for r in self.rows:
                f.write("\t".join(r) + "\n")


class Case:
    """script = list of step tokens; phases = per R step: (flat files at that time, fresh library?, label).
    With `dirs` (file name -> directory) the files are written spread over sub-directories, every import URL
    rewritten relative to its importer (ig.lay_out); the ground truth is always that of the flat graph."""

    def __init__(self, label, kind, dirs=None, styles=None):
        self.label = label
        self.kind = kind
        self.steps = []
        self.phases = []
        self.files = {}          # flat
        self.laid = {}           # real path -> doc, as written
        self.group = False
        self.fresh = True
        self.dirs = dirs
        self.styles = styles
        self.mem_origin = None   # the origin model object when it was re-targeted after parsing (flat)
        self.laid_mem = None     # the same, with the URLs as spelled

    def write_files(self, table, files):
        if self.dirs is None:
            laid, keys = dict(files), None
        else:
            laid = ig.lay_out(files, self.dirs, self.styles)
            keys = ig.spelled_keys(laid)
            if keys is None:
                raise ValueError("layout not fitted to this graph (see fit_layout): " + self.label)
            if not self.steps:
                self.steps += ["M:" + d for d in ig.DIRS if d]
        for f in sorted(set(self.laid) - set(laid)):
            self.steps.append("D:" + f)
        for f in sorted(laid):
            if self.laid.get(f) != laid[f]:
                self.steps.append("W:%s:%s" % (f, table.add(laid[f], self.group)))
        if keys is not None:
            self.steps.append("KC")
            for k in sorted(keys):
                real = keys[k]
                if real is not None and real != k and real in laid:
                    self.steps.append("K:%s:%s" % (k, table.add(laid[real], self.group)))
        self.files = dict(files)
        self.laid = laid

    def new_importer(self, strict):
        self.steps.append("N:%d" % (1 if strict else 0))
        self.fresh = True

    def parse(self):
        self.steps.append("P:" + ORIGIN)
        self.mem_origin = None
        self.laid_mem = None

    def new_importer_keep_old(self, strict):
        """a new Importer while the previous one and its library models stay alive; the model object is kept"""
        self.steps.append("N2:%d" % (1 if strict else 0))
        self.fresh = True

    def retarget(self, table, kind, name, url, ref):
        """setUrl / setImportReference on the import of the origin model OBJECT (the file on disk is not touched)"""
        cur = self.mem_origin or self.files[ORIGIN]
        self.mem_origin = ig.retarget(cur, kind, name, url, ref)
        spelled = url
        if self.dirs is not None:
            spelled = ig.relative_url("", self.dirs.get(url, ""), url, 0)
        self.steps.append("T:%s:%s:%s:%s" % (kind, name, spelled, ref))
        # the spellings reachable now (the origin as it is in memory: its other URLs keep the spelling they were written with)
        if self.dirs is not None:
            laid = dict(self.laid)
            self.laid_mem = ig.retarget(self.laid_mem or self.laid[ORIGIN], kind, name, spelled, ref)
            laid[ORIGIN] = self.laid_mem
            keys = ig.spelled_keys(laid)
            if keys is None:
                raise ValueError("layout not fitted: " + self.label)
            self.steps.append("KC")
            for k in sorted(keys):
                real = keys[k]
                if real is not None and real != k and real in laid and real != ORIGIN:
                    self.steps.append("K:%s:%s" % (k, table.add(laid[real], self.group)))

    def resolve(self, label, tail="U F"):
        self.steps.append("R")
        cur = dict(self.files)
        if self.mem_origin is not None:
            cur[ORIGIN] = self.mem_origin
        self.phases.append((cur, self.fresh, label))
        self.steps += tail.split()
        self.fresh = False

    def clear(self):
        self.steps.append("C")
        self.fresh = True

    def line(self):
        return " ".join(self.steps)

    def to_json(self):
        return {"label": self.label, "kind": self.kind, "script": self.line(),
                "directories": self.dirs,
                "files_as_written": {f: ig.abstract_text(d, self.group) for f, d in sorted(self.laid.items())},
                "phases": [{"label": lb, "fresh": fr,
                            "files": {f: ig.abstract_text(d, self.group) for f, d in sorted(fs.items())}} for fs, fr, lb in self.phases]}


def laid_out(rng, files):
    """(dirs, styles) of a random layout of the graph over ig.DIRS"""
    return ig.random_layout(files, rng), ig.random_styles(files, rng)


def fit_layout(layout, graphs):
    """the layout if every graph of the case (faulted, repaired) can be written with it -- the un-normalised keys stay
    finite --, else the same directories with the shortest spellings, else None (the case is run in one directory):
    a fault may close a cycle of files across directories, whose '../' spellings would grow for ever"""
    if layout is None:
        return None
    dirs, styles = layout
    for st in (styles, None):
        if all(ig.spelled_keys(ig.lay_out(g, dirs, st)) is not None for g in graphs):
            return (dirs, st)
    return None


def base_case(table, files, strict, label, group=False, layout=None):
    c = Case(label, "base", *(fit_layout(layout, [files]) or (None, None)))
    c.group = group
    c.write_files(table, files)
    c.new_importer(strict)
    c.parse()
    c.resolve("first")
    c.resolve("again", tail="U")
    return c


def fault_case(table, good, bad, strict, label, layout=None):
    """fault -> resolve fails -> file repaired -> resolve again on the same importer / after removeAllModels /
    on a fresh importer"""
    c = Case(label, "fault", *(fit_layout(layout, [good, bad]) or (None, None)))
    c.write_files(table, bad)
    c.new_importer(strict)
    c.parse()
    c.resolve("faulted")
    c.write_files(table, good)
    c.resolve("repaired-same-importer", tail="U")
    c.clear()
    c.resolve("repaired-after-removeAllModels")
    c.new_importer(strict)
    c.parse()
    c.resolve("repaired-fresh-importer")
    return c


def alive_case(table, good, bad, strict, label, layout=None):
    """fault that still lets the file load -> resolve fails -> file repaired on disk -> a NEW importer while the first
    one (and the library models the model's import sources are linked to) is still alive, SAME model object"""
    c = Case(label, "alive", *(fit_layout(layout, [good, bad]) or (None, None)))
    c.write_files(table, bad)
    c.new_importer(strict)
    c.parse()
    c.resolve("faulted")
    c.write_files(table, good)
    c.new_importer_keep_old(strict)
    c.resolve("repaired-new-importer-old-alive-same-model-object")
    c.clear()
    c.resolve("then-removeAllModels", tail="U")
    return c


WRONG = "fw.cellml"


def retarget_case(table, good, imp, strict, label, layout=None):
    """the origin imports `imp` from a file that loads but does not hold the entity -> resolve fails -> the import is
    re-targeted on the model object (setUrl) -> resolve again with the same importer and the same model object; then
    pointed at the wrong file again, resolve, new importer (old alive), re-target, resolve"""
    kind, name, url, ref = imp
    wrong = ig.M("m_fw", [], [])
    files0 = dict(good)
    files0[WRONG] = wrong
    files0[ORIGIN] = ig.retarget(good[ORIGIN], kind, name, WRONG, ref)
    lay = None
    if layout is not None:
        dirs = dict(layout[0])
        dirs.setdefault(WRONG, "")
        lay = fit_layout((dirs, layout[1]), [files0, dict(good, **{WRONG: wrong})])
    c = Case(label, "retarget", *(lay or (None, None)))
    c.write_files(table, files0)
    c.new_importer(strict)
    c.parse()
    c.resolve("wrong-file")
    c.retarget(table, kind, name, url, ref)
    c.resolve("retargeted-same-importer-same-object")
    c.retarget(table, kind, name, WRONG, ref)
    c.resolve("wrong-file-again", tail="U")
    c.new_importer_keep_old(strict)
    c.retarget(table, kind, name, url, ref)
    c.resolve("retargeted-new-importer-old-alive")
    return c


# ----------------------------------------------------------------------------------------------- output parsing

def parse_line(line):
    """-> list of records: ('R', value, issues, lib) | ('U', value) | ('F', value, issues) | ('P', value)"""
    recs = []
    toks = line.split(" ") if line else []
    i = 0
    while i < len(toks):
        t = toks[i]
        if t.startswith("R="):
            iss = toks[i + 1][2:] if i + 1 < len(toks) and toks[i + 1].startswith("I=") else None
            lib = toks[i + 2][2:] if i + 2 < len(toks) and toks[i + 2].startswith("L=") else None
            recs.append(("R", t[2:], iss, lib))
            i += 3 if iss is not None else 1
        elif t.startswith("F="):
            iss = toks[i + 1][2:] if i + 1 < len(toks) and toks[i + 1].startswith("I=") else None
            recs.append(("F", t[2:], iss))
            i += 2 if iss is not None else 1
        elif t.startswith("U="):
            recs.append(("U", t[2:]))
            i += 1
        else:
            recs.append(("?", t))
            i += 1
    return recs


def issue_list(text):
    if text is None or text == "[]":
        return []
    return text[1:-1].split(",")


def canon(line):
    """crash by signal, uncaught exception and time-out all mean "did not return"; which one a runaway recursion
    ends in depends on the machine's load"""
    return CRASH_RE.sub("NORETURN", line).replace("TIMEOUT", "NORETURN")


# ----------------------------------------------------------------------------------------------- known findings
# id -> (kinds of property failure the defect can cause, matcher over the ground truth of the graph)
FINDINGS = {
    "C07-cyclic-local-units": (
        # since 85ba0d4 (hasUnitsCycle guard) units with a cyclic definition count as unresolved: hasUnresolvedImports()
        # returns (true) instead of exhausting the stack; the unguarded scan of flattenModel can still not return
        {"R_true_not_resolvable", "R_issue_not_attached", "F_no_return", "U_true_after_R_true"},
        lambda t: t.local_units_cycle),
    "C07-unexamined-dependencies": (
        {"R_true_not_resolvable", "R_issue_not_attached", "U_true_after_R_true"}, lambda t: t.hidden_import),
    "C07-units-history-not-popped": (
        {"U_true_after_R_true"}, lambda t: t.sibling_imports),
    "C07-null-deref-dangling-units-ref": (
        {"U_no_return", "F_no_return"}, lambda t: t.dangling_ref_used),
    "C07-resolved-test-unbounded-on-import-cycle": (
        {"U_no_return", "F_no_return"}, lambda t: t.file_revisit),
    "C07-flatten-units-name-capture": (
        {"F_proper_no_return"}, lambda t: t.name_capture),
    "C07-flatten-import-cycle-through-child": (
        {"F_proper_no_return", "F_model_after_R_false"}, lambda t: t.entity_cycle),
    "C07-children-of-imported-component-not-tested": (
        {"F_model_after_R_false", "F_proper_no_return"}, lambda t: t.import_with_children),
    "C07-parser-errors-seen-once": (
        {"R_true_not_resolvable", "R_issue_not_attached", "F_model_after_R_false"}, lambda t: t.parse_errors),
}


class Stale:
    """ground truth of the current files plus those of the earlier phases whose library entries are still cached"""

    def __init__(self, t, earlier):
        self.t = t
        self.all = earlier

    def __getattr__(self, name):
        return getattr(self.t, name)


def matching_findings(t, kind=None):
    ts = t.all if isinstance(t, Stale) else [t]
    return [k for k, (kinds, m) in FINDINGS.items() if (kind is None or kind in kinds) and any(m(x) for x in ts)]


# ----------------------------------------------------------------------------------------------- oracle

def oracle(case, recs, mrecs):
    """the property evaluated on the implementation's line.  Returns list of (kind, text, truth).
    mrecs = the model's records (only used to tell a failure inside flattenModel's pre-checks, which the model
    covers, from one in the flattening proper, which it does not)."""
    problems = []
    ri = -1
    cur = None
    last_r = None
    stale = []
    for idx, r in enumerate(recs):
        mr = mrecs[idx] if idx < len(mrecs) else None
        if r[0] == "R":
            ri += 1
            files, fresh, label = case.phases[ri]
            tt = ig.truth(files)
            # on a stale library the state still reflects the earlier file systems of this case
            stale = [] if fresh else stale + [tt]
            if fresh:
                stale = [tt]
            cur = (Stale(tt, stale) if not fresh else tt, fresh, label)
            t = cur[0]
            last_r = r
            v, issues = r[1], issue_list(r[2])
            if v not in ("0", "1"):
                problems.append(("R_no_return", "%s: resolveImports did not return (%s)" % (label, v), t))
                continue
            if v == "0" and not issues:
                problems.append(("R_false_no_issue", "%s: resolveImports returned false without any issue" % label, t))
            if not fresh:
                continue
            if t.resolvable and not t.file_revisit and v != "1":
                problems.append(("R_false_resolvable", "%s: every import can be satisfied but resolveImports returned false %s" % (label, r[2]), t))
            if not t.resolvable and v != "0":
                problems.append(("R_true_not_resolvable", "%s: resolveImports returned true although %s" % (label, t.reason), t))
            if v == "0" and not t.resolvable:
                bad_roots = {"%s:%s/%s" % (k, files[ORIGIN][1], n) for k, n, ok in t.roots if not ok}
                items = {i.split("@", 1)[1] for i in issues if "@" in i}
                if not (bad_roots & items):
                    problems.append(("R_issue_not_attached", "%s: no issue is attached to a failing import %s (issues %s)" % (label, sorted(bad_roots), r[2]), t))
        elif r[0] == "U" and cur is not None:
            t, fresh, label = cur
            if r[1] not in ("0", "1"):
                problems.append(("U_no_return", "%s: hasUnresolvedImports did not return (%s)" % (label, r[1]), t))
            elif last_r is not None and last_r[1] == "1" and r[1] != "0":
                problems.append(("U_true_after_R_true", "%s: resolveImports returned true but hasUnresolvedImports() is true" % label, t))
        elif r[0] == "F" and cur is not None:
            t, fresh, label = cur
            v, issues = r[1], issue_list(r[2])
            if v not in ("null", "model"):
                proper = mr is not None and mr[0] == "F" and mr[1] == "model"
                problems.append(("F_proper_no_return" if proper else "F_no_return",
                                 "%s: flattenModel did not return (%s)%s" % (label, v, " after its pre-checks passed" if proper else ""), t))
            elif v == "null" and not issues:
                problems.append(("F_null_no_issue", "%s: flattenModel returned null without an issue" % label, t))
            elif last_r is not None and last_r[1] == "0" and v != "null" and not (t.file_revisit and not t.entity_cycle and t.resolvable):
                problems.append(("F_model_after_R_false", "%s: resolveImports returned false but flattenModel returned a model" % label, t))
        elif r[0] == "?":
            if r[1].startswith(("CRASH", "THROW", "TIMEOUT")):
                problems.append(("R_no_return", "the driver died outside the guarded calls (parse / resolveImports): %s" % r[1], None))
            else:
                problems.append(("output", "unexpected output token %s" % r[1], cur[0] if cur else None))
    return problems


# ----------------------------------------------------------------------------------------------- run

def run_drivers(ctx, drv, mdl, table, cases, tag, fixes=""):
    """runs the C++ driver (unless drv is None) and the extracted model (variant `fixes`) on the cases, sharded"""
    work = os.path.join(ctx.workdir, tag)
    shutil.rmtree(work, ignore_errors=True)
    os.makedirs(work)
    tpath = os.path.join(work, "table.tsv")
    table.write(tpath)
    nsh = min(vf.NCPU, max(1, len(cases) // 50))
    procs = []
    env = dict(os.environ)
    env["C07_FIXES"] = fixes
    for k in range(nsh):
        part = cases[k::nsh]
        cp = os.path.join(work, "cases.%d" % k)
        with open(cp, "w") as f:
            for c in part:
                f.write(c.line() + "\n")
        sd = os.path.join(work, "fs.%d" % k)
        os.makedirs(sd)
        # outputs go to files: the shards must not stall on a full pipe while another one is being read
        co = open(os.path.join(work, "impl.%d" % k), "wb")
        mo = open(os.path.join(work, "model.%d" % k), "wb")
        me = open(os.path.join(work, "model.%d.err" % k), "wb")
        pc = subprocess.Popen([drv, "run", tpath, cp, sd] if drv else ["true"], stdout=co, stderr=subprocess.DEVNULL)
        pm = subprocess.Popen([mdl, tpath, cp], stdout=mo, stderr=me, env=env)
        procs.append((k, part, pc, pm, co, mo, me))
    out = []
    for k, part, pc, pm, co, mo, me in procs:
        pc.wait()
        pm.wait()
        for fh in (co, mo, me):
            fh.close()
        if pm.returncode != 0:
            raise vf.BuildError("model driver failed: " + open(os.path.join(work, "model.%d.err" % k)).read()[-2000:])
        cl = open(os.path.join(work, "impl.%d" % k), encoding="utf-8", errors="replace").read().split("\n")
        ml = open(os.path.join(work, "model.%d" % k), encoding="utf-8", errors="replace").read().split("\n")
        for i, c in enumerate(part):
            out.append((c, cl[i] if i < len(cl) else "<missing>", ml[i] if i < len(ml) else "<missing>"))
    shutil.rmtree(work, ignore_errors=True)
    return out


def build_cases(ctx, table):
    quick = ctx.quick()
    cases = []
    hist = {"base": 0, "fault": 0, "backedge": 0, "random": 0, "twin": 0, "grouped": 0, "child_order": 0,
            "spread_over_directories": 0}
    import random as _random
    lrng = _random.Random(ctx.seed * 7919 + 17)        # layouts: directories and URL spellings

    def lay(g):
        hist["spread_over_directories"] += 1
        return laid_out(lrng, g)
    nfiles, budget = (3, 4) if quick else (4, 5)
    graphs = ig.enumerate_graphs(nfiles, budget)
    resolvable = []
    nskip = 0
    for n, g in enumerate(graphs):
        t = ig.truth(g)
        # before 85ba0d4 a cycle among local units cost two stack exhaustions per case and 5 in 6 of these graphs were
        # skipped in the thorough tier; hasUnresolvedImports returns now: all are run (C07_SAMPLE_LOCAL_CYCLES=6 restores)
        if t.local_units_cycle and n % int(os.environ.get("C07_SAMPLE_LOCAL_CYCLES", "1")) != 0 and not quick:
            nskip += 1
            continue
        cases.append(base_case(table, g, n % 2 == 0, "enum%d" % n))
        hist["base"] += 1
        if t.resolvable and not t.file_revisit:
            resolvable.append((n, g))
            for k in range(2):
                cases.append(base_case(table, g, (n + k) % 2 == 0, "enum%d/dirs%d" % (n, k), layout=lay(g)))
        elif n % 5 == 1 and not t.local_units_cycle:
            cases.append(base_case(table, g, n % 2 == 0, "enum%d/dirs" % n, layout=lay(g)))
    # single faults x repair on the resolvable graphs
    nf = 0
    for n, g in resolvable:
        for label, bad in ig.single_faults(g):
            both = label.startswith("trunc") or label.startswith("notcellml")
            for strict in ((True, False) if both else (n % 2 == 0,)):
                nf += 1
                cases.append(fault_case(table, g, bad, strict, "enum%d/%s/%s" % (n, label, "strict" if strict else "lax"),
                                        layout=lay(g) if nf % 2 == 0 else None))
                hist["fault"] += 1
        for label, bad in ig.back_edges(g):
            nf += 1
            cases.append(fault_case(table, g, bad, n % 2 == 0, "enum%d/%s" % (n, label),
                                    layout=lay(g) if nf % 2 == 0 else None))
            hist["backedge"] += 1
    # import placeholders with imported children of their own: every fault, the repair by re-targeting, and a new
    # importer while the old one is alive; the same two sequences on the enumerated resolvable graphs
    def loads(label):
        return label.startswith(("rm-", "notcellml", "err-"))
    hist.update({"placeholder": 0, "retarget": 0, "new_importer_old_alive": 0})
    for label, g in ig.placeholder_graphs():
        for k, lay_ in enumerate((None, lay(g))):
            tag = label + ("/dirs" if lay_ else "")
            cases.append(base_case(table, g, k == 0, tag, layout=lay_))
            hist["placeholder"] += 1
            for flabel, bad in ig.single_faults(g):
                cases.append(fault_case(table, g, bad, True, "%s/%s" % (tag, flabel), layout=lay_))
                hist["fault"] += 1
                if loads(flabel):
                    cases.append(alive_case(table, g, bad, k == 1, "%s/%s/alive" % (tag, flabel), layout=lay_))
                    hist["new_importer_old_alive"] += 1
            for imp in ig.origin_imports(g[ORIGIN]):
                cases.append(retarget_case(table, g, imp, k == 0, "%s/retarget-%s" % (tag, imp[1]), layout=lay_))
                hist["retarget"] += 1
    for n, g in resolvable:
        imps = ig.origin_imports(g[ORIGIN])
        if imps:
            imp = imps[n % len(imps)]
            cases.append(retarget_case(table, g, imp, n % 2 == 0, "enum%d/retarget-%s" % (n, imp[1]),
                                       layout=lay(g) if n % 2 else None))
            hist["retarget"] += 1
        for j, (flabel, bad) in enumerate(ig.single_faults(g)):
            if loads(flabel) and (n + j) % 2 == 0:
                cases.append(alive_case(table, g, bad, n % 2 == 0, "enum%d/%s/alive" % (n, flabel),
                                        layout=lay(g) if j % 2 else None))
                hist["new_importer_old_alive"] += 1
    # several children in every order, the cycle-closing edge in every position (flat, and spread over directories)
    for label, g in ig.child_order_graphs():
        cases.append(base_case(table, g, True, label))
        cases.append(base_case(table, g, False, label + "/dirs", layout=lay(g)))
        hist["child_order"] += 2
    # grouped <import> elements (shared ImportSource objects)
    for n, g in resolvable[: (200 if quick else 2000)]:
        cases.append(base_case(table, g, True, "enum%d/grouped" % n, group=True))
        hist["grouped"] += 1
    # (near) copies of the origin model: the Model::equals disjunct of the cycle test
    for label, g in ig.twin_graphs():
        for strict in (True, False):
            cases.append(base_case(table, g, strict, label))
            hist["twin"] += 1
    # larger random graphs
    rng = ctx.rng
    for n in range(1500 if quick else 30000):
        nf = rng.choice([2, 3, 4, 5, 6])
        g = ig.random_graph(rng, nfiles=nf, allow_back=rng.choice([0.0, 0.0, 0.1, 0.3]),
                            p_missing_ref=rng.choice([0.0, 0.0, 0.05]), p_err=rng.choice([0.0, 0.0, 0.1]),
                            twin=rng.choice([0.0, 0.0, 0.2]))
        if not ig.is_model(g.get(ORIGIN)):
            continue
        cases.append(base_case(table, g, rng.random() < 0.5, "rand%d" % n, group=rng.random() < 0.3,
                               layout=lay(g) if n % 5 in (1, 3) else None))
        hist["random"] += 1
        if n % 5 == 0:
            faults = list(ig.single_faults(g))
            if faults:
                label, bad = rng.choice(faults)
                cases.append(fault_case(table, g, bad, rng.random() < 0.5, "rand%d/%s" % (n, label),
                                        layout=lay(g) if n % 10 == 0 else None))
                hist["fault"] += 1
    hist["enumerated_with_local_units_cycle_not_run"] = nskip
    return cases, hist, (nfiles, budget, len(graphs), len(resolvable))


def run_paths(ctx, drv, mdl):
    """importer.cpp normalisePath / pathFromUrl / resolvePath against their transcription (the model proper uses a
    flat directory; this ties the string functions that the flat reading abstracts)"""
    rng = ctx.rng
    alpha = ["a", "b", "/", "\\", ".", ":", "d/", "../"]
    pairs = [("", ""), ("f.cellml", "/tmp/x/"), ("f.cellml", "/tmp/x"), ("sub/f.cellml", "/tmp/x/"), ("..\\f.cellml", "C:\\m\\")]
    for n in range(0, 4):
        import itertools
        for t in itertools.product(alpha[:6], repeat=n):
            pairs.append(("".join(t), "".join(reversed(t))))
    for _ in range(2000 if ctx.quick() else 40000):
        pairs.append(("".join(rng.choice(alpha) for _ in range(rng.randint(0, 7))),
                      "".join(rng.choice(alpha) for _ in range(rng.randint(0, 7)))))
    cf = os.path.join(ctx.workdir, "paths-%d.cases" % os.getpid())
    with open(cf, "w") as f:
        for u, b in pairs:
            f.write("%s %s\n" % (u.encode().hex(), b.encode().hex()))
    cl = vf.sh([drv, "paths", cf], timeout=600)[1].split("\n")
    ml = vf.sh([mdl, "paths", cf], timeout=600)[1].split("\n")
    nbad = 0
    for i, (u, b) in enumerate(pairs):
        c = cl[i] if i < len(cl) else "<missing>"
        m = ml[i] if i < len(ml) else "<missing>"
        if c != m and nbad < 2:
            nbad += 1
            ctx.violation("C07 paths: url=%r base=%r: implementation and model disagree" % (u, b), "paths_%d.json" % nbad,
                          {"mode": "paths", "url": u, "base": b, "impl": c, "model": m})
    os.remove(cf)
    return len(pairs)


def run(ctx):
    # C07_DROP=<id,...>: judge as if these findings were not listed (to see whether a finding is still reachable)
    for k in os.environ.get("C07_DROP", "").split(","):
        ctx.known.pop(k, None)
    ctx.proofs()
    ctx.assumptions += [
        "A-fs: the importer's view of the file system is a finite map from library key AS SPELLED (base directory of the "
        "importing file + URL as written; the code normalises nothing but the directory separator) to bytes; which spellings "
        "reach which file is decided by the OS and computed by the generator (ig.spelled_keys); graphs are run in one "
        "directory and spread over sub-directories of depth 0-2 with relative URLs ('sub/f', '../f', './f', 'x/../f'); the "
        "origin file stays in the base directory; absolute URLs and fetchModel's first look-up under the raw URL are outside "
        "the model",
        "only CellML 2.0 files: the non-strict importer's MESSAGE issue for transformed 1.x files is not modelled",
        "libxml2 decides what is well-formed XML; the model takes the class (not XML / XML but not CellML / model with "
        "errors attached to entities) from the generator, and the correspondence run checks that classification",
        "all import elements of one model with the same URL behave like one ImportSource (grouped and ungrouped "
        "renderings are both run)",
        "flattenModel beyond its pre-checks (clone and instantiate) is C06's; here only null / non-null and the issues",
    ]
    build = vf.build_repo("plain")
    drv = vf.compile_driver(build, os.path.join(vf.ROOT, "harness/c07_driver.cpp"))
    mdl = vf.ocaml_driver("import")
    table = Table()
    cases, hist, enum_info = build_cases(ctx, table)
    ctx.log("cases: %d %s; enumerated graphs <= %d files, <= %d entities: %d (%d resolvable)" %
            ((len(cases), hist) + enum_info))
    results = run_drivers(ctx, drv, mdl, table, cases, "run-%d" % os.getpid(), FIXES_APPLIED)

    def rerun(sub, variant):
        return [ml for _, _, ml in run_drivers(ctx, None, mdl, table, sub, "rerun-%d" % os.getpid(), variant)]
    evaluate(ctx, results, hist, enum_info, table, rerun)
    npaths = run_paths(ctx, drv, mdl)
    ctx.cov["evaluations"] += npaths
    ctx.cov["input_distribution"]["path_string_cases"] = npaths


# the model as the code is now; set to "pop", "nullref" or "pop,nullref" when fixes/C07-*.diff are committed to /repo
FIXES_APPLIED = os.environ.get("C07_FIXES", "pop,nullref,kids,cycle")
REPAIR_VARIANTS = ["", "pop", "nullref", "pop,nullref", "pop,nullref,kids", "pop,nullref,kids,cycle"]


def judge(ctx, case, cl, ml):
    """-> (mismatch, unexplained problem texts, [(finding id, text)], waived)   (no side effects)"""
    recs, mrecs = parse_line(cl), parse_line(ml)
    problems = oracle(case, recs, mrecs)
    unexplained, hits = [], []
    for kind, text, t in problems:
        ks = [k for k in (matching_findings(t, kind) if t is not None else []) if k in ctx.known]
        for k in ks:
            hits.append((k, "%s [%s]" % (text, case.label)))
        if not ks:
            unexplained.append(text)
    # correspondence: exact, except that the flattening proper (after the pre-checks) is not modelled
    mismatch = False
    if canon(cl) != canon(ml):
        if len(recs) != len(mrecs):
            mismatch = True
        for r, mr in zip(recs, mrecs):
            if canon(" ".join(map(str, r))) == canon(" ".join(map(str, mr))):
                continue
            if r[0] == "F" and mr[0] == "F" and mr[1] == "model" and r[1] not in ("null", "model"):
                continue          # crash / hang inside the flattening proper: judged by the oracle
            mismatch = True
    waived = False
    if mismatch and not unexplained:
        # inside a known-finding class the implementation may behave as the (faithful, defective) model or as the
        # property demands: a repair of the defect in /repo must not raise an alarm
        ks = set()
        for fs_, fr_, lb_ in case.phases:
            ks |= set(matching_findings(ig.truth(fs_)))
        if any(k in ctx.known for k in ks):
            mismatch = False
            waived = True
    return mismatch, unexplained, hits, waived


def evaluate(ctx, results, hist, enum_info, table, rerun):
    """rerun(cases, fixes) -> model lines of the repaired model variant `fixes` for those cases"""
    nbad = 0
    waived = 0
    nontrivial = set()
    dist = {"resolve_true": 0, "resolve_false": 0, "flatten_model": 0, "flatten_null": 0, "crash_tokens": 0,
            "depth": {}, "files_in_closure": {}, "steps": 0}
    rules = {}
    known_counts = {}
    verdicts = []
    for case, cl, ml in results:
        recs = parse_line(cl)
        dist["steps"] += len(recs)
        for r in recs:
            if r[0] == "R":
                dist["resolve_true" if r[1] == "1" else "resolve_false"] += 1
                for i in issue_list(r[2]):
                    k = i.split("@")[0]
                    rules[k] = rules.get(k, 0) + 1
            if r[0] == "F":
                dist["flatten_model" if r[1] == "model" else "flatten_null"] += 1
            if "CRASH" in r[1] or "TIMEOUT" in r[1]:
                dist["crash_tokens"] += 1
        t0 = ig.truth(case.phases[0][0])
        dist["depth"][t0.depth] = dist["depth"].get(t0.depth, 0) + 1
        nfc = len(t0.files_in_closure)
        dist["files_in_closure"][nfc] = dist["files_in_closure"].get(nfc, 0) + 1
        if t0.depth >= 1:
            nontrivial.add(case.line())
        verdicts.append([case, cl, ml, judge(ctx, case, cl, ml), ""])
    # cases that are not in order against the model of the code as it is: does the implementation behave like the model
    # of one of the prepared repairs (fixes/C07-*.diff applied to /repo but FIXES_APPLIED not switched yet)?
    doubtful = [v for v in verdicts if v[3][0] or v[3][1]]
    agrees_with_repair = {}
    if doubtful and len(doubtful) <= 5000:
        for variant in REPAIR_VARIANTS:
            if variant == FIXES_APPLIED or not doubtful:
                continue
            lines = rerun([v[0] for v in doubtful], variant)
            still = []
            for v, ml2 in zip(doubtful, lines):
                j = judge(ctx, v[0], v[1], ml2)
                if not j[0] and not j[1]:
                    v[2], v[3], v[4] = ml2, j, variant
                    agrees_with_repair[variant] = agrees_with_repair.get(variant, 0) + 1
                else:
                    still.append(v)
            doubtful = still
    for case, cl, ml, (mismatch, unexplained, hits, w), variant in verdicts:
        for k, text in hits:
            if ctx.known_finding(k, text):
                known_counts[k] = known_counts.get(k, 0) + 1
        waived += 1 if w else 0
        if (mismatch or unexplained) and os.environ.get("C07_DEBUG"):
            with open(os.path.join(ctx.workdir, "bad.jsonl"), "a") as dbg:
                d = case.to_json()
                d.update({"impl": cl, "model": ml, "problems": unexplained, "mismatch": mismatch})
                dbg.write(json.dumps(d) + "\n")
        if (mismatch or unexplained) and nbad < 5:
            nbad += 1
            what = []
            if unexplained:
                what.append("property fails on the implementation: " + "; ".join(unexplained[:3]))
            if mismatch:
                what.append("implementation and model disagree")
            content = case.to_json()
            ids = set(re.findall(r"W:[^: ]+:(d\d+)", case.line()))
            content.update({"impl": cl, "model": ml, "problems": unexplained,
                            "table": {r[0]: [r[1], r[2]] for r in table.rows if r[0] in ids}})
            ctx.violation("C07 %s: %s" % (case.label, " / ".join(what)), "case_%d.json" % nbad, content)
        elif mismatch or unexplained:
            nbad += 1
    if agrees_with_repair:
        ctx.notes.append("the implementation behaves like the model of the prepared repair(s) %s on %s cases where it differs "
                         "from the model of the code as recorded (FIXES_APPLIED=%r): switch FIXES_APPLIED in checks/c07.py"
                         % (sorted(agrees_with_repair), agrees_with_repair, FIXES_APPLIED))
    ctx.cov["evaluations"] = len(results)
    ctx.cov["distinct_nontrivial"] = len(nontrivial)
    # quick: the enumerated space is run completely; thorough: except for graphs with a cycle among local units (1 in 6)
    ctx.cov["exhaustive"] = hist.get("enumerated_with_local_units_cycle_not_run", 0) == 0
    if not ctx.cov["exhaustive"]:
        ctx.cov["exhaustive_part"] = "every enumerated graph without a cycle among local units, and every sixth of the others"
    ctx.cov["rule"] = ("every import graph reachable from the origin file with <= %d files and <= %d defined entities "
                       "(<= 2 names per kind and file, <= 2 unit references; %d graphs after removing renamings, enumerated "
                       "completely; %d of them resolvable; in the thorough tier, of those with a cycle among local units -- "
                       "finding C07-cyclic-local-units, two stack exhaustions per case -- every sixth is run) is run as: write files, new Importer, parse origin, resolveImports, "
                       "hasUnresolvedImports, flattenModel, resolveImports again; every resolvable one additionally under every "
                       "single fault (file missing, truncated at 4 prefix classes, non-CellML XML, entity removed, parser error on "
                       "an entity, each back edge) followed by repair and re-resolution on the same importer, after "
                       "removeAllModels and on a fresh importer; plus seeded random graphs of up to 6 files.  non-trivial = at "
                       "least one import is followed into another file; distinct by script text" % enum_info)
    ctx.cov["samples"] = [results[i][0].to_json() for i in (0, len(results) // 3, len(results) // 2, len(results) - 1)] if results else []
    ctx.cov["input_distribution"] = {"case_kinds": hist, "outcomes": dist, "issue_rules": rules,
                                     "known_finding_hits": known_counts, "disagreements_or_unexplained": nbad,
                                     "disagreements_waived_inside_known_finding_classes_where_the_property_holds": waived}
    ctx.cov["traces_validated_against_impl"] = len(results)
    ctx.log("outcomes %s rules %s known %s bad %d" % ({k: v for k, v in dist.items() if not isinstance(v, dict)}, rules, known_counts, nbad))


def replay(ctx, path):
    r = json.load(open(path))
    build = vf.build_repo("plain")
    drv = vf.compile_driver(build, os.path.join(vf.ROOT, "harness/c07_driver.cpp"))
    mdl = vf.ocaml_driver("import")
    if r.get("mode") == "paths":
        cf = os.path.join(ctx.workdir, "replay.paths")
        open(cf, "w").write("%s %s\n" % (r["url"].encode().hex(), r["base"].encode().hex()))
        print("impl :", vf.sh([drv, "paths", cf])[1].strip())
        print("model:", vf.sh([mdl, "paths", cf])[1].strip())
        return
    work = os.path.join(ctx.workdir, "replay")
    shutil.rmtree(work, ignore_errors=True)
    os.makedirs(os.path.join(work, "fs"))
    with open(os.path.join(work, "table.tsv"), "w") as f:
        for i, (a, h) in sorted(r["table"].items()):
            f.write("%s\t%s\t%s\n" % (i, a, h))
    with open(os.path.join(work, "cases"), "w") as f:
        f.write(r["script"] + "\n")
    print("script:", r["script"])
    print("impl :", vf.sh([drv, "run", os.path.join(work, "table.tsv"), os.path.join(work, "cases"), os.path.join(work, "fs")])[1].strip())
    print("model:", vf.sh([mdl, os.path.join(work, "table.tsv"), os.path.join(work, "cases")])[1].strip())
