"""C14 -- CellML 1.0 / 1.1 documents are faithfully transformed in permissive mode.

proofs : Properties_C14.v over XmlDefs / EntTreeDefs / PrintDefs / LoadDefs / RoundtripSpec (C02) + Load1xDefs (the
         mParsing1XVersion paths of src/parser.cpp and the MathML namespace rewriting) + To1xDefs (to1x, conv_ok,
         expressible_1x); see design_notes/C14.md.
tie    : (1) models built through harness/common/script.hpp (gen/script_gen.py valid models without resets,
             gen/c02_models.py models with hostile text / imports / placeholder variables).  The C++ driver describes the
             2.0 original (ENT0), validates, dumps and prints it with the real Printer.  gen/c14_docs.py rewrites the printed
             TEXT into CellML 1.0 and 1.1 documents (to1x: versions x interface spellings / attribute orders / explicit
             "none" / cmeta:id / liter-meter / component-level units / namespace declaration sites), optionally decorated
             with content-neutral legacy constructs (RDF, reactions, containment groups, foreign attributes, ...).
             The real Parser parses every document permissively and strictly; the Validator runs on the result.
         (2) the extracted model rewrites the same ENT0 with the Coq to1x (tree compared with python's parse of the
             document text) and predicts, for EVERY document (also the decorated ones, the hand-shaped ones of
             gen/c14_docs.hand_documents, corpus/C14/* and /repo/tests/resources/cellml1X/*), the permissive parser's
             issue list (level, rule) in order, the transformed model, and the strict parser's answer.
search : on the library's own output, for documents rewritten from a model in the property's domain (printable in the sense
         of C02 -- every validator-accepted generated model is, up to C02's own findings -- and expressible_1x):
         permissive issues all of level MESSAGE, dump.hpp content equal to the 2.0
         original (interface "none" = no interface, numbers at 15 digits, math up to blanks and attribute order, child
         order ignored), Validator silent on the transformed model when it was silent on the original; strict parser:
         exactly one ERROR and an empty model.  Hand-shaped 'legal' documents: nothing stronger than a message.
"""
import hashlib
import json
import os
import random
import re

import vf
import script_gen
import c02_models
import c14_docs
from c14_docs import N

import c02 as C2          # helpers only: S-expressions, ENT canonicalisation, dump.hpp content, sharded driver runs

S, unS = C2.S, C2.unS

FIXES = {"i": "C14-interface-none", "d": "C14-foreign-children"}


# ------------------------------------------------------------------------------------------------ helpers

def issues_cpp(field, names):
    """'n=2 E:8 M:0' -> ['E:MODEL_NAME', ...] in order"""
    if field in ("-", "", "DIED"):
        return None
    out = []
    for t in field.split()[1:]:
        lv, ri = t.split(":")
        ri = int(ri)
        out.append(lv + ":" + (names[ri] if 0 <= ri < len(names) else "?%d" % ri))
    return out


def issues_ml(field):
    if field in ("-", "", None):
        return None
    return field.split()[1:]


def norm_none_ent(text):
    """ENT text with interface "none" replaced by no interface (what expressible_1x / the oracle identify)"""
    return text.replace(" " + S("none") + ")", " s)")


def ent_key(ent_text, math_norm, tags=True):
    return C2.canon_ent(C2.parse_ent(ent_text), math_norm, tags=tags)


def content_of_dump(d, round_numbers):
    d = d.replace('(iface "none")', '(iface "")')
    return C2.dump_content(C2.dump_tree(d), round_numbers)


def count_1x(doc, pred):
    return sum(1 for x in doc.walk() if x.ns in (c14_docs.CELLML10, c14_docs.CELLML11) and pred(x))


def doc_classes(doc):
    """finding / fix classes a 1.x document (N) is in, decided on the DOCUMENT alone"""
    cls = set()
    V = (c14_docs.CELLML10, c14_docs.CELLML11)
    if doc is None or doc.ns not in V or doc.name != "model":
        return cls
    # several encapsulation groups
    def is_enc(g):
        return any(k.ns in V and k.name == "relationship_ref" and k.get("relationship") == "encapsulation" for k in g.elems())
    encs = [g for g in doc.elems() if (g.ns in V and g.name == "group" and is_enc(g)) or (g.ns == c14_docs.CELLML20 and g.name == "encapsulation" and g.elems())]
    if len(encs) > 1:
        cls.add("groups")
    # unit attributes the 2.0 unit does not have
    for u in doc.walk():
        if u.ns in V and u.name == "unit":
            for a in u.attrs:
                ok = (a[0] == "" and a[1] in ("units", "prefix", "exponent", "multiplier", "id")) or (a[0] == c14_docs.CMETA and a[1] == "id")
                if not ok:
                    cls.add("offset")
    # explicit none
    for x in doc.walk():
        if x.name == "variable" and (x.get("public_interface") == "none" or x.get("private_interface") == "none"):
            cls.add("fi")
    # foreign child elements where the pinned parser reports an error
    def foreign_kid(x):
        return any(isinstance(k, N) for k in x.kids)
    for x in doc.walk():
        if x.ns in V and x.name in ("unit", "map_components", "map_variables") and foreign_kid(x):
            cls.add("fd")
        # the grandchild test of loadConnection looks below EVERY child of a connection
        if x.name == "connection" and x.ns in V + (c14_docs.CELLML20,) and any(foreign_kid(k) for k in x.elems()):
            cls.add("fd")
        if x.ns in V and x.name == "units" and x.get("units_ref") is None and any(isinstance(k, N) and not (k.ns in V and k.name == "unit") for k in x.kids):
            cls.add("fd")
        if x.ns in V and x.name == "component_ref" and any(isinstance(k, N) and not (k.ns in V and k.name == "component_ref") for k in x.kids):
            cls.add("fd")
        if x in encs and any(isinstance(k, N) and not (k.ns in V and k.name in ("component_ref", "relationship_ref")) for k in x.kids):
            cls.add("fd")
    # two units (model level or inside components) with one name
    names = [u.get("name") for u in doc.walk() if u.ns in V and u.name == "units" and u.get("units_ref") is None]
    if len(set(names)) != len(names):
        cls.add("clash")
    return cls


# ------------------------------------------------------------------------------------------------ generators

def gen_models(ctx, n):
    """-> list of (kind, script)"""
    rng = ctx.rng
    out = []
    plan = [("valid", 0.50), ("valid_big", 0.15), ("valid_imports", 0.15), ("plain", 0.12), ("hostile", 0.08)]
    for kind, share in plan:
        for _ in range(max(1, int(n * share))):
            r = random.Random(rng.getrandbits(64))
            if kind == "valid":
                lines, _ = script_gen.random_model_script(r, valid=True, n_resets=0, p_import=0.0, p_math=0.6,
                                                          p_eq_ids=r.choice([0.3, 0.8]), p_id=r.choice([0.3, 0.8]),
                                                          p_interface=r.choice([0.3, 0.8]))
            elif kind == "valid_big":
                lines, _ = script_gen.random_model_script(r, valid=True, n_components=(4, 10), vars_per_component=(1, 4),
                                                          n_units=(2, 5), n_resets=0, n_equivalences=(2, 12), max_depth=4,
                                                          p_eq_ids=0.6, p_math=0.5, p_import=0.0, wild_numbers=False)
            elif kind == "valid_imports":
                lines, _ = script_gen.random_model_script(r, valid=True, n_resets=0, p_import=r.choice([0.2, 0.5]), p_math=0.4,
                                                          p_eq_ids=0.5, p_id=0.6)
            elif kind == "plain":
                lines, _ = c02_models.hostile_model_script(r, hostile=False, ws=False, size=r.choice([1, 2]))
            else:
                lines, _ = c02_models.hostile_model_script(r, hostile=True, ws=r.random() < 0.3, size=1)
            lines = [l for l in lines if not l.startswith("addreset ")]      # 1.x has no resets
            if kind.startswith("valid"):
                lines = add_math_blocks(r, lines, _)
            lines.append("removeencapsulationid 0")                           # a 1.x group cannot carry it
            out.append((kind, ";".join(lines)))
    return out


MATH_ONLY = '<math xmlns="http://www.w3.org/1998/Math/MathML">'


def add_math_blocks(r, lines, info):
    """several math blocks per component, some WITHOUT any cn / cellml:units (an equation between ci operands): appended
    through the API so that the 2.0 original holds them too"""
    extra = []
    owner = info.get("var_owner", {})
    for c in info.get("components", []):
        if c in info.get("imported", []):
            continue
        vs = [info["names"][v] for v, o in owner.items() if o == c]
        if not vs or r.random() < 0.5:
            continue
        for _k in range(r.randint(1, 2)):
            v = r.choice(vs)
            if r.random() < 0.6:
                m = MATH_ONLY + "<apply><eq/><ci>%s</ci><apply><plus/><ci>%s</ci><ci>%s</ci></apply></apply></math>" % (v, v, r.choice(vs))
            else:
                m = ('<math xmlns="http://www.w3.org/1998/Math/MathML" xmlns:cellml="http://www.cellml.org/cellml/2.0#"><apply><eq/><ci>%s</ci>'
                     '<cn cellml:units="second">%d</cn></apply></math>') % (v, r.randint(0, 9))
            extra.append("appendmath %d %s" % (c, S(m)))
    if not extra:
        return lines
    # before the closing fixvariableinterfaces / linkunits calls
    k = len(lines)
    while k > 0 and lines[k - 1].split(" ")[0] in ("fixvariableinterfaces", "linkunits"):
        k -= 1
    return lines[:k] + extra + lines[k:]


def docs_for_model(r, root20, has_imports, per_model):
    """-> list of dict(version, style, decorations, text, coq (bool: the Coq to1x covers this spelling))"""
    out = []
    versions = ["1.1"] if has_imports else ["1.0", "1.1"]
    for k in range(per_model):
        version = versions[k % len(versions)] if k < 2 else r.choice(versions)
        coq_only = k < 2
        st = c14_docs.random_style(r, coq_only=coq_only)
        doc = c14_docs.to1x(root20, version, st, random.Random(r.getrandbits(32)))
        decs = []
        if k >= 2 and r.random() < 0.7:
            want = r.sample(sorted(c14_docs.DECORATIONS), r.randint(1, 4))
            doc, decs = c14_docs.decorate(doc, random.Random(r.getrandbits(32)), want)
        if k >= 1 and r.random() < (0.4 if k == 1 else 0.8):
            # child order (python only; the Coq to1x places map_components / relationship_ref by mcpos / rrpos)
            want = r.sample(c14_docs.ORDER_MODES, r.randint(1, 3))
            doc, om = c14_docs.shuffle_children(doc, random.Random(r.getrandbits(32)), want)
            decs = decs + om
        if r.random() < 0.7:
            doc, nsm = c14_docs.ns_variation(doc, random.Random(r.getrandbits(32)))
            decs = decs + nsm
        V = c14_docs.VNS[version]
        opts = {"comments": "comments" in decs}
        site = r.choice(["where_used", "root", "math"])
        if site == "root":
            opts["root_decl"] = [V, c14_docs.CMETA]
        elif site == "math":
            opts["math_decl"] = True
        if r.random() < 0.25:
            opts["prefix"] = {V: r.choice(["c", "cml", "cellml1"]), c14_docs.CMETA: r.choice(["cmeta", "meta"])}
        text = c14_docs.serialize(doc, opts)
        out.append({"version": version, "style": st, "decorations": decs, "text": text,
                    "coq": coq_only and not [d for d in decs if not d.startswith("ns:")],
                    "site": site})
    return out


# ------------------------------------------------------------------------------------------------ evaluation

def explain_variant(ml, lib_issues, lib_model_key, math_norm):
    """which model variant (no fix / one fix) the library agrees with, if any"""
    for tag in ("0", "i", "d"):
        if (tag + "==") in ml:
            continue
        li, lm = ml.get("LI" + tag), ml.get("LM" + tag)
        if li is None:
            continue
        try:
            if issues_ml(li) == lib_issues and ent_key(lm, lambda s: s) == lib_model_key:
                return tag
        except Exception:        # noqa: BLE001
            pass
    return None


def parse_ml(line):
    d = {}
    for f in (line or "").split("\t"):
        if f in ("0==", "i==", "d=="):
            d[f] = True
        elif "=" in f:
            k, v = f.split("=", 1)
            d[k] = v
    return d


def evaluate_doc(ctx, info, cpp_line, ml_doc_line, names, stats):
    """one document.  info: dict(kind, text, doc (N or None), tags (set), origin (dict or None))
    origin: dict(d0, valid (bool), ml (parsed M line), coq (bool), version)
    -> list of (severity, what, detail)"""
    problems = []
    if cpp_line.startswith(("CRASH", "THROW", "TIMEOUT", "<missing>")):
        problems.append(("violation", "library " + cpp_line.split("\t")[0] + " while parsing a 1.x document", {}))
        return problems
    cf = cpp_line.split("\t")
    if cf[0] != "ok" or len(cf) < 8:
        problems.append(("violation", "driver gave no answer: " + cpp_line[:100], {}))
        return problems
    ip, entp, dp, vp, isf, sm, ds = cf[1:8]
    lib_ip = issues_cpp(ip, names)
    lib_is = issues_cpp(isf, names)
    doc = info["doc"]
    classes = doc_classes(doc) if doc is not None else set()
    is1x = doc is not None and doc.ns in (c14_docs.CELLML10, c14_docs.CELLML11) and doc.name == "model"
    stats["is1x"] += is1x
    for c in classes:
        stats["class_" + c] = stats.get("class_" + c, 0) + 1

    # ---------------- correspondence with the extracted model
    ml = parse_ml(ml_doc_line)
    explained = None
    if doc is None:
        stats["not_well_formed"] += 1
    elif "LI" not in ml:
        problems.append(("violation", "extracted model gave no answer on a document: %s" % (ml_doc_line or "")[:200], {}))
    elif ml.get("MS") == "0" or c14_docs.cellml_prefix_foreign(info["text"]):
        # outside the TREE-level model of the namespace rewriting (Load1xDefs header); the declaration layer still applies
        stats["math_out_of_scope"] += 1
    elif entp.startswith("OOS"):
        problems.append(("violation", "transformed model outside the entity model: " + entp, {}))
    else:
        lib_key = ent_key(entp, C2.math_text)
        mod_key = ent_key(ml["LM"], lambda s: s)
        mod_li = issues_ml(ml["LI"])
        if lib_ip != mod_li or lib_key != mod_key:
            explained = explain_variant(ml, lib_ip, lib_key, None)
            if explained == "0":
                # the library behaves as the model WITHOUT the fixes: name the fix(es) by the class of the document
                # fix i matters iff the model with only fix d still differs from the fully repaired one (and vice versa)
                fixes = ([FIXES["i"]] if "d==" not in ml else []) + ([FIXES["d"]] if "i==" not in ml else [])
                what = "permissive parse differs from the repaired model and equals the model of the pinned parser: defect repaired by " + " + ".join(fixes)
                problems.append(("violation", what, {"class": fixes, "library_issues": lib_ip, "model_issues": mod_li}))
            elif explained in ("i", "d"):
                other = "d" if explained == "i" else "i"
                what = "permissive parse equals the model with only fix %s: defect repaired by %s" % (FIXES[explained], FIXES[other])
                problems.append(("violation", what, {"class": [FIXES[other]], "library_issues": lib_ip, "model_issues": mod_li}))
            else:
                if lib_ip != mod_li:
                    problems.append(("violation", "permissive parser issues differ from the loader model",
                                     {"library": lib_ip, "model": mod_li}))
                if lib_key != mod_key:
                    problems.append(("violation", "transformed model differs from the loader model",
                                     {"library": repr(lib_key)[:3000], "model": repr(mod_key)[:3000]}))
        mod_si = issues_ml(ml["SI"])
        if lib_is != mod_si:
            problems.append(("violation", "strict parser issues differ from the loader model", {"library": lib_is, "model": mod_si}))
        lib_empty = sm != "null" and ds == '(model (name "") (id "") (encid "") (unitslist) (components) (equivalences))'
        if is1x and (ml["SE"] == "1") != lib_empty:
            problems.append(("violation", "strict parser: model and library disagree on the returned model", {"library": ds[:300]}))

    # ---------------- the property's own oracle on the library
    if is1x:
        # strict mode refuses (the libxml2 error list of a text that is not well-formed comes on top)
        if doc is not None:
            if lib_is != ["E:XML_UNEXPECTED_ELEMENT"] or sm == "null" or \
                    ds != '(model (name "") (id "") (encid "") (unitslist) (components) (equivalences))':
                problems.append(("violation", "strict parser does not refuse a CellML 1.x document with one error and an empty model",
                                 {"issues": lib_is, "model": ds[:300]}))
        if not lib_ip or lib_ip[0] != "M:UNDEFINED":
            problems.append(("violation", "permissive parser does not announce the transformation with a message", {"issues": lib_ip}))
    origin = info.get("origin")
    tags = info.get("tags", set())
    strong = [x for x in (lib_ip or []) if not x.startswith("M:")]
    if origin is not None and origin["in_domain"]:
        stats["oracle_docs"] += 1
        fails = []
        if strong:
            fails.append(("issues", "permissive parser reports more than messages on a rewritten model: %s" % sorted(set(strong))))
        c0 = content_of_dump(origin["d0"], True)
        c1 = content_of_dump(dp, False) if dp != "-" else None
        if c0 != c1:
            fails.append(("content", "content of the transformed model differs from the 2.0 original"))
        if origin["valid"] and not origin.get("prefixed_mathml"):
            # (the Validator's MathML DTD check rejects prefixed MathML element names, in a 2.0 document too)
            lv = issues_cpp(vp, names)
            if lv is None or lv:
                fails.append(("validator", "the Validator accepts the 2.0 original and not the transformed model: %s" % (sorted(set(lv)) if lv else vp)))
        allowed = set()
        if "groups" in classes:
            allowed.add("E:MODEL_MORE_THAN_ONE_ENCAPSULATION")
        if "offset" in classes:
            allowed.add("E:UNIT_ATTRIBUTE_OPTIONAL")
        for cls, what in fails:
            matched = []
            if cls == "issues" and set(strong) <= allowed:
                matched = ["C14-several-encapsulation-groups" if x.startswith("E:MODEL_MORE") else "C14-unit-attribute-error" for x in sorted(set(strong))]
            elif cls == "issues" and explained == "0" and "fd" in classes and \
                    set(strong) <= allowed | {"E:XML_UNEXPECTED_ELEMENT", "E:ENCAPSULATION_CHILD", "E:COMPONENT_REF_CHILD"}:
                matched = []          # reported above as the defect fix C14-foreign-children repairs
                continue
            elif cls in ("content", "validator") and "groups" in classes:
                matched = ["C14-several-encapsulation-groups"]
            if matched and all(ctx.known_finding(mid, what) for mid in matched):
                problems.append(("known:" + ",".join(matched), what, {}))
            elif explained is not None and ("fi" in classes or "fd" in classes):
                # already reported above as the defect a fix repairs
                pass
            else:
                problems.append(("violation", what, {"d0": origin["d0"][:3000], "dp": dp[:3000]}))
    elif "legal" in tags:
        stats["oracle_docs"] += 1
        allowed = set()
        if "groups" in classes:
            allowed.add("E:MODEL_MORE_THAN_ONE_ENCAPSULATION")
        if "offset" in classes:
            allowed.add("E:UNIT_ATTRIBUTE_OPTIONAL")
        # a placeholder variable has no units yet; unknown units: warnings of linkUnits are not about dropped constructs
        bad = [x for x in strong if x not in allowed and x != "W:VARIABLE_ELEMENT"]
        if bad and not (explained is not None and "fd" in classes):
            problems.append(("violation", "a document made of legal CellML 1.x constructs gets more than messages: %s" % sorted(set(bad)), {}))
        for x in set(strong) & allowed:
            fid = "C14-several-encapsulation-groups" if x.startswith("E:MODEL_MORE") else "C14-unit-attribute-error"
            what = "legal CellML 1.x construct reported as an error (%s)" % x
            if not ctx.known_finding(fid, what):
                problems.append(("violation", what, {}))
        if "valid" in tags:
            lv = issues_cpp(vp, names)
            if lv is None or lv:
                if not (explained is not None):
                    problems.append(("violation", "the transformed model of a valid hand-shaped document does not pass the Validator: %s" % (lv if lv is not None else vp), {}))
        if "clash" in tags:
            lv = issues_cpp(vp, names)
            if lv:
                what = "units of the same name declared in different components are hoisted side by side: the Validator rejects the transformed model (%s)" % sorted(set(lv))
                if not ctx.known_finding("C14-component-units-name-clash", what):
                    problems.append(("violation", what, {}))
    return problems


def evaluate_math_ns(it, cpp_line, n_line, stats):
    """the stored math strings of the transformed model, with their namespace declarations: against MathNsDefs.stored_math,
    and the oracle "no CellML 1.0 / 1.1 namespace is left in the stored MathML" """
    problems = []
    cf = cpp_line.split("\t")
    if cf[0] != "ok" or len(cf) < 4 or cf[2].startswith("OOS") or it.get("doc") is None:
        return problems
    doc = it["doc"]
    if doc.ns not in (c14_docs.CELLML10, c14_docs.CELLML11) or doc.name != "model":
        return problems
    ent = C2.parse_ent(cf[2])
    stored = {}
    dup = set()

    def comp(c):
        nm = unS(c[1])
        if nm in stored:
            dup.add(nm)
        stored[nm] = unS(c[6])
        for k in c[9]:
            comp(k)
    for c in ent[5]:
        comp(c)
    for nm, ms in stored.items():
        if c14_docs.CELLML10.encode() in ms or c14_docs.CELLML11.encode() in ms:
            problems.append(("violation", "the MathML stored for a transformed component still mentions a CellML 1.0 / 1.1 namespace",
                             {"component": nm.decode("utf-8", "replace"), "math": ms.decode("utf-8", "replace")[:2000]}))
            break
    blocks = it.get("blocks")
    if not blocks or n_line is None:
        return problems
    nf = n_line.split("\t")
    if nf[0] != "NM" or len(nf) != len(blocks) + 1:
        problems.append(("violation", "extracted model gave no answer on the math blocks: %s" % n_line[:200], {}))
        return problems
    stats["math_blocks"] = stats.get("math_blocks", 0) + len(blocks)
    per_comp = {}
    for (cname, _), pred in zip(blocks, nf[1:]):
        per_comp.setdefault(cname, []).append(pred)
    for cname, preds in per_comp.items():
        key = (cname or "").encode("utf-8")
        if cname is None or key in dup or key not in stored:
            stats["math_blocks_unmatched"] = stats.get("math_blocks_unmatched", 0) + len(preds)
            continue
        lib = c14_docs.stored_math_raw(stored[key])
        if any(p.startswith("!1x ") for p in preds):
            problems.append(("violation", "model instance of C14_stored_math_no_1x_declaration fails", {}))
        if any("!tree " in p[:12] for p in preds) and not c14_docs.cellml_prefix_foreign(it["text"]):
            problems.append(("violation", "the declaration layer (MathNsDefs.stored_math) and the tree layer (Load1xDefs.rewrite_math) disagree on a math element in scope", {}))
        preds = [p.replace("!tree ", "", 1) if p.startswith("!tree ") else p for p in preds]
        if lib != preds:
            problems.append(("violation", "stored math (qualified names, xmlns declarations, attributes) differs from MathNsDefs.stored_math",
                             {"component": cname, "library": stored[key].decode("utf-8", "replace")[:2000], "library_raw": lib, "model_raw": preds}))
            break
        stats["math_blocks_compared"] = stats.get("math_blocks_compared", 0) + len(preds)
    return problems


# ------------------------------------------------------------------------------------------------ one batch

def new_stats():
    return {k: 0 for k in ("models", "models_valid", "models_expressible", "models_printable", "docs", "is1x", "oracle_docs",
                           "tree_compared", "instances", "not_well_formed", "math_out_of_scope", "nomodel", "oos")}


def run_models(ctx, models, per_model, cpp, mdl, names, stats, tag):
    """models: list of (kind, script).  -> list of result dicts (one per document)"""
    s_out = C2.shards(ctx, cpp, tag + "_s", ["S " + s for _, s in models])
    items = []          # one per document
    ml_lines = []
    for (kind, script), line in zip(models, s_out):
        cf = line.split("\t")
        stats["models"] += 1
        if cf[0] != "ok" or len(cf) < 6:
            if line.startswith(("CRASH", "THROW", "TIMEOUT")):
                items.append({"kind": kind, "script": script, "text": script,
                              "fatal": "library %s while building / printing the 2.0 original" % cf[0]})
            elif cf[0] == "cyclic-units":
                stats["cyclic_units"] = stats.get("cyclic_units", 0) + 1
            else:
                stats["nomodel"] += 1
            continue
        ent0, val, d0, p1, _pi = cf[1:6]
        if ent0.startswith("OOS"):
            stats["oos"] += 1
            continue
        p1_text = unS(p1)
        if not p1_text:
            continue
        root20 = c14_docs.parse_text(p1_text)
        if root20 is None or root20.ns != c14_docs.CELLML20:
            continue
        valid = val == "V=0"
        stats["models_valid"] += valid
        has_imports = any(k.name == "import" for k in root20.elems())
        r = random.Random(int(hashlib.sha1(script.encode()).hexdigest()[:12], 16) ^ ctx.seed)
        ent0n = norm_none_ent(ent0)
        try:
            mt = C2.math_table(C2.parse_ent(ent0))
        except Exception:        # noqa: BLE001
            continue
        for dinfo in docs_for_model(r, root20, has_imports, per_model):
            bits = c14_docs.style_bits(dinfo["version"], dinfo["style"])
            ml_lines.append("M " + bits + " " + ent0n + "\t" + mt)
            items.append({"kind": kind, "script": script, "d0": d0, "valid": valid, "ent0": ent0n, "dinfo": dinfo,
                          "text": dinfo["text"], "mline": len(ml_lines) - 1})
    return items, ml_lines


def run_documents(ctx, items, ml_lines, cpp, mdl, names, stats, tag):
    """items: dicts with 'text' (+ optional model information).  Runs both drivers, evaluates, returns [(item, problems)]"""
    live = [it for it in items if "fatal" not in it]
    for it in live:
        it["doc"] = c14_docs.parse_text(it["text"])
    d_lines = []
    for it in live:
        if it["doc"] is not None:
            it["dline"] = len(ml_lines) + len(d_lines)
            d_lines.append("D " + c14_docs.to_sx(it["doc"], sort_attrs=False) + "\t( )")
    # the namespace-declaration layer: the math elements with prefixes and xmlns declarations
    n_lines = []
    for it in live:
        if it["doc"] is not None and it["doc"].ns in (c14_docs.CELLML10, c14_docs.CELLML11) and it["doc"].name == "model":
            blocks = c14_docs.math_blocks(it["text"])
            if blocks:
                it["blocks"] = blocks
                it["nline"] = len(ml_lines) + len(d_lines) + len(n_lines)
                n_lines.append("N (" + "".join(" " + b for _, b in blocks) + " )")
    ml_out = C2.shards(ctx, mdl, tag + "_ml", ml_lines + d_lines + n_lines)
    t_out = C2.shards(ctx, cpp, tag + "_t", ["T " + it["text"].encode("utf-8").hex() for it in live])
    results = []
    for it in items:
        if "fatal" in it:
            results.append((it, [("violation", it["fatal"], {})]))
    for it, cpp_line in zip(live, t_out):
        stats["docs"] += 1
        problems = []
        origin = None
        if "mline" in it:
            m = parse_ml(ml_out[it["mline"]])
            if "EX" not in m:
                problems.append(("violation", "extracted model gave no answer on a model: %s" % ml_out[it["mline"]][:200], {}))
            else:
                ex = m["EX"]
                expressible, printable = ex[0] == "1", ex[1] == "1"
                st = it["dinfo"]["style"]
                # (printable includes "every number survives 15 digits": a validator-accepted model outside it is C02's finding)
                in_domain = printable and expressible
                origin = {"d0": it["d0"], "valid": it["valid"] and expressible, "in_domain": in_domain, "ml": m,
                          "prefixed_mathml": "ns:prefixed_mathml" in it["dinfo"]["decorations"]}
                if it["dinfo"] is not None and it.get("first_of_model", True):
                    pass
                stats["models_expressible"] += expressible
                stats["models_printable"] += printable
                if m.get("TX") not in (None, "NONE"):
                    # the Coq rewriting against python's parse of the document python wrote
                    if it["dinfo"]["coq"] and it["doc"] is not None and printable:
                        stats["tree_compared"] += 1
                        if c14_docs.to_sx(it["doc"], sort_attrs=True) != m["TX"]:
                            problems.append(("violation", "the Coq to1x and the python to1x write different documents",
                                             {"coq": m["TX"][:3000], "python": c14_docs.to_sx(it["doc"], True)[:3000]}))
                        # the instance of the theorems: printable & expressible => conv_ok, only messages, content = canon m
                        if expressible:
                            stats["instances"] += 1
                            li = issues_ml(m["LI"]) or []
                            cn = C2.sort_canon(ent_key(m["CN"], lambda s: s, tags=False))
                            lm = C2.sort_canon(ent_key(m["LM"], lambda s: s, tags=False))
                            if ex[5] != "1" or any(not x.startswith("M:") for x in li) or cn != lm or m["SE"] != "1" \
                                    or issues_ml(m["SI"]) != ["E:XML_UNEXPECTED_ELEMENT"]:
                                problems.append(("violation", "model instance of the transformation theorems fails (conv_ok / only messages / content = canon m / strict refuses)",
                                                 {"EX": ex, "issues": li}))
        info = {"kind": it.get("kind"), "text": it["text"], "doc": it["doc"], "tags": it.get("tags", set()), "origin": origin}
        dl = ml_out[it["dline"]] if "dline" in it else None
        try:
            problems += evaluate_doc(ctx, info, cpp_line, dl, names, stats)
        except Exception as e:        # noqa: BLE001  glue failure: never silent
            import traceback
            problems.append(("violation", "check glue crashed on this document: %r" % (e,), {"trace": traceback.format_exc()[-1500:]}))
        try:
            problems += evaluate_math_ns(it, cpp_line, ml_out[it["nline"]] if "nline" in it else None, stats)
        except Exception as e:        # noqa: BLE001
            import traceback
            problems.append(("violation", "check glue crashed on the stored math of this document: %r" % (e,), {"trace": traceback.format_exc()[-1500:]}))
        it["cpp"] = cpp_line
        it["ml"] = dl
        results.append((it, problems))
    return results


def static_documents():
    """hand-shaped documents, corpus/C14, the library's own 1.x test resources"""
    items = []
    for name, text, tags in c14_docs.hand_documents():
        items.append({"kind": "hand:" + name, "text": text, "tags": tags})
    cdir = os.path.join(vf.ROOT, "corpus", "C14")
    if os.path.isdir(cdir):
        for f in sorted(os.listdir(cdir)):
            if f.endswith((".xml", ".cellml")):
                tags = set()
                m = re.match(r"([a-z,]+)--", f)
                if m:
                    tags = set(m.group(1).split(","))
                items.append({"kind": "corpus:" + f, "text": open(os.path.join(cdir, f), encoding="utf-8").read(), "tags": tags})
    rdir = os.path.join(vf.REPO, "tests", "resources", "cellml1X")
    if os.path.isdir(rdir):
        for f in sorted(os.listdir(rdir)):
            try:
                text = open(os.path.join(rdir, f), encoding="utf-8").read()
            except Exception:        # noqa: BLE001
                continue
            # annotated_model.cellml is broken on purpose (libxml2 errors): correspondence does not apply, the oracle neither
            items.append({"kind": "resource:" + f, "text": text, "tags": {"legal"} if f != "annotated_model.cellml" else set()})
    return items


def report(ctx, results, reported, hist, seen, counters):
    for it, problems in results:
        counters["evaluations"] += 1
        kind = it.get("kind", "?")
        kkey = kind.split(":")[0]
        hist[kkey] = hist.get(kkey, 0) + 1
        if "dinfo" in it:
            for d in it["dinfo"]["decorations"]:
                hist["dec:" + d] = hist.get("dec:" + d, 0) + 1
            hist["version:" + it["dinfo"]["version"]] = hist.get("version:" + it["dinfo"]["version"], 0) + 1
            for k2, v2 in it["dinfo"]["style"].items():
                if v2:
                    hist["style:" + k2] = hist.get("style:" + k2, 0) + 1
        h = hashlib.sha1(it["text"].encode("utf-8")).hexdigest()
        nt = ("<variable" in it["text"]) or ("<unit " in it["text"])
        if h not in seen and nt:
            counters["nontrivial"] += 1
        seen.add(h)
        if len(counters["samples"]) < 3 and nt and "dinfo" in it and len(it["text"]) < 1500 and \
                not any(s.get("version") == it["dinfo"]["version"] for s in counters["samples"]):
            counters["samples"].append({"kind": kind, "version": it["dinfo"]["version"], "document": it["text"]})
        for sev, what, detail in problems:
            if sev != "violation":
                continue
            key = re.sub(r"[:(\[].*", "", what)[:90]
            if "class" in detail:
                key += "|" + ",".join(detail["class"])
            if key in reported:
                reported[key]["count"] += 1
                continue
            reported[key] = {"count": 1}
            content = {"property": "C14", "what": what, "kind": kind, "document": it["text"], "detail": detail,
                       "replay": "bin/check C14 --replay <this file>"}
            if "script" in it:
                content["script_of_the_2.0_original"] = it["script"]
                content["style"] = it["dinfo"]["style"] if "dinfo" in it else None
                content["decorations"] = it["dinfo"]["decorations"] if "dinfo" in it else None
            ctx.violation(what, "c14_%s.json" % hashlib.sha1(key.encode()).hexdigest()[:10], content)


def drivers():
    build = vf.build_repo("plain")
    cpp = vf.compile_driver(build, os.path.join(vf.ROOT, "harness/c14_driver.cpp"), extra_flags=["-fno-access-control"])
    mdl = vf.ocaml_driver("transform")
    return cpp, mdl


def run(ctx):
    ctx.proofs()
    cpp, mdl = drivers()
    names = C2.rule_names()
    stats = new_stats()
    reported, hist, seen = {}, {}, set()
    counters = {"evaluations": 0, "nontrivial": 0, "samples": []}
    # static documents first (hand-shaped, corpus, the library's own resources)
    res = run_documents(ctx, static_documents(), [], cpp, mdl, names, stats, "static")
    report(ctx, res, reported, hist, seen, counters)
    ctx.log("static documents done (%d)" % len(res))
    n_docs = 600 if ctx.quick() else 15000
    per_model = 4 if ctx.quick() else 5
    n_models = n_docs // per_model
    chunk = 700
    todo = n_models
    while todo > 0:
        n = min(chunk, todo)
        todo -= n
        models = gen_models(ctx, n)
        items, ml_lines = run_models(ctx, models, per_model, cpp, mdl, names, stats, "b%d" % todo)
        res = run_documents(ctx, items, ml_lines, cpp, mdl, names, stats, "b%d" % todo)
        report(ctx, res, reported, hist, seen, counters)
        ctx.log("batch done: %d models -> %d documents" % (len(models), len(res)))
    ctx.cov["evaluations"] = counters["evaluations"]
    ctx.cov["distinct_nontrivial"] = counters["nontrivial"]
    ctx.cov["rule"] = ("a case = one CellML 1.0 / 1.1 document parsed permissively and strictly; non-trivial = it holds at least one "
                       "variable or unit element; distinct by document text")
    ctx.cov["samples"] = counters["samples"]
    ctx.cov["input_distribution"] = {"kinds_styles_decorations": hist, "classes": stats,
                                     "violation_classes": {k: v["count"] for k, v in reported.items()}}
    ctx.assumptions += [
        "A-xml: libxml2's text<->tree step is not modelled; the loader model works on the tree python's expat reads from the same text "
        "(attributes in document order, comments and blank text dropped)",
        "namespace rewriting of MathML: modelled at tree level (attribute = namespace URI, local name, value); where xmlns declarations sit "
        "is not part of the tree: elements in a 1.x namespace inside math, 1.x-namespaced attributes on the math element itself and a "
        "prefix 'cellml' bound to a foreign namespace inside math are outside the model (math_in_scope; such documents are skipped)",
        "math strings are compared up to blanks and attribute order (both sides through python's expat)",
        "numbers: show15 / to_double are libc's (%.15g, strtod); the OCaml glue uses Printf %.15g / float_of_string",
    ]
    ctx.notes.append("documents with an oracle (rewritten from a model in the domain, or hand-shaped 'legal'): %d of %d; Coq to1x tree compared with python's on %d documents; theorem instances evaluated: %d"
                     % (stats["oracle_docs"], counters["evaluations"], stats["tree_compared"], stats["instances"]))


def replay(ctx, path):
    data = json.load(open(path))
    cpp, mdl = drivers()
    names = C2.rule_names()
    stats = new_stats()
    item = {"kind": data.get("kind", "replay"), "text": data["document"], "tags": set(data.get("tags", []))}
    if data["kind"].startswith("hand:"):
        for name, text, tags in c14_docs.hand_documents():
            if "hand:" + name == data["kind"]:
                item["tags"] = tags
    if data["kind"].startswith("resource:") and not data["kind"].endswith("annotated_model.cellml"):
        item["tags"] = {"legal"}
    ml_lines = []
    script = data.get("script_of_the_2.0_original")
    if script and data.get("style"):
        # the 2.0 original again: description, validity, dump -> the oracle and the Coq to1x apply as in the run
        out = C2.shards(ctx, cpp, "replay_s", ["S " + script])
        cf = out[0].split("\t")
        if cf[0] == "ok" and len(cf) >= 6 and not cf[1].startswith("OOS"):
            version = "1.0" if c14_docs.CELLML10 in data["document"].split(">", 2)[1] else "1.1"
            st = data["style"]
            ent0n = norm_none_ent(cf[1])
            ml_lines.append("M " + c14_docs.style_bits(version, st) + " " + ent0n + "\t" + C2.math_table(C2.parse_ent(cf[1])))
            item.update({"script": script, "d0": cf[3], "valid": cf[2] == "V=0", "ent0": ent0n, "mline": 0,
                         "dinfo": {"version": version, "style": st, "decorations": data.get("decorations") or [],
                                   "coq": not (st.get("per_var") or st.get("place") or data.get("decorations")), "text": data["document"]}})
            print("2.0 original: valid=%s dump=%s" % (cf[2], cf[3][:3000]))
    res = run_documents(ctx, [item], ml_lines, cpp, mdl, names, stats, "replay")
    it, problems = res[0]
    print("document:\n" + data["document"])
    labels = ["status", "permissive issues", "ENT", "dump", "validator", "strict issues", "strict ENT", "strict dump"]
    for k, f in enumerate(it.get("cpp", "").split("\t")):
        if k in (1, 4, 5):
            f = str(issues_cpp(f, names))
        print("library %-18s: %s" % (labels[k] if k < len(labels) else k, f[:3000]))
    for f in (it.get("ml") or "").split("\t"):
        print("model   : %s" % f[:3000])
    for sev, what, detail in problems:
        print("%s: %s" % (sev.upper(), what))
        if sev == "violation":
            ctx.violation(what, "replay_" + os.path.basename(path), dict(data, detail=detail))
