"""C18 — variable-equivalence queries agree with the connection graph.

proofs : Properties_C18.v (Cantor pairing injective over N, its 64-bit form refuted by a concrete collision,
         ordered-pair key injective; memo cache = un-memoised function for every injective key, every query
         history; the search of haveEquivalentVariables = reachability with fuel >= |V|; graphs built by any
         history of addEquivalence / destruction are symmetric; end-to-end statement for the three queries)
tie    : extracted model vs a fresh build: (a) graphs built through Variable::addEquivalence (+ destroyed
         variables), every ordered pair asked through hasEquivalentVariable(v,true), (v,false) and
         AnalyserModel::areEquivalentVariables in shuffled, repeated orders; (b) the cache key computed by the
         library (guarded hook verifEquivalentVariablesCacheKey) on constructed addresses vs the Coq pairkey
search : (a) reachability by an independent BFS over equivalentVariable(i) lists (driver) and a union-find over
         the case's own edge list (here); (b) "different unordered pairs of addresses get different keys" on the
         probe set, which contains pairs that collide under the old 64-bit Cantor formula
"""
import hashlib
import json
import os
import subprocess

import vf

M64 = 1 << 64
WITNESS = (0x55d0b1358140, 0x55d0b16ffff0, 0x55d0b1496850, 0x55d0b1621040)
PER_CASE = ["30"]     # seconds the C++ driver allows for one case (quick tier: 10)
SLOW_TOKENS = ("TIMEOUT", "SLOW")
BAD_TOKENS = ("CRASH", "THROW", "TIMEOUT", "BADCASE", "NOTEXPIRED", "NOANALYSERMODEL", "FOREIGN", "<missing>", "MODELERROR", "REPARSE_FAILED", "SLOW")


# ----------------------------------------------------------------------------- key probe

def key64(a, b):
    """the key of the code before commit 00f1ed0 (Cantor pairing in uintptr_t); mirrors KeyDefs.key64"""
    x, y = (a, b) if a <= b else (b, a)
    s = (x + y) % M64
    return ((((s * ((s + 1) % M64)) % M64) >> 1) + y) % M64


def gen_collision(rng):
    """Two different unordered pairs of 16-aligned addresses below 2^47 with the same *old* key.

    key64(x,y) = (T(s) mod 2^63) + y with s = x+y, T(s) = s(s+1)/2.  For s2 = s1 + 16k (k = 2^j k', k' odd),
    s1 = 16m:  T(s2) - T(s1) = 8k(32m + 16k + 1).  Choose a small e = k' (mod 32) and solve
    32m + 16k + 1 = e / k'  (mod 2^(60-j)) for m: then y1 - y2 = 2^(j+3) e makes the two keys equal."""
    for _ in range(1000):
        j = rng.randint(8, 18)
        kp = rng.randrange(1, 1 << (19 - j), 2)
        e = kp + 32 * rng.randint(-2, 2)
        if e == 0:
            continue
        k = (1 << j) * kp
        mod = 1 << (60 - j)
        r = (e * pow(kp, -1, mod)) % mod
        if (r - 16 * k - 1) % 32:
            continue
        step = 1 << (55 - j)
        m0 = ((r - 16 * k - 1) // 32) % step
        cands = [m0 + t * step for t in range(0, (1 << 44) // step + 1) if (1 << 42) <= m0 + t * step < (1 << 44) - (1 << 24)]
        if not cands:
            continue
        m = rng.choice(cands)
        s1, d = 16 * m, 16 * k
        delta = (1 << (j + 3)) * e
        need = d + 2 * abs(delta) + 16 * rng.randrange(0, 1 << 16)
        y1 = 16 * ((m + 1) // 2) + 16 * ((need // 2) // 16 + 1)
        x1 = s1 - y1
        y2 = y1 - delta
        x2 = s1 + d - y2
        if not (0 < x1 <= y1 < (1 << 47) and 0 < x2 <= y2 < (1 << 47)):
            continue
        if any(v % 16 for v in (x1, y1, x2, y2)):
            continue
        if key64(x1, y1) == key64(x2, y2) and (x1, y1) != (x2, y2):
            return (x1, y1, x2, y2)
    return None


def gen_key_pairs(rng, n_coll, n_rand):
    pairs = []
    kinds = {}

    def add(a, b, kind):
        pairs.append((a, b))
        kinds[kind] = kinds.get(kind, 0) + 1

    a, b, c, d = WITNESS
    for p in ((a, b), (c, d), (b, a), (d, c)):
        add(p[0], p[1], "design_witness")
    ncol = 0
    for _ in range(n_coll):
        w = gen_collision(rng)
        if w is None:
            continue
        ncol += 1
        x1, y1, x2, y2 = w
        if rng.random() < 0.5:
            x1, y1 = y1, x1
        if rng.random() < 0.5:
            x2, y2 = y2, x2
        add(x1, y1, "old_key_collision")
        add(x2, y2, "old_key_collision")
    bases = [0x55d0b1358000, 0x7f3a5c000000, 0x600000000000, 0x1000, 0x7ffffffde000, 0xffff800000000000, 0x8000000000000000]
    for _ in range(n_rand):
        k = rng.random()
        if k < 0.45:      # two objects of one heap
            base = rng.choice(bases[:5]) + 16 * rng.randrange(0, 1 << 20)
            x = base + 16 * rng.randrange(0, 1 << 19)
            y = base + 16 * rng.randrange(0, 1 << 19)
            add(x, y, "heap")
            if rng.random() < 0.3:
                add(y, x, "swapped")
        elif k < 0.55:
            x = rng.choice(bases) + 16 * rng.randrange(0, 1 << 20)
            add(x, x, "equal")
        elif k < 0.75:    # high / extreme words
            x = rng.choice([0, 1, 15, 16, M64 - 1, M64 - 16, (1 << 63), (1 << 63) - 1, (1 << 32), (1 << 32) - 1, rng.randrange(M64)])
            y = rng.choice([0, 1, M64 - 1, (1 << 63), rng.randrange(M64), rng.randrange(1 << 47)])
            add(x, y, "extreme")
        elif k < 0.9:     # same sum, different split; neighbours of a previous pair
            p = rng.choice(pairs)
            dlt = 16 * rng.randrange(1, 1 << 12)
            if p[0] >= dlt and p[1] + dlt < M64:
                add(p[0] - dlt, p[1] + dlt, "same_sum")
            add(p[1], p[0], "swapped")
        else:
            add(rng.randrange(M64), rng.randrange(M64), "uniform64")
    return pairs, kinds, ncol


def run_key_probe(ctx, drv, mdl, pairs, kinds):
    cf = os.path.join(ctx.workdir, "key.cases")
    with open(cf, "w") as f:
        for a, b in pairs:
            f.write("K %x %x\n" % (a, b))
    cl = vf.sh([drv, cf], timeout=1200)[1].split("\n")
    ml = vf.sh([mdl, cf], timeout=1200)[1].split("\n")
    seen = {}          # impl key -> (unordered pair, ordered pair as asked)
    old_groups = {}    # old key -> set of unordered pairs (coverage only)
    nviol = 0
    ncorr = 0
    for i, (a, b) in enumerate(pairs):
        c = cl[i].strip() if i < len(cl) else "<missing>"
        m = ml[i].strip() if i < len(ml) else "<missing>"
        case = "K %x %x" % (a, b)
        mt = m.split()
        if len(mt) != 3 or not mt[2].startswith("k64="):
            ctx.violation("C18 key probe: model driver produced %r" % m, "key_model.json",
                          {"mode": "key", "cases": [case], "model": m}, no_input=True)
            return
        if int(mt[2][4:], 16) != key64(a, b):
            ctx.violation("C18 key probe: the check's own key64 differs from the Coq key64", "key_selfcheck.json",
                          {"mode": "key", "cases": [case], "model": m, "python_key64": "%x" % key64(a, b)}, no_input=True)
            return
        if c.startswith(BAD_TOKENS):
            nviol += 1
            if nviol <= 3:
                ctx.violation("C18 key probe: implementation %s on %s" % (c, case), "key_crash_%d.json" % nviol,
                              {"mode": "key", "cases": [case], "impl": c, "model": m})
            continue
        up = (min(a, b), max(a, b))
        old_groups.setdefault(key64(a, b), set()).add(up)
        # ---- the property's oracle on the implementation: different unordered pairs, different keys
        if c in seen and seen[c][0] != up:
            nviol += 1
            if nviol <= 3:
                o = seen[c][1]
                ctx.violation("C18 cache key collision: pairs (%x,%x) and (%x,%x) both get key [%s]: a cached answer for one "
                              "pair would be returned for the other" % (o[0], o[1], a, b, c), "key_collision_%d.json" % nviol,
                              {"mode": "key", "cases": ["K %x %x" % o, case], "impl_key": c, "model_key_this_pair": " ".join(mt[:2]),
                               "old_formula_key": mt[2]})
        seen.setdefault(c, (up, (a, b)))
        # ---- correspondence with the Coq pairkey (exact)
        if c.split() != mt[:2]:
            ncorr += 1
            if ncorr <= 2:
                ctx.violation("C18 key probe: library key [%s] differs from the model's pairkey [%s] for %s (the proofs are about "
                              "the model's key)" % (c, " ".join(mt[:2]), case), "key_correspondence_%d.json" % ncorr,
                              {"mode": "key", "cases": [case], "impl": c, "model": m}, no_input=True)
    ncolliding = sum(1 for g in old_groups.values() if len(g) > 1)
    ctx.cov["evaluations"] += len(pairs)
    ctx.log("key probe: %d pairs, %s; %d groups of pairs collide under the old 64-bit Cantor key, 0 expected under the current key; "
            "violations=%d correspondence_mismatches=%d" % (len(pairs), kinds, ncolliding, nviol, ncorr))
    return {"pairs": len(pairs), "kinds": kinds, "old_key_collision_groups": ncolliding,
            "distinct_unordered_pairs": len({(min(a, b), max(a, b)) for a, b in pairs if a != b})}


# ----------------------------------------------------------------------------- graphs

SHAPES = ["chain", "star", "cycle", "clique", "forest", "mixed", "random", "isolated"]


def shape_edges(rng, shape, vs):
    """edges of one shape over the vertex list vs"""
    n = len(vs)
    if n < 2 or shape == "isolated":
        return []
    if shape == "chain":
        return [(vs[i], vs[i + 1]) for i in range(n - 1)]
    if shape == "star":
        return [(vs[0], v) for v in vs[1:]]
    if shape == "cycle":
        return [(vs[i], vs[(i + 1) % n]) for i in range(n)] if n > 2 else [(vs[0], vs[1])]
    if shape == "clique":
        return [(vs[i], vs[j]) for i in range(n) for j in range(i + 1, n)]
    if shape == "forest":
        out = []
        for i in range(1, n):
            if rng.random() < 0.8:
                out.append((vs[rng.randrange(i)], vs[i]))
        return out
    if shape == "random":
        p = rng.choice([0.05, 0.1, 0.2, 0.5])
        return [(vs[i], vs[j]) for i in range(n) for j in range(i + 1, n) if rng.random() < p]
    raise ValueError(shape)


def gen_graph(rng, maxn):
    shape = rng.choice(SHAPES)
    if rng.random() < 0.15:
        n = rng.randint(1, min(4, maxn))
    else:
        n = rng.randint(2, maxn)
    vs = list(range(n))
    rng.shuffle(vs)
    edges = []
    if shape == "mixed":
        i = 0
        while i < n:
            k = rng.randint(1, max(1, n - i))
            edges += shape_edges(rng, rng.choice(SHAPES[:5] + ["random", "isolated"]), vs[i:i + k])
            i += k
    else:
        k = n if rng.random() < 0.6 else rng.randint(1, n)      # the rest stays isolated
        edges = shape_edges(rng, shape, vs[:k])
    rng.shuffle(edges)
    ops = []
    for a, b in edges:
        if rng.random() < 0.5:
            a, b = b, a
        ops.append(("e", a, b))
        r = rng.random()
        if r < 0.06:
            ops.append(("e", b, a))            # the same equivalence again, other way round
        elif r < 0.10:
            ops.append(("e", a, b))
        elif r < 0.13:
            ops.append(("e", a, a))            # addEquivalence(v, v)
    dead = set()
    if n >= 3 and rng.random() < 0.35:
        for v in rng.sample(range(n), rng.randint(1, max(1, n // 5))):
            pos = rng.randint(len(ops) // 2, len(ops))
            ops.insert(pos, ("x", v, v))
            dead.add(v)
        # a few more equivalences after the destructions (they make the lists of the survivors be cleaned)
        live = [v for v in range(n) if v not in dead]
        for _ in range(rng.randint(0, 3)):
            if len(live) >= 2:
                a, b = rng.sample(live, 2)
                ops.append(("e", a, b))
    # calls that name a destroyed variable can only pass nullptr: keep a few, drop the rest
    out = []
    gone = set()
    for o in ops:
        if o[0] == "x":
            gone.add(o[1])
            out.append(o)
        elif (o[1] in gone or o[2] in gone) and rng.random() < 0.7:
            continue
        else:
            out.append(o)
    ops = out
    live = [v for v in range(n) if v not in dead]
    qs = [(a, b) for a in live for b in live]
    rng.shuffle(qs)
    for _ in range(len(qs) // 3 + 1):
        if qs:
            q = rng.choice(qs)
            if rng.random() < 0.3:
                q = (q[1], q[0])
            qs.insert(rng.randint(0, len(qs)), q)
    if qs and rng.random() < 0.3:
        q = rng.choice(qs)
        i = rng.randint(0, len(qs))
        qs[i:i] = [q, q, q]
    # V: valid structure, analysed (the analysis fills the cache itself); J: invalid model, analyseModel still called;
    # I: invalid model, AnalyserModel of a fresh Analyser (the validator is exponential on dense invalid networks)
    if rng.random() < 0.5 and len(ops) <= 150:
        layout = "V:" + ",".join(str(v) for v in range(n))
    else:
        nc = rng.randint(1, n)
        layout = ("J:" if (n <= 16 and len(ops) <= 30) else "I:") + ",".join(str(rng.randrange(nc)) for _ in range(n))
    return {"n": n, "shape": shape, "layout": layout, "ops": ops, "qs": qs}


def case_line(g):
    ops = ",".join(("x%d" % o[1]) if o[0] == "x" else ("%d-%d" % (o[1], o[2])) for o in g["ops"]) or "-"
    qs = ",".join("%d:%d" % q for q in g["qs"]) or "-"
    return "G %d %s %s %s" % (g["n"], g["layout"], ops, qs)


def parse_case(line):
    f = line.split(" ")
    ops = []
    if f[3] != "-":
        for o in f[3].split(","):
            if o[0] == "x":
                ops.append(("x", int(o[1:]), int(o[1:])))
            else:
                a, b = o.split("-")
                ops.append(("e", int(a), int(b)))
    qs = [tuple(int(x) for x in q.split(":")) for q in f[4].split(",")] if f[4] != "-" else []
    return {"n": int(f[1]), "layout": f[2], "ops": ops, "qs": qs, "shape": "?"}


def expected_edges(g):
    """the connection graph of the case by its definition: equivalences added while both ends exist, minus destroyed ends"""
    dead, edges = set(), set()
    for o in g["ops"]:
        if o[0] == "x":
            dead.add(o[1])
            edges = {e for e in edges if o[1] not in e}
        elif o[1] != o[2] and o[1] not in dead and o[2] not in dead:
            edges.add(frozenset((o[1], o[2])))
    return dead, edges


def components(n, edges):
    parent = list(range(n))

    def find(x):
        while parent[x] != x:
            parent[x] = parent[parent[x]]
            x = parent[x]
        return x
    for e in edges:
        a, b = tuple(e)
        ra, rb = find(a), find(b)
        if ra != rb:
            parent[max(ra, rb)] = min(ra, rb)
    return [find(x) for x in range(n)]


def fields(line):
    out = {"answers": ""}
    for i, t in enumerate(line.split(" ")):
        if i == 0 and "=" not in t:
            out["answers"] = t
        elif "=" in t:
            k, v = t.split("=", 1)
            out[k] = v
    return out


def judge_graph(g, c, m):
    """returns (problems, index of the first failing query or None)"""
    if c.startswith(BAD_TOKENS):
        return ["implementation: %s" % c], None
    if m.startswith(BAD_TOKENS) or not m:
        return ["model driver: %s" % m], None
    cf, mf = fields(c), fields(m)
    problems = []
    first = None
    n = g["n"]
    dead, edges = expected_edges(g)
    # adjacency as observed through equivalentVariable(i)
    adj = {}
    for item in cf.get("adj", "").split(";"):
        if item:
            k, l = item.split(":")
            adj[int(k)] = [int(x) for x in l.split(".")] if l else []
    live = [v for v in range(n) if v not in dead]
    if sorted(adj) != live:
        problems.append("live variables observed %s, expected %s" % (sorted(adj), live))
    obs_edges = set()
    for k, l in adj.items():
        for w in l:
            if w not in adj or k not in adj[w]:
                problems.append("equivalence lists not symmetric: %d lists %d but not conversely" % (k, w))
            obs_edges.add(frozenset((k, w)))
        if len(set(l)) != len(l):
            problems.append("duplicate entry in the list of %d" % k)
    if obs_edges != edges:
        problems.append("equivalentVariable lists %s differ from the equivalences added %s" % (
            sorted(sorted(e) for e in obs_edges), sorted(sorted(e) for e in edges)))
    comp = components(n, obs_edges)
    cc = cf.get("cc", "").split(",")
    for v in live:
        if v < len(cc) and cc[v] != str(comp[v]):
            problems.append("driver BFS label of %d is %s, union-find says %d" % (v, cc[v], comp[v]))
            break
    ans = cf["answers"].split(",") if cf["answers"] else []
    mans = mf["answers"].split(",") if mf["answers"] else []
    if len(ans) != len(g["qs"]):
        problems.append("%d answers for %d queries" % (len(ans), len(g["qs"])))
    for i, (a, b) in enumerate(g["qs"]):
        if i >= len(ans):
            break
        same = comp[a] == comp[b]
        exp = ("1" if (a != b and same) else "0") + ("1" if b in adj.get(a, []) else "0") + ("1" if (a == b or same) else "0")
        bad = []
        names = ("hasEquivalentVariable(v,true)", "hasEquivalentVariable(v,false)", "AnalyserModel::areEquivalentVariables")
        for j in range(3):
            if ans[i][j] != exp[j]:
                bad.append("ORACLE %s(v%d,v%d)=%s, connection graph says %s" % (names[j], a, b, ans[i][j], exp[j]))
        if i < len(mans) and mans[i] != ans[i]:
            bad.append("query %d (v%d,v%d): impl=%s model=%s" % (i, a, b, ans[i], mans[i]))
        if bad:
            if first is None:
                first = i
            if len(problems) < 6:
                problems += bad
    if len(mans) != len(ans):
        problems.append("model gave %d answers, implementation %d" % (len(mans), len(ans)))
    if mf.get("adj", "") != cf.get("adj", ""):
        problems.append("adjacency: impl=%s model=%s" % (cf.get("adj"), mf.get("adj")))
    return problems, first


# ----------------------------------------------------------------------------- histories (edits interleaved with questions)

IDOPS = "mcMC"


def ev_text(e):
    k = e[0]
    if k == "e":
        return "%d-%d" % (e[1], e[2])
    if k == "4":
        return "%d=%d" % (e[1], e[2])
    if k == "d":
        return "%d/%d" % (e[1], e[2])
    if k in "rx":
        return "%s%d" % (k, e[1])
    if k in IDOPS:
        return "%s%d:%d" % (k, e[1], e[2])
    if k in "PA":
        return k
    if k == "!":
        return "!%d:%d:%d" % (e[1], e[2], e[3])
    return "?%d:%d" % (e[1], e[2])


def hist_line(h):
    return "H %d %s %s%s" % (h["n"], h["layout"], ",".join(ev_text(e) for e in h["events"]) or "-",
                             " keep" if h.get("keep") else "")


def parse_hist(line):
    f = line.split(" ")
    evs = []
    if f[3] != "-":
        for t in f[3].split(","):
            if t[0] == "?":
                a, b = t[1:].split(":")
                evs.append(("?", int(a), int(b)))
            elif t[0] == "!":
                k, a, b = t[1:].split(":")
                evs.append(("!", int(k), int(a), int(b)))
            elif t[0] in "PA":
                evs.append((t[0], 0, 0))
            elif t[0] in IDOPS:
                a, b = t[1:].split(":")
                evs.append((t[0], int(a), int(b)))
            elif t[0] in "xr":
                evs.append((t[0], int(t[1:]), int(t[1:])))
            elif "/" in t:
                a, b = t.split("/")
                evs.append(("d", int(a), int(b)))
            elif "=" in t:
                a, b = t.split("=")
                evs.append(("4", int(a), int(b)))
            else:
                a, b = t.split("-")
                evs.append(("e", int(a), int(b)))
    return {"n": int(f[1]), "layout": f[2], "events": evs, "shape": "?", "keep": len(f) > 4 and f[4] == "keep"}


class Spec:
    """the connection graph by its definition, edit by edit (mirrors EquivSpec.spec_edge)"""

    def __init__(self, n):
        self.n = n
        self.dead = set()
        self.edges = set()
        self._comp = None

    def edit(self, e):
        k, a, b = e[0], e[1], e[2]
        if k in IDOPS or k in "PA":
            return        # identifier operations, re-parsing, taking a new AnalyserModel: the connection graph is unchanged
        self._comp = None
        if k in "e4":
            if a != b and a not in self.dead and b not in self.dead:
                self.edges.add(frozenset((a, b)))
        elif k == "d":
            self.edges.discard(frozenset((a, b)))
        elif k in "rx":
            self.edges = {x for x in self.edges if a not in x}
            if k == "x":
                self.dead.add(a)

    def comp(self):
        if self._comp is None:
            self._comp = components(self.n, self.edges)
        return self._comp

    def expected(self, a, b):
        c = self.comp()
        same = c[a] == c[b]
        return ("1" if (a != b and same) else "0") + ("1" if frozenset((a, b)) in self.edges else "0") + \
               ("1" if (a == b or same) else "0") * 2 + ("1" if same else "0")


def gen_history(rng, maxn):
    shape = rng.choice(SHAPES)
    n = rng.randint(2, min(5, maxn)) if rng.random() < 0.15 else rng.randint(3, maxn)
    vs = list(range(n))
    rng.shuffle(vs)
    if shape == "mixed":
        base, i = [], 0
        while i < n:
            k = rng.randint(1, max(1, n - i))
            base += shape_edges(rng, rng.choice(SHAPES[:5] + ["random", "isolated"]), vs[i:i + k])
            i += k
    else:
        base = shape_edges(rng, shape, vs[:n if rng.random() < 0.6 else rng.randint(1, n)])
    rng.shuffle(base)
    # layout first: it decides which edits make sense
    nedges = len(base) + 10
    if rng.random() < 0.55 and nedges <= 150:
        layout = "V:" + ",".join(str(v) for v in range(n))
    else:
        nc = rng.randint(1, n)
        layout = ("J:" if (n <= 12 and nedges <= 25) else "I:") + ",".join(str(rng.randrange(nc)) for _ in range(n))
    # keep: ONE Analyser for the whole history, analyseModel called again on it after edits.  It needs analyseModel to be
    # called at all (not layout I) and no destruction (the Analyser holds variables alive through its issues).
    keep = layout[0] != "I" and rng.random() < 0.4
    with_ids = rng.random() < 0.6
    can_reparse = layout[0] == "V" and not keep
    spec = Spec(n)
    events = []
    asked = []
    removed = []
    kinds = {}
    am = {"cur": -1, "dirty": True, "asked": {}, "n_old": 0}

    def do(e):
        events.append(e)
        spec.edit(e)
        am["dirty"] = True

    def take_am():
        am["cur"] += 1
        am["dirty"] = False
        am["asked"][am["cur"]] = []

    def pick_pair(live):
        """a pair for an identifier operation: direct, indirect, or anything"""
        r = rng.random()
        el = sorted(tuple(sorted(e)) for e in spec.edges)
        if r < 0.35 and el:
            a, b = rng.choice(el)
        else:
            a, b = rng.choice(live), rng.choice(live)
            if r < 0.8:
                comp = spec.comp()
                same = [v for v in live if comp[v] == comp[a] and v != a and frozenset((a, v)) not in spec.edges]
                if same:
                    b = rng.choice(same)           # indirectly equivalent
        return (a, b) if rng.random() < 0.5 else (b, a)

    def ask_round(touched):
        live = [v for v in range(n) if v not in spec.dead]
        if len(live) <= 5:
            qs = [(a, b) for a in live for b in live]
        else:
            qs = []
            old = [q for q in asked if q[0] not in spec.dead and q[1] not in spec.dead]
            k = min(3 * len(live), 60)
            qs += rng.sample(old, min(len(old), k // 2))                       # earlier pairs, asked again
            far = [v for v in live if v not in touched]
            for t in touched:                                                  # around the edit
                if t in live:
                    qs += [(t, rng.choice(live)), (rng.choice(live), t)]
            for _ in range(k - len(qs)):                                       # anywhere (mostly remote from the edit)
                pool = far if (far and rng.random() < 0.7) else live
                qs.append((rng.choice(pool), rng.choice(live)))
        rng.shuffle(qs)
        for q in qs:
            if am["dirty"]:
                take_am()
            events.append(("?", q[0], q[1]))
            am["asked"][am["cur"]].append(q)
            if q not in asked:
                asked.append(q)
        # OLD AnalyserModel objects (keep mode): only pairs that were asked on that object while it was the current one
        if keep and am["cur"] >= 1 and rng.random() < 0.7:
            for _ in range(rng.randint(1, 6)):
                k = rng.randrange(0, am["cur"])
                if am["asked"][k]:
                    a, b = rng.choice(am["asked"][k])
                    events.append(("!", k, a, b))
                    am["n_old"] += 1

    for a, b in base:
        if rng.random() < 0.5:
            a, b = b, a
        do(("4" if (with_ids and rng.random() < 0.6) else "e", a, b))
    if can_reparse and with_ids and rng.random() < 0.5:
        do(("P", 0, 0))                                                        # the model now comes from the parser
        kinds["reparse"] = kinds.get("reparse", 0) + 1
    ask_round(())
    for _ in range(rng.randint(3, 10)):
        live = [v for v in range(n) if v not in spec.dead]
        touched = []
        for _ in range(1 if rng.random() < 0.7 else rng.randint(2, 3)):
            live = [v for v in range(n) if v not in spec.dead]
            r = rng.random()
            el = sorted(tuple(sorted(e)) for e in spec.edges)
            a = b = 0
            if with_ids and r < 0.22 and live:
                a, b = pick_pair(live)
                do((rng.choice("mmccMC"), a, b))                               # identifier operation on some pair
                kind = "id-op"
            elif r < 0.47 and el:
                a, b = rng.choice(el)
                if rng.random() < 0.5:
                    a, b = b, a
                do(("d", a, b))
                removed.append((a, b))
                kind = "remove"
            elif r < 0.57 and removed:
                a, b = rng.choice(removed)                                     # put a removed equivalence back
                if rng.random() < 0.5:
                    a, b = b, a
                if a in spec.dead or b in spec.dead:
                    continue
                do(("4" if (with_ids and rng.random() < 0.5) else "e", a, b))
                kind = "re-add"
            elif r < 0.69 and len(live) >= 2:
                a, b = rng.sample(live, 2)
                do(("4" if (with_ids and rng.random() < 0.5) else "e", a, b))
                kind = "add"
            elif r < 0.80 and live:
                a = b = rng.choice(live)
                do(("r", a, a))
                kind = "removeAll"
            elif r < 0.87 and len(live) > 2 and not keep:
                a = b = rng.choice(live)
                do(("x", a, a))
                kind = "destroy"
            elif r < 0.91 and len(live) >= 2:
                a, b = rng.sample(live, 2)
                do(("d", a, b))                                                # mostly a non-existing equivalence
                kind = "remove(any)"
            elif r < 0.94 and can_reparse:
                do(("P", 0, 0))
                kind = "reparse"
            elif r < 0.97:
                events.append(("A", 0, 0))                                     # a new AnalyserModel although nothing changed
                take_am()
                kind = "re-analyse"
            elif live:
                a = rng.choice(live)
                b = rng.choice(live + sorted(spec.dead)) if rng.random() < 0.5 else a
                do(("e", a, b) if rng.random() < 0.7 else ("d", a, b))         # self / destroyed partner (nullptr)
                kind = "odd"
            else:
                continue
            kinds[kind] = kinds.get(kind, 0) + 1
            touched += [a, b]
        ask_round(tuple(touched))
    return {"n": n, "shape": shape, "layout": layout, "events": events, "edit_kinds": kinds, "keep": keep,
            "old_questions": am["n_old"]}


def large_history(rng, kind, m):
    """A SIZE case: one big connected part of about m variables (plus a linked pair and an isolated variable that have
    nothing to do with it), built in a shuffled order with shuffled names, a handful of sampled questions (ends of the
    chain, leaf to leaf across the hub, unrelated parts, both directions), then a remote edit and the same questions again."""
    core = []          # edges over 0..m-1
    probes = []        # interesting pairs inside the big part
    cut = None         # an edit in the middle of the big part
    if kind == "chain":
        core = [(i, i + 1) for i in range(m - 1)]
        probes = [(0, m - 1), (0, m // 2), (m // 3, 2 * m // 3), (1, m - 2)]
        cut = ("d", m // 2, m // 2 + 1)
    elif kind == "star":
        core = [(0, i) for i in range(1, m)]
        probes = [(1, m - 1), (m // 2, 2), (0, m - 1), (m // 3, 0)]
        cut = ("r", 0, 0)
    elif kind == "hub2":       # a hub mapped to k components, each passing it on to a child
        k = (m - 1) // 2
        core = [(0, 1 + i) for i in range(k)] + [(1 + i, 1 + k + i) for i in range(k)]
        m = 1 + 2 * k
        probes = [(1 + k, 2 * k), (1 + k + k // 2, 1 + k + 1), (0, 2 * k), (2 * k, 1)]
        cut = ("d", 0, 1 + k // 2)
    elif kind == "tree":       # complete binary tree
        core = [((i - 1) // 2, i) for i in range(1, m)]
        probes = [(m - 1, m // 2), (m - 1, m - 2), (0, m - 1), (m // 2 + 1, 0)]
        cut = ("d", 0, 2)
    elif kind == "barbell":    # two cliques of 20 joined by a long path
        c = 20
        path = m - 2 * c
        core = [(i, j) for i in range(c) for j in range(i + 1, c)]
        core += [(c + path + i, c + path + j) for i in range(c) for j in range(i + 1, c)]
        core += [(c - 1 + i, c + i) for i in range(path + 1)]
        probes = [(0, m - 1), (m - 2, 1), (c + path // 2, 3), (5, c + path + 7)]
        cut = ("d", c + path // 2, c + path // 2 + 1)
    else:
        raise ValueError(kind)
    n = m + 3
    p, q, iso = m, m + 1, m + 2
    perm = list(range(n))
    rng.shuffle(perm)
    edges = core + [(p, q)]
    rng.shuffle(edges)
    events = []
    for a, b in edges:
        if rng.random() < 0.5:
            a, b = b, a
        events.append(("e", perm[a], perm[b]))
    qs = []
    for a, b in probes:
        qs += [(a, b), (b, a)]
    qs += [(probes[0][0], p), (q, probes[0][1]), (p, q), (iso, probes[1][0]), (probes[1][1], iso), (iso, iso), (probes[0][0], probes[0][0])]
    qs += [(rng.randrange(m), rng.randrange(m)) for _ in range(4)]

    def ask():
        rng.shuffle(qs)
        for a, b in qs:
            events.append(("?", perm[a], perm[b]))
    ask()
    events.append((cut[0], perm[cut[1]], perm[cut[2]]))        # a remote edit inside the big part
    ask()
    if cut[0] == "d":
        events.append(("e", perm[cut[2]], perm[cut[1]]))       # and back
        ask()
    return {"n": n, "shape": "large-" + kind, "layout": "I:" + ",".join("0" for _ in range(n)), "events": events,
            "edit_kinds": {"large": 1}, "keep": False}


def large_histories(rng, quick):
    sizes = [("chain", 300), ("star", 300), ("hub2", 301), ("tree", 511), ("barbell", 140)]
    if not quick:
        sizes += [("chain", 1000), ("star", 1200), ("hub2", 1001), ("tree", 1023), ("barbell", 640), ("chain", 1500), ("tree", 1500)]
    return [large_history(rng, k, m) for k, m in sizes]


def judge_history(h, c, m):
    """returns (problems, index (in events) of the first failing question or None)"""
    if c.startswith(BAD_TOKENS):
        return ["implementation: %s" % c], None
    if m.startswith(BAD_TOKENS) or not m:
        return ["model driver: %s" % m], None
    cf, mf = fields(c), fields(m)
    ans = cf["answers"].split(",") if cf["answers"] else []
    mans = mf["answers"].split(",") if mf["answers"] else []
    oldans = cf.get("old", "")
    spec = Spec(h["n"])
    problems = []
    first = None
    qi = 0
    oi = 0
    names = ("hasEquivalentVariable(v,true)", "hasEquivalentVariable(v,false)", "areEquivalentVariables [utilities]",
             "AnalyserModel::areEquivalentVariables", "driver BFS over equivalentVariable(i)")
    last_edit = None
    snapshots = []       # component labels of the graph when each AnalyserModel was taken
    dirty = True
    for ei, e in enumerate(h["events"]):
        if e[0] == "A":
            snapshots.append(list(spec.comp()))
            dirty = False
            continue
        if e[0] == "!":
            # an OLD AnalyserModel (documented as a snapshot of the model): the pair was asked on it while it was current.
            # Accepted: the snapshot's answer (what the cache holds) or the current graph's answer; anything else is wrong.
            k, a, b = e[1], e[2], e[3]
            got = oldans[oi:oi + 1]
            oi += 1
            if k < len(snapshots):
                snap = "1" if (a == b or snapshots[k][a] == snapshots[k][b]) else "0"
                cur = "1" if (a == b or spec.comp()[a] == spec.comp()[b]) else "0"
                if got not in (snap, cur):
                    if first is None:
                        first = ei
                    problems.append("ORACLE old AnalyserModel #%d answers %s for (v%d,v%d); its snapshot says %s, the current graph %s" % (
                        k, got, a, b, snap, cur))
            continue
        if e[0] != "?":
            spec.edit(e)
            last_edit = ev_text(e)
            dirty = True
            continue
        if dirty:
            snapshots.append(list(spec.comp()))
            dirty = False
        if qi >= len(ans):
            break
        a, b = e[1], e[2]
        exp = spec.expected(a, b)
        bad = []
        for j in range(5):
            if ans[qi][j:j + 1] != exp[j]:
                bad.append("ORACLE %s(v%d,v%d)=%s after edit [%s], the current connection graph says %s" % (
                    names[j], a, b, ans[qi][j:j + 1], last_edit, exp[j]))
        if qi < len(mans) and mans[qi] != ans[qi][:4]:
            bad.append("question %d (v%d,v%d): impl=%s model=%s" % (qi, a, b, ans[qi][:4], mans[qi]))
        if bad:
            if first is None:
                first = ei
            if len(problems) < 6:
                problems += bad
        qi += 1
    nq = sum(1 for e in h["events"] if e[0] == "?")
    if len(ans) != nq:
        problems.append("%d answers for %d questions" % (len(ans), nq))
    if len(mans) != len(ans):
        problems.append("model gave %d answers, implementation %d" % (len(mans), len(ans)))
    # final lists
    adj = {}
    for item in cf.get("adj", "").split(";"):
        if item:
            k, l = item.split(":")
            adj[int(k)] = [int(x) for x in l.split(".")] if l else []
    obs = {frozenset((k, w)) for k, l in adj.items() for w in l}
    if obs != spec.edges:
        problems.append("final equivalentVariable lists %s differ from the equivalences in force %s" % (
            sorted(sorted(e) for e in obs), sorted(sorted(e) for e in spec.edges)))
    if sorted(adj) != [v for v in range(h["n"]) if v not in spec.dead]:
        problems.append("live variables observed %s" % sorted(adj))
    if mf.get("adj", "") != cf.get("adj", ""):
        problems.append("final adjacency: impl=%s model=%s" % (cf.get("adj"), mf.get("adj")))
    return problems, first


def shrink_history(drv, mdl, workdir, h, first, budget=150):
    def fails(x):
        c, m = run_one(drv, mdl, workdir, hist_line(x), "shrink")
        return bool(judge_history(x, c, m)[0])
    cur = dict(h)
    # questions to old AnalyserModel objects name them by index, which shifts when events are dropped: try without them first
    if any(e[0] == "!" for e in cur["events"]):
        x = dict(cur, events=[e for e in cur["events"] if e[0] != "!"])
        budget -= 1
        if fails(x):
            cur = x
            first = None
        else:
            return cur        # the failure is about an old object: keep the history as it is
    if first is not None and first + 1 < len(cur["events"]):
        x = dict(cur, events=cur["events"][:first + 1])
        budget -= 1
        if fails(x):
            cur = x
    # questions first (keep the last one), then edits
    for want_q in (True, False):
        i = len(cur["events"]) - 2
        while i >= 0 and budget > 0:
            if (cur["events"][i][0] == "?") == want_q:
                x = dict(cur, events=cur["events"][:i] + cur["events"][i + 1:])
                budget -= 1
                if fails(x):
                    cur = x
            i -= 1
    return cur


def run_one(drv, mdl, workdir, line, tag="one"):
    p = os.path.join(workdir, "%s.cases" % tag)
    with open(p, "w") as f:
        f.write(line + "\n")
    c = vf.sh([drv, p, PER_CASE[0]], timeout=120)[1].split("\n")[0].strip()
    m = vf.sh([mdl, p], timeout=120)[1].split("\n")[0].strip()
    return c, m


def shrink(drv, mdl, workdir, g, first, budget=120):
    """greedy structural shrinking; every candidate is re-run through both drivers"""
    def fails(h):
        c, m = run_one(drv, mdl, workdir, case_line(h), "shrink")
        pr, fi = judge_graph(h, c, m)
        return bool(pr), fi
    cur = dict(g)
    if first is not None and first + 1 < len(cur["qs"]):
        h = dict(cur, qs=cur["qs"][:first + 1])
        ok, _ = fails(h)
        budget -= 1
        if ok:
            cur = h
    for key in ("qs", "ops"):
        i = len(cur[key]) - (2 if key == "qs" else 1)
        while i >= 0 and budget > 0:
            h = dict(cur, **{key: cur[key][:i] + cur[key][i + 1:]})
            # queries must stay on existing variables: dropping ops never destroys more
            budget -= 1
            if fails(h)[0]:
                cur = h
            i -= 1
    return cur


def run_sharded(exe, files, timeout, tag, extra=()):
    """one process per shard, all at once; output goes to files so that no process waits on a full pipe"""
    procs = []
    for p in files:
        out = open(p + "." + tag + ".out", "wb")
        procs.append((subprocess.Popen([exe, p] + list(extra), stdout=out, stderr=subprocess.DEVNULL), out, p + "." + tag + ".out"))
    outs = []
    for pr, out, path in procs:
        try:
            pr.wait(timeout=timeout)
        except subprocess.TimeoutExpired:
            pr.kill()
            pr.wait()
        out.close()
        outs.append(open(path, "rb").read().decode("utf-8", "replace").split("\n"))
        os.remove(path)
    return outs


def run(ctx):
    quick = ctx.quick()
    PER_CASE[0] = "10" if quick else "30"
    ctx.proofs()
    ctx.assumptions += [
        "distinct live Variable objects have distinct addresses, and no variable is destroyed and another allocated at the same address "
        "during the lifetime of one AnalyserModel cache (the model's addr is injective)",
        "A-mem: shared_ptr/weak_ptr semantics as modelled (a destroyed variable's entries expire and are skipped by equivalentVariable(i)); "
        "queries are made with non-null pointers (null arguments belong to C09)",
        "std::map<std::pair<uintptr_t,uintptr_t>,bool>::find/emplace behave as an association list with exact pair equality",
        "the model's search recursion is driven by fuel = number of variables (proved sufficient); the C++ recursion depth is bounded by "
        "the same number, stack exhaustion for models with ~10^5 variables in one equivalence class is outside the model",
    ]
    build = vf.build_repo("plain")
    drv = vf.compile_driver(build, os.path.join(vf.ROOT, "harness/c18_driver.cpp"))
    mdl = vf.ocaml_driver("equiv")

    # ------------------------------------------------------------------ (b) key probe
    pairs, kinds, ncol = gen_key_pairs(ctx.rng, 150 if quick else 1500, 2500 if quick else 25000)
    keyinfo = run_key_probe(ctx, drv, mdl, pairs, kinds)

    # ------------------------------------------------------------------ (a) graphs
    ngraphs, maxn = (200, 12) if quick else (5000, 40)
    lines = []
    corpus = os.path.join(vf.ROOT, "corpus", "C18.txt")
    if os.path.exists(corpus):
        lines += [l.strip() for l in open(corpus) if l.startswith("G ")]
    ncorpus = len(lines)
    graphs = [parse_case(l) for l in lines]
    # always present: pairwise-connected sets with an unrelated variable, every pair asked (the negative questions make the
    # search visit the whole clique; a search that does not share its visited list needs (N-1)! steps for them)
    for cn in ((12, 14) if quick else (12, 14, 20, 30)):
        vs = list(range(cn))
        g = {"n": cn + 2, "shape": "clique+unrelated", "layout": "I:" + ",".join("0" for _ in range(cn + 2)),
             "ops": [("e", a, b) for a, b in shape_edges(ctx.rng, "clique", vs)] + [("e", cn, cn + 1)],
             "qs": [(cn, 0), (0, cn), (cn + 1, cn - 1), (cn - 1, cn + 1)] + [(a, b) for a in range(cn + 2) for b in range(cn + 2)]}
        graphs.append(g)
        lines.append(case_line(g))
    for _ in range(ngraphs):
        g = gen_graph(ctx.rng, maxn)
        graphs.append(g)
        lines.append(case_line(g))
    nsh = min(vf.NCPU, max(1, len(lines) // 4))
    files = []
    for k in range(nsh):
        p = os.path.join(ctx.workdir, "graph.%d.cases" % k)
        with open(p, "w") as f:
            for l in lines[k::nsh]:
                f.write(l + "\n")
        files.append(p)
    couts = run_sharded(drv, files, 3000, "impl", [PER_CASE[0]])
    mouts = run_sharded(mdl, files, 3000, "model")
    hist = {"shape": {}, "n": {}, "layout": {"V": 0, "I": 0, "J": 0}, "with_destroyed": 0, "analysed(am!=INVALID)": 0,
            "answers_true": 0, "answers_false": 0}
    nontrivial = set()
    nq = 0
    nbad = 0
    failing = []
    for k in range(nsh):
        idxs = list(range(k, len(lines), nsh))
        for j, gi in enumerate(idxs):
            g, line = graphs[gi], lines[gi]
            c = couts[k][j].strip() if j < len(couts[k]) else "<missing>"
            m = mouts[k][j].strip() if j < len(mouts[k]) else "<missing>"
            problems, first = judge_graph(g, c, m)
            nq += 3 * len(g["qs"])
            hist["shape"][g["shape"]] = hist["shape"].get(g["shape"], 0) + 1
            b = "%d-%d" % (g["n"] // 5 * 5, g["n"] // 5 * 5 + 4)
            hist["n"][b] = hist["n"].get(b, 0) + 1
            hist["layout"][g["layout"][0]] += 1
            dead, edges = expected_edges(g)
            if dead:
                hist["with_destroyed"] += 1
            cf = fields(c)
            if cf.get("am") not in (None, "3", "0"):
                hist["analysed(am!=INVALID)"] += 1
            for a in cf["answers"].split(","):
                if a[:1] == "1" or a[2:3] == "1":
                    hist["answers_true"] += 1
                elif a:
                    hist["answers_false"] += 1
            if edges and len(g["qs"]) >= 2:
                nontrivial.add(hashlib.sha1(line.encode()).hexdigest())
            if problems:
                failing.append((gi, c, m, problems, first))
    # report up to three failing cases, wrong answers before crashes / time-outs, small graphs first; each is shrunk
    failing.sort(key=lambda t: (t[1].startswith(BAD_TOKENS), graphs[t[0]]["n"], len(lines[t[0]])))
    for gi, c, m, problems, first in failing[:3]:
        nbad += 1
        g, line = graphs[gi], lines[gi]
        small = shrink(drv, mdl, ctx.workdir, g, first, budget=(2 if c.startswith(SLOW_TOKENS) else 120))
        sl = case_line(small)
        sc, sm = run_one(drv, mdl, ctx.workdir, sl, "min")
        sp, sfirst = judge_graph(small, sc, sm)
        if not sp:      # shrinking lost the failure (should not happen): keep the original
            sl, sc, sm, sp, sfirst = line, c, m, problems, first
        ctx.violation("C18 graph (%s, n=%d): %s" % (g["shape"], g["n"], "; ".join(sp[:3])), "graph_%d.json" % nbad,
                      {"mode": "graph", "case": sl, "impl": sc, "model": sm, "problems": sp,
                       "first_failing_query": (small["qs"][sfirst] if sfirst is not None and sfirst < len(small["qs"]) else None),
                       "original_case": line, "failing_cases_in_this_run": len(failing)})
    ctx.cov["evaluations"] += nq

    # ------------------------------------------------------------------ (c) histories: edits interleaved with questions
    nhist, hmaxn = (150, 12) if quick else (3000, 40)
    hlines = [l.strip() for l in open(corpus) if l.startswith("H ")] if os.path.exists(corpus) else []
    nhcorpus = len(hlines)
    hists = [parse_hist(l) for l in hlines]
    for _ in range(nhist):
        h = gen_history(ctx.rng, hmaxn)
        hists.append(h)
        hlines.append(hist_line(h))
    nsh = min(vf.NCPU, max(1, len(hlines) // 4))
    shard_idx = [list(range(k, len(hlines), nsh)) for k in range(nsh)]
    # the SIZE dimension: a few large connected parts (hundreds to ~2000 variables), sampled questions; one shard each,
    # because the extracted model (unary numbers, lists) needs seconds to minutes for them
    for h in large_histories(ctx.rng, quick):
        hists.append(h)
        hlines.append(hist_line(h))
        shard_idx.append([len(hlines) - 1])
    nsh = len(shard_idx)
    files = []
    for k in range(nsh):
        p = os.path.join(ctx.workdir, "hist.%d.cases" % k)
        with open(p, "w") as f:
            for i in shard_idx[k]:
                f.write(hlines[i] + "\n")
        files.append(p)
    couts = run_sharded(drv, files, 3000, "impl", [PER_CASE[0]])
    mouts = run_sharded(mdl, files, 3000, "model")
    hhist = {"shape": {}, "layout": {"V": 0, "I": 0, "J": 0}, "edit_kinds": {}, "edits": 0, "questions": 0,
             "questions_asked_again_after_an_edit": 0, "answers_that_changed_when_asked_again": 0}
    hfailing = []
    hnontrivial = set()
    for k in range(nsh):
        for j, hi in enumerate(shard_idx[k]):
            h, line = hists[hi], hlines[hi]
            c = couts[k][j].strip() if j < len(couts[k]) else "<missing>"
            m = mouts[k][j].strip() if j < len(mouts[k]) else "<missing>"
            problems, first = judge_history(h, c, m)
            hhist["shape"][h["shape"]] = hhist["shape"].get(h["shape"], 0) + 1
            hhist["layout"][h["layout"][0]] += 1
            hhist["largest_n"] = max(hhist.get("largest_n", 0), h["n"])
            for kk, v in h.get("edit_kinds", {}).items():
                hhist["edit_kinds"][kk] = hhist["edit_kinds"].get(kk, 0) + v
            ans = fields(c)["answers"].split(",") if not c.startswith(BAD_TOKENS) else []
            seen, qi, edits_since = {}, 0, 0
            if h.get("keep"):
                hhist["keep_one_analyser"] = hhist.get("keep_one_analyser", 0) + 1
            hhist["old_analysermodel_questions"] = hhist.get("old_analysermodel_questions", 0) + sum(1 for e in h["events"] if e[0] == "!")
            for e in h["events"]:
                if e[0] == "!":
                    continue
                if e[0] != "?":
                    hhist["edits"] += 1
                    edits_since += 1
                    continue
                hhist["questions"] += 1
                q = (e[1], e[2])
                if q in seen and seen[q][1] != edits_since:
                    hhist["questions_asked_again_after_an_edit"] += 1
                    if qi < len(ans) and ans[qi] != seen[q][0]:
                        hhist["answers_that_changed_when_asked_again"] += 1
                seen[q] = (ans[qi] if qi < len(ans) else None, edits_since)
                qi += 1
            if any(e[0] in "drxmcMCP" for e in h["events"]) and qi >= 2:
                hnontrivial.add(hashlib.sha1(line.encode()).hexdigest())
            if problems:
                hfailing.append((hi, c, m, problems, first))
    hfailing.sort(key=lambda t: (t[1].startswith(BAD_TOKENS), len(hlines[t[0]])))
    for hi, c, m, problems, first in hfailing[:3]:
        nbad += 1
        h, line = hists[hi], hlines[hi]
        small = shrink_history(drv, mdl, ctx.workdir, h, first, budget=(2 if c.startswith(SLOW_TOKENS) else (30 if h["n"] > 100 else 150)))
        sl = hist_line(small)
        sc, sm = run_one(drv, mdl, ctx.workdir, sl, "min")
        sp, sfirst = judge_history(small, sc, sm)
        if not sp:
            sl, sc, sm, sp = line, c, m, problems
        ctx.violation("C18 history (%s, n=%d): %s" % (h["shape"], h["n"], "; ".join(sp[:3])), "history_%d.json" % nbad,
                      {"mode": "history", "case": sl, "impl": sc, "model": sm, "problems": sp, "original_case": line,
                       "failing_cases_in_this_run": len(hfailing)})
    ctx.cov["evaluations"] += 4 * hhist["questions"]
    ctx.log("histories: %d (+%d corpus), %s" % (nhist, nhcorpus, hhist))
    ctx.log("graphs: %d (+%d corpus), %d query evaluations, %s" % (ngraphs, ncorpus, nq, {k: v for k, v in hist.items() if k != "n"}))
    ctx.cov["distinct_nontrivial"] = len(nontrivial) + len(hnontrivial) + (keyinfo or {}).get("distinct_unordered_pairs", 0)
    ctx.cov["rule"] = ("graphs: a case is one construction history (Variable::addEquivalence calls incl. repeated / reversed / self "
                       "equivalences, destruction of variables) over <= %d variables in shapes %s, with EVERY ordered pair of surviving "
                       "variables (also v,v) queried through the three functions in a shuffled order with ~1/3 repetitions; non-trivial = "
                       "at least one equivalence survives and at least two queries; distinct by the text of the case (measured: %d). "
                       "always: cliques of 12 and 14 (thorough: to 30) plus an unrelated pair, all pairs (negative questions explore the whole clique; each "
                       "question has a 5 s budget, token SLOW); large connected parts (chain 300, star 300, hub with 2x150, binary tree 511, two cliques "
                       "joined by a path; thorough also ~1000-2000 variables) with sampled questions before and after a remote edit. "
                       "histories: a case is a sequence of edits (addEquivalence, removeEquivalence, removeAllEquivalences, destruction of a "
                       "variable, re-adding a removed equivalence, 4-argument addEquivalence with identifiers, set/remove mapping and connection identifiers "
                       "on direct / indirect / unrelated pairs, print+re-parse of the model, no-op/odd calls) interleaved with questions; 40 %% of the "
                       "histories keep ONE Analyser and call analyseModel on it again after edits (the others take a fresh Analyser), some also ask "
                       "OLD AnalyserModel objects pairs they were asked before; after EVERY edit earlier pairs are "
                       "asked again (plus pairs around the edit and pairs remote from it) through hasEquivalentVariable(v,true/false), the "
                       "utility areEquivalentVariables and AnalyserModel::areEquivalentVariables on an AnalyserModel taken after the edit; "
                       "non-trivial = at least one removing edit and two questions; distinct by text (measured: %d). "
                       "key probe: pairs of addresses fed to the library's key function through the guarded hook; non-trivial = the two "
                       "addresses differ; distinct by unordered pair (measured: %d), among them %d groups that collide under the old "
                       "64-bit Cantor formula" % (maxn, "/".join(SHAPES), len(nontrivial), len(hnontrivial), (keyinfo or {}).get("distinct_unordered_pairs", 0),
                                                  (keyinfo or {}).get("old_key_collision_groups", 0)))
    ctx.cov["samples"] = [lines[ncorpus][:300], lines[-1][:300], hlines[nhcorpus][:400], hlines[-1][:400], "K %x %x" % pairs[0], "K %x %x" % pairs[5], "K %x %x" % pairs[-1]]
    ctx.cov["input_distribution"] = {"graphs": hist, "histories": hhist, "key_probe": keyinfo}
    ctx.cov["traces_validated_against_impl"] = len(lines) + len(hlines) + len(pairs)


def replay(ctx, path):
    r = json.load(open(path))
    build = vf.build_repo("plain")
    drv = vf.compile_driver(build, os.path.join(vf.ROOT, "harness/c18_driver.cpp"))
    mdl = vf.ocaml_driver("equiv")
    cases = r["cases"] if r.get("mode") == "key" else [r["case"]]
    for i, line in enumerate(cases):
        c, m = run_one(drv, mdl, ctx.workdir, line, "replay")
        print("case :", line)
        print("impl :", c)
        print("model:", m)
        if line.startswith("G "):
            pr, first = judge_graph(parse_case(line), c, m)
            print("judge:", pr or "property holds on this case")
        if line.startswith("H "):
            pr, first = judge_history(parse_hist(line), c, m)
            print("judge:", pr or "property holds on this case")
    if r.get("mode") == "key" and len(cases) == 2:
        print("(two different pairs of addresses; the property needs their keys to differ)")
