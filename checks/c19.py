"""C19 — model repair helpers establish what they promise (fixVariableInterfaces, linkUnits/hasUnlinkedUnits, clean).

proofs : Properties_C19.v (IfaceDefs/IfaceSpec/IfaceProofs): post-conditions of the three helpers over every model
tie    : harness/c19_driver.cpp builds each generated model through the public API, dumps its identity-based state,
         runs each helper on a fresh copy and dumps again; the extracted model (ocaml/iface) starts from the same
         dumped state; return values, states after, and the Validator's interface/equivalence issues are compared
search : the property's clauses re-implemented here (python, from the component positions alone — no loop, no early
         exit) and evaluated on the implementation's before/after states and public-getter dumps
"""
import copy
import json
import os
import random
import re
import subprocess

import vf
import c19_models as G

FIXED = True          # the tree is expected to carry fixes/C19-interface-early-exit.diff
FINDING = "C19-interface-early-exit"
FINDING_READD = "C19-readded-units-lose-parent"


def standard_names():
    from script_gen import STANDARD_UNITS
    return set(STANDARD_UNITS)


# ------------------------------------------------------------------------------------------------ state format

def unhex(t):
    assert t[0] == "s", t
    return bytes.fromhex(t[1:]).decode("latin-1")


class Reader:
    def __init__(self, text):
        self.t = text.split()
        self.i = 0

    def next(self):
        x = self.t[self.i]
        self.i += 1
        return x

    def expect(self, w):
        x = self.next()
        if x != w:
            raise ValueError("expected %s got %s" % (w, x))

    def opt(self):
        x = self.next()
        return None if x == "-" else int(x)


def parse_state(text):
    r = Reader(text)
    r.expect("M")
    st = {"M": int(r.next()), "heap": {}, "heap_order": [], "L": [], "comps": [], "X": {}}
    r.expect("H")
    for _ in range(int(r.next())):
        tag = int(r.next())
        st["heap"][tag] = {"name": unhex(r.next()), "id": unhex(r.next()), "n": int(r.next()), "imp": r.next() == "1",
                           "owner": r.opt()}
        st["heap_order"].append(tag)
    r.expect("L")
    st["L"] = [int(r.next()) for _ in range(int(r.next()))]

    def comp():
        r.expect("c")
        c = {"tag": int(r.next()), "name": unhex(r.next()), "id": unhex(r.next()), "math": unhex(r.next()),
             "resets": int(r.next()), "imp": r.next() == "1", "vars": [], "kids": []}
        for _ in range(int(r.next())):
            r.expect("v")
            v = {"tag": int(r.next()), "iface": unhex(r.next())}
            v["eqs"] = [int(r.next()) for _ in range(int(r.next()))]
            v["units"] = r.opt()
            c["vars"].append(v)
        for _ in range(int(r.next())):
            c["kids"].append(comp())
        return c
    r.expect("C")
    st["comps"] = [comp() for _ in range(int(r.next()))]
    r.expect("X")
    for _ in range(int(r.next())):
        tag = int(r.next())
        c = r.opt()
        p = r.opt()
        st["X"][tag] = (c, p)
    st["others"] = []
    st["classes"] = {}
    if r.i < len(r.t):
        r.expect("O")
        for _ in range(int(r.next())):
            mt = int(r.next())
            st["others"].append((mt, [int(r.next()) for _ in range(int(r.next()))]))
        r.expect("Q")
        for _ in range(int(r.next())):
            t = int(r.next())
            st["classes"][t] = int(r.next())
    if r.i != len(r.t):
        raise ValueError("trailing tokens")
    return st


def core(state_text):
    """the part of a state the helpers can change (everything before the other models' lists)"""
    return state_text.split(" O ")[0]


def ownership_text(results, st):
    """same projection as ocaml/iface/driver.ml pr_own: results | tag=owner ... | model=[list] ..."""
    h = "".join(" %d=%s" % (t, "-" if st["heap"][t]["owner"] is None else st["heap"][t]["owner"]) for t in st["heap_order"])
    ms = [(st["M"], st["L"])] + st["others"]
    return "%s |%s |%s" % (results, h, "".join(" %d=[%s]" % (m, ",".join(map(str, l))) for m, l in ms))


def history_of(script):
    parts = script.split(";ops;")
    return parts[1] if len(parts) > 1 else ""


def occurrences(st):
    """[(parent entity tag, comp dict, var dict)] pre-order"""
    out = []

    def walk(c, p):
        for v in c["vars"]:
            out.append((p, c, v))
        for k in c["kids"]:
            walk(k, c["tag"])
    for c in st["comps"]:
        walk(c, st["M"])
    return out


# ------------------------------------------------------------------------------------------------ the property, clause by clause

VALID_IFACES = ("none", "public", "private", "public_and_private")


def relation(pos, cv, pv, e):
    """'pub' | 'priv' | 'orphan' | 'far' : what the equivalence v~e asks of v (v in component cv whose parent is pv)"""
    if e not in pos or pos[e][0] is None:
        return "orphan"
    ce, pe = pos[e]
    if pe is not None and pe == pv:
        return "pub"            # siblings (or the same component)
    if ce == pv:
        return "pub"            # e's component is the parent of v's component
    if pe is not None and pe == cv:
        return "priv"           # e's component is a child of v's component
    return "far"


def covers(iface, needs):
    if iface == "public_and_private":
        return True
    if needs == {"pub"}:
        return iface == "public"
    if needs == {"priv"}:
        return iface == "private"
    return False


def check_fix(s0, ret, s1, val, problems):
    occ0, occ1 = occurrences(s0), occurrences(s1)
    pos = {}
    for p, c, v in reversed(occ0):
        pos[v["tag"]] = (c["tag"], p)
    for t, cp in s0["X"].items():
        if t not in pos:
            pos[t] = cp
    # frame: nothing but interface strings may differ
    a, b = copy.deepcopy(s0), copy.deepcopy(s1)
    for st in (a, b):
        for _, _, v in occurrences(st):
            v["iface"] = "*"
    if a != b:
        problems.append("fix_frame: fixVariableInterfaces changed something other than interface attributes")
        return
    any_bad = False
    bad_pairs = set()
    for (p, c, v0), (_, _, v1) in zip(occ0, occ1):
        rels = [relation(pos, c["tag"], p, e) for e in v0["eqs"]]
        bad = [e for e, r in zip(v0["eqs"], rels) if r in ("orphan", "far")]
        if not v0["eqs"]:
            if v1["iface"] != v0["iface"]:
                problems.append("fix_unchanged: variable %d has no equivalences but its interface changed" % v0["tag"])
            continue
        if bad:
            any_bad = True
            if not c["imp"]:
                for e in bad:
                    bad_pairs.add(frozenset((v0["tag"], e)))
            if v1["iface"] != v0["iface"]:
                problems.append("fix_unchanged: variable %d has an impossible equivalence but its interface changed" % v0["tag"])
            if ret:
                problems.append("fix_false_iff/fix_true_sufficient: returned true although variable %d is equivalent to %s (%s)"
                                % (v0["tag"], bad, [r for r in rels if r in ("orphan", "far")]))
            continue
        needs = set(rels)
        if not covers(v1["iface"], needs):
            problems.append("fix_others_still_fixed: variable %d needs %s, has %r after the call (returned %s)"
                            % (v0["tag"], sorted(needs), v1["iface"], ret))
        if v0["iface"] in VALID_IFACES and covers(v0["iface"], needs) and v1["iface"] != v0["iface"]:
            problems.append("fix_unchanged_when_sufficient: variable %d had %r (sufficient for %s), now %r"
                            % (v0["tag"], v0["iface"], sorted(needs), v1["iface"]))
    if ret == any_bad:
        problems.append("fix_false_iff: returned %s, impossible equivalence present: %s" % (ret, any_bad))
    # the validator on the result
    toks = [] if val == "none" else val.split()
    if ret and toks:
        problems.append("fix_true_sufficient: returned true but the validator still reports %s" % val)
    reported = set()
    for t in toks:
        if t[0] in "UN":
            x, y = t[1:].split(".")
            reported.add(frozenset((int(x), int(y))))
        elif t[0] == "I":
            problems.append("fix_others_still_fixed: validator reports a wrong interface on variable %s after the call" % t[1:])
        else:
            problems.append("unexpected validator item %s" % t)
    if reported != bad_pairs:
        problems.append("validator reports %s, impossible equivalences are %s" % (sorted(map(sorted, reported)), sorted(map(sorted, bad_pairs))))


def check_link(s0, ret, hu0, hu1, s1, problems, std):
    occ0, occ1 = occurrences(s0), occurrences(s1)
    a, b = copy.deepcopy(s0), copy.deepcopy(s1)
    for st in (a, b):
        for _, _, v in occurrences(st):
            v["units"] = "*"
    if a != b:
        problems.append("link_frame: linkUnits changed something other than the units held by variables")
        return
    M = s0["M"]
    heap = s0["heap"]

    def nonstd(u):
        return not (u["n"] == 0 and u["name"] in std)

    def unlinked(st):
        return any(v["units"] is not None and nonstd(st["heap"][v["units"]]) and st["heap"][v["units"]]["owner"] != M
                   for _, _, v in occurrences(st))
    all_ok = True
    for (p, c, v0), (_, _, v1) in zip(occ0, occ1):
        t0, t1 = v0["units"], v1["units"]
        if t0 is None:
            if t1 is not None:
                problems.append("link_identity: variable %d had no units, now holds %s" % (v0["tag"], t1))
            continue
        u = heap[t0]
        if u["owner"] == M or (u["owner"] is None and not nonstd(u)):
            exp, ok = t0, True
        elif u["owner"] is None:
            cands = [t for t in s0["L"] if heap[t]["name"] == u["name"]]
            exp, ok = (cands[0], True) if cands else (t0, False)
        else:
            exp, ok = t0, False
        all_ok = all_ok and ok
        if t1 != exp:
            problems.append("link_identity: variable %d held units object %d (%r), expected %s afterwards, holds %s"
                            % (v0["tag"], t0, u["name"], exp, t1))
        if ret and t1 is not None and nonstd(s1["heap"][t1]):
            u1 = s1["heap"][t1]
            if t1 not in s1["L"] or u1["owner"] != M or u1["name"] != u["name"]:
                problems.append("link_true_post: linkUnits returned true but variable %d names %r and holds object %s which is not the model's own units of that name"
                                % (v0["tag"], u["name"], t1))
    if ret != all_ok:
        problems.append("link return value %s, every variable linkable: %s" % (ret, all_ok))
    if ret and hu1:
        problems.append("link_true_post: linkUnits returned true and hasUnlinkedUnits is still true")
    if hu0 != unlinked(s0) or hu1 != unlinked(s1):
        problems.append("hasUnlinkedUnits %s/%s, by definition %s/%s" % (hu0, hu1, unlinked(s0), unlinked(s1)))


def check_clean(s0, s1, problems):
    def empty(c):
        return (c["name"] == "" and c["id"] == "" and c["resets"] == 0 and not c["vars"] and c["math"] == ""
                and not c["imp"] and all(empty(k) for k in c["kids"]))

    def prune(c):
        d = dict(c)
        d["kids"] = [prune(k) for k in c["kids"] if not empty(k)]
        return d
    exp = copy.deepcopy(s0)
    exp["comps"] = [prune(c) for c in s0["comps"] if not empty(c)]
    gone = [t for t in s0["L"] if s0["heap"][t]["name"] == "" and s0["heap"][t]["id"] == "" and s0["heap"][t]["n"] == 0
            and not s0["heap"][t]["imp"]]
    exp["L"] = [t for t in s0["L"] if t not in gone]
    for t in gone:
        exp["heap"][t]["owner"] = None
    got = s1
    if got["comps"] != exp["comps"]:
        problems.append("clean_removes_exactly_empty/clean_frame: component tree after clean() is not the tree without its empty components")
    if got["L"] != exp["L"]:
        problems.append("clean_removes_exactly_empty: units list after clean() is %s, expected %s" % (got["L"], exp["L"]))
    if got["heap"] != exp["heap"] or got["X"] != exp["X"] or got["M"] != exp["M"]:
        problems.append("clean_frame: clean() changed a units object / outside variable it should not touch")


# ---- frame on the public-getter dumps (dump.hpp): tiny S-expression reader

def sexp(text):
    i, n = 0, len(text)
    stack = [[]]
    while i < n:
        ch = text[i]
        if ch == "(":
            stack.append([])
            i += 1
        elif ch == ")":
            x = stack.pop()
            stack[-1].append(x)
            i += 1
        elif ch == '"':
            j = i + 1
            buf = []
            while text[j] != '"':
                if text[j] == "\\":
                    buf.append(text[j:j + 2])
                    j += 2
                else:
                    buf.append(text[j])
                    j += 1
            stack[-1].append('"' + "".join(buf) + '"')
            i = j + 1
        elif ch == " ":
            i += 1
        else:
            j = i
            while j < n and text[j] not in ' ()"':
                j += 1
            stack[-1].append(text[i:j])
            i = j
    return stack[0][0]


def blank(node, what):
    """what='iface': (iface S) -> (iface *);  what='units': (units S status) -> (units S *)"""
    if isinstance(node, list):
        if node and node[0] == "iface" and what == "iface":
            return ["iface", "*"]
        if node and node[0] == "units" and what == "units" and len(node) == 3 and isinstance(node[2], str):
            return ["units", node[1], "*"]
        return [blank(x, what) for x in node]
    return node


def field(node, key):
    for x in node[1:]:
        if isinstance(x, list) and x and x[0] == key:
            return x
    return None


def dump_comp_empty(c):
    imp = field(c, "import")
    is_import = not (imp[1] == "none" or imp[1] == "nosource")      # (import none) | (import nosource (ref S)) | (import #k ...)
    return (field(c, "name")[1] == '""' and field(c, "id")[1] == '""' and field(c, "math")[1] == '""' and not is_import
            and len(field(c, "variables")) == 1 and len(field(c, "resets")) == 1
            and all(dump_comp_empty(k) for k in field(c, "components")[1:]))


def dump_prune_comp(c):
    out = []
    for x in c:
        if isinstance(x, list) and x and x[0] == "components":
            out.append(["components"] + [dump_prune_comp(k) for k in x[1:] if not dump_comp_empty(k)])
        else:
            out.append(x)
    return out


def dump_units_empty(u):
    return u[1] == ["name", '""'] and u[2] == ["id", '""'] and u[3] == ["import", "none"] and len(u) == 4


def check_dumps(d0, dfix, dlink, dclean, problems):
    t0 = sexp(d0)
    if blank(t0, "iface") != blank(sexp(dfix), "iface"):
        problems.append("fix_frame: public-getter dump differs beyond (iface ..) after fixVariableInterfaces")
    if blank(t0, "units") != blank(sexp(dlink), "units"):
        problems.append("link_frame: public-getter dump differs beyond the linked/unlinked status after linkUnits")
    exp = []
    for x in t0:
        if isinstance(x, list) and x and x[0] == "unitslist":
            exp.append(["unitslist"] + [u for u in x[1:] if not dump_units_empty(u)])
        elif isinstance(x, list) and x and x[0] == "components":
            exp.append(["components"] + [dump_prune_comp(k) for k in x[1:] if not dump_comp_empty(k)])
        else:
            exp.append(x)
    if blank(exp, "units") != blank(sexp(dclean), "units"):
        problems.append("clean_frame: public-getter dump after clean() is not the dump before without the empty components/units")


# ------------------------------------------------------------------------------------------------ running

def fields(line):
    out = {}
    for f in line.split("\t"):
        k, _, v = f.partition(" ")
        out[k] = v
    return out


def run_drivers(ctx, drv, mdl, scripts, tag):
    """returns (impl field dicts or error strings, model field dicts or error strings)"""
    nsh = max(1, min(vf.NCPU, len(scripts) // 50 + 1))
    procs = []
    for k in range(nsh):
        p = os.path.join(ctx.workdir, "%s.%d.cases" % (tag, k))
        with open(p, "w") as f:
            for s in scripts[k::nsh]:
                f.write(s + "\n")
        procs.append(subprocess.Popen([drv, p], stdout=subprocess.PIPE, stderr=subprocess.DEVNULL))
    impl = [None] * len(scripts)
    for k, pr in enumerate(procs):
        out = pr.communicate()[0].decode("latin-1").split("\n")
        idx = list(range(len(scripts)))[k::nsh]
        for j, i in enumerate(idx):
            impl[i] = out[j] if j < len(out) and out[j] else "<missing>"
    mf = os.path.join(ctx.workdir, "%s.states" % tag)
    with open(mf, "w") as f:
        for l, sc in zip(impl, scripts):
            if l.startswith("P0 "):
                fl = fields(l)
                f.write("%s\t%s\t%s\n" % (fl.get("P0", ""), history_of(sc), fl.get("S0", "")))
            else:
                f.write("\n")
    # shard the model run as well
    msh = max(1, min(8, len(scripts) // 2000 + 1))
    lines = open(mf).read().split("\n")[:len(scripts)]
    mprocs = []
    for k in range(msh):
        p = os.path.join(ctx.workdir, "%s.%d.states" % (tag, k))
        with open(p, "w") as f:
            for s in lines[k::msh]:
                f.write(s + "\n")
        mprocs.append(subprocess.Popen([mdl, p], stdout=subprocess.PIPE, stderr=subprocess.DEVNULL))
    model = [None] * len(scripts)
    for k, pr in enumerate(mprocs):
        out = pr.communicate()[0].decode("latin-1").split("\n")
        idx = list(range(len(scripts)))[k::msh]
        for j, i in enumerate(idx):
            model[i] = out[j] if j < len(out) and out[j] else "<missing>"
    return impl, model


def judge(impl_line, model_line, std):
    """-> (problems, hidden_bad, matches_unfixed, readd)"""
    problems = []
    if not impl_line.startswith("P0 "):
        return ["implementation: %s" % impl_line[:200]], False, False, False
    if not model_line.startswith("FIX "):
        return ["model driver: %s" % model_line[:200]], False, False, False
    I = fields(impl_line)
    # the model line carries the result of the repaired loop first, then "UNFIXED FIX .. VAL .." for the pinned loop
    parts = model_line.split("\tUNFIXED ")
    mfixed = fields(parts[0])
    munf = fields(parts[1]) if len(parts) > 1 else {}
    mref = mfixed if FIXED else dict(mfixed, FIX=munf.get("FIX"), VAL=munf.get("VAL"))
    hb = mfixed.get("HB") == "1"
    val_skipped = (I.get("VAL") or "").startswith("skipped")
    if val_skipped:
        problems.append("readd_stale: the model lists a units object whose parent is not the model; Validator::validateModel "
                        "(which dereferences that parent: SIGSEGV in validateUnits) was not run")
    for k in ("FIX", "VAL", "LINK", "CLEAN"):
        if k == "VAL" and val_skipped:
            continue
        if core(I.get(k) or "") != mref.get(k):
            problems.append("correspondence %s: impl=%s model=%s" % (k, core(I.get(k) or "")[:300], (mref.get(k) or "")[:300]))
    try:
        own_impl = ownership_text(I["OPS"], parse_state(I["S0"]))
    except Exception as e:
        own_impl = "unreadable: %r" % (e,)
    if own_impl != mfixed.get("OWN"):
        problems.append("correspondence OWN (pre-history of units/ownership calls): impl=%s model=%s" % (own_impl[:300], (mfixed.get("OWN") or "")[:300]))
    matches_unfixed = hb and I.get("FIX") == munf.get("FIX") and I.get("VAL") == munf.get("VAL")
    try:
        s0 = parse_state(I["S0"])
        fr, _, fs = I["FIX"].partition(" ")
        check_fix(s0, fr == "true", parse_state(fs), mref.get("VAL") if val_skipped else I["VAL"], problems)
        lt = I["LINK"].split(" ", 3)
        check_link(s0, lt[0] == "true", lt[1] == "true", lt[2] == "true", parse_state(lt[3]), problems, std)
        check_clean(s0, parse_state(I["CLEAN"]), problems)
        check_dumps(I["D0"], I["DFIX"], I["DLINK"], I["DCLEAN"], problems)
    except Exception as e:     # a state the oracle cannot read is a failure of the machinery, reported as such
        problems.append("oracle could not evaluate the case: %r" % (e,))
    return problems, hb, matches_unfixed, mfixed.get("READD") == "1"


def category(problems):
    return sorted(set(p.split(":")[0].split(" ")[0] for p in problems))


def shrink(ctx, drv, mdl, script, std, cat):
    """greedy deletion of script lines while a problem of the same category remains"""
    lines = script.split(";")
    for _round in range(60):
        cands = [";".join(lines[:i] + lines[i + 1:]) for i in range(1, len(lines))]
        if not cands:
            break
        impl, model = run_drivers(ctx, drv, mdl, cands, "shrink")
        hit = None
        for i, (a, b) in enumerate(zip(impl, model)):
            if not a.startswith("P0 "):
                continue
            pr, _, _, _ = judge(a, b, std)
            if pr and set(category(pr)) & set(cat):
                hit = i
                break
        if hit is None:
            break
        lines = cands[hit].split(";")
    return ";".join(lines)


def state_signature(st):
    """what makes a case non-trivial, and a few histogram keys"""
    occ = occurrences(st)
    with_eq = [o for o in occ if o[2]["eqs"]]
    return len(occ), len(with_eq)


def run(ctx):
    quick = ctx.quick()
    ctx.proofs()
    ctx.assumptions += [
        "ownership well-formedness (C09's subject) is assumed of the generated models: a variable listed in a component has that component as parent(), a component listed under an entity has it as parent(), units in a model's list have the model as parent(); theorems C19_link_true_post / C19_clean_* carry it as the hypothesis units_owned / are stated on the tree",
        "clean(): 'empty' is the documented list (no name, id, resets, variables, maths, non-empty children; units: no name, id, child units) plus 'is not an import', which the documentation does not mention and the code requires; an encapsulation id or a bare import reference does not make a component non-empty",
        "the validator's units-equivalence check shares the reference rule of the interface check; the driver takes the units off every variable after fixVariableInterfaces() and before validateModel() so that only interface/equivalence-structure issues carry MAP_VARIABLES_ELEMENT / MAP_VARIABLES_VARIABLE1_ATTRIBUTE",
        "the model starts from the state the C++ driver dumps through public getters (identity = slot number); the driver glue that dumps and the OCaml/python glue that parses are trusted",
    ]
    build = vf.build_repo("plain")
    drv = vf.compile_driver(build, os.path.join(vf.ROOT, "harness/c19_driver.cpp"))
    mdl = vf.ocaml_driver("iface")
    std = standard_names()

    rng = ctx.rng
    cases = []        # (label, script)
    corpus = os.path.join(vf.ROOT, "corpus", "C19.txt")
    if os.path.exists(corpus):
        for l in open(corpus):
            if l.strip():
                cases.append(("corpus", l.strip()))
    cases += G.row28_cases(random.Random(rng.random()))
    exh_len = 2 if quick else 3
    n_exh = 0
    for focus, seq, iface in G.structured_space(exh_len):
        cases.append(G.structured_case(random.Random(rng.random()), focus, seq, iface))
        n_exh += 1
    # sampled longer sequences (order matters once a public and a private need are both present)
    n_long = 500 if quick else 12000
    for _ in range(n_long):
        focus = rng.choice(sorted(G.FOCI))
        kinds = sorted(G.FOCI[focus])
        n = rng.choice([3, 3, 4, 5]) if quick else rng.choice([4, 4, 5, 6])
        seq = tuple(rng.sample(kinds, min(n, len(kinds))))
        cases.append(G.structured_case(random.Random(rng.random()), focus, seq, rng.choice(G.IFACES)))
    n_rand = 400 if quick else 19000
    for _ in range(n_rand):
        cases.append(G.random_case(random.Random(rng.random())))
    n_hist = 900 if quick else 12000
    for _ in range(n_hist):
        cases.append(G.history_case(random.Random(rng.random()), allow_readd=rng.random() < 0.15))
    ctx.log("cases: %d (structured space to length %d: %d, longer sequences %d, random %d, ownership pre-histories %d)"
            % (len(cases), exh_len, n_exh, n_long, n_rand, n_hist))

    scripts = [c[1] for c in cases]
    impl, model = run_drivers(ctx, drv, mdl, scripts, "main")

    distinct = set()
    hist = {"cases": len(cases), "variables_with_equivalences": {}, "fix_true": 0, "fix_false": 0, "link_true": 0, "link_false": 0,
            "hidden_bad_cases(row28 shape)": 0, "clean_removed_something": 0, "validator_issue_tokens": 0,
            "relation_kinds": {}, "units_situations": {}, "iface_before": {}}
    nviol = 0
    n_unfixed_like = 0
    seen_known = False
    for i, ((label, script), a, b) in enumerate(zip(cases, impl, model)):
        problems, hb, unfixed_like, readd = judge(a, b, std)
        if a.startswith("P0 "):
            I = fields(a)
            try:
                s0 = parse_state(I["S0"])
                nocc, nweq = state_signature(s0)
                if nweq > 0 or I["CLEAN"] != I["S0"] or I["LINK"].split(" ", 3)[3] != I["S0"]:
                    distinct.add(I["S0"])
                hist["variables_with_equivalences"][str(min(nweq, 6))] = hist["variables_with_equivalences"].get(str(min(nweq, 6)), 0) + 1
                hist["fix_true" if I["FIX"].startswith("true") else "fix_false"] += 1
                hist["link_true" if I["LINK"].startswith("true") else "link_false"] += 1
                if hb:
                    hist["hidden_bad_cases(row28 shape)"] += 1
                if I["CLEAN"] != I["S0"]:
                    hist["clean_removed_something"] += 1
                if I["VAL"] != "none":
                    hist["validator_issue_tokens"] += len(I["VAL"].split())
                pos = {}
                for p, c, v in reversed(occurrences(s0)):
                    pos[v["tag"]] = (c["tag"], p)
                for t, cp in s0["X"].items():
                    pos.setdefault(t, cp)
                for p, c, v in occurrences(s0):
                    hist["iface_before"][v["iface"] or "(missing)"] = hist["iface_before"].get(v["iface"] or "(missing)", 0) + 1
                    for e in v["eqs"]:
                        r = relation(pos, c["tag"], p, e)
                        hist["relation_kinds"][r] = hist["relation_kinds"].get(r, 0) + 1
                    if v["units"] is None:
                        k = "none"
                    else:
                        u = s0["heap"][v["units"]]
                        k = ("own" if u["owner"] == s0["M"] else "foreign" if u["owner"] is not None else "unparented") + \
                            ("-standard" if (u["n"] == 0 and u["name"] in std) else "") + \
                            ("-name-in-model" if any(s0["heap"][t]["name"] == u["name"] for t in s0["L"]) else "-name-absent")
                    hist["units_situations"][k] = hist["units_situations"].get(k, 0) + 1
            except Exception:
                pass
        if not problems:
            continue
        if unfixed_like and all(("fix" in p or "validator" in p or p.startswith("correspondence FIX") or p.startswith("correspondence VAL")) for p in problems) \
                and ctx.known_finding(FINDING, "fixVariableInterfaces()/validator stop looking at a variable's equivalences once a public and a private need are known (case %s)" % label):
            seen_known = True
            continue
        if readd and all(p.startswith(("link_true_post", "readd_stale")) for p in problems) and ctx.known_finding(
                FINDING_READD, "a units object added twice to the same model and removed once stays listed without parent: linkUnits() true, hasUnlinkedUnits() true (case %s)" % label):
            hist["readd_known_finding_cases"] = hist.get("readd_known_finding_cases", 0) + 1
            continue
        nviol += 1
        if unfixed_like:
            n_unfixed_like += 1
        if nviol <= 4:
            small = script
            try:
                small = shrink(ctx, drv, mdl, script, std, category(problems))
            except Exception as e:
                ctx.log("shrink failed: %r" % (e,))
            ia, mb = run_drivers(ctx, drv, mdl, [small], "final")
            pr2, hb2, unf2, _ = judge(ia[0], mb[0], std)
            note = ""
            if unf2 or unfixed_like:
                note = " [the implementation behaves like the pinned tree's early-exit loop: defect repaired by fixes/C19-interface-early-exit.diff]"
            ctx.violation("C19 %s: %s%s" % (label, "; ".join((pr2 or problems)[:3])[:600], note), "case_%d.json" % nviol,
                          {"label": label, "script": small, "original_script": script, "problems": pr2 or problems,
                           "impl": ia[0][:6000], "model": mb[0][:6000], "matches_unrepaired_model": bool(unf2 or unfixed_like)})
    ctx.cov["evaluations"] = len(cases) * 3
    ctx.cov["distinct_nontrivial"] = len(distinct)
    ctx.cov["exhaustive"] = True
    ctx.cov["rule"] = ("a case is one generated model (built through the public API) on which fixVariableInterfaces (+Validator), linkUnits/hasUnlinkedUnits "
                       "and clean are each run on a fresh copy (3 evaluations per case). Enumerated completely: every focus position (top / middle / deep "
                       "component) x every ordered sequence of <= %d distinct relative positions of the equivalent variables (same component, sibling, "
                       "parent, child, second child, grandchild, grandparent, uncle, parent-less, component without parent, component of another model) x "
                       "7 current interface strings = %d cases; plus %d sampled longer sequences and %d random models; units situation of every variable "
                       "and seeded empty components/units are drawn per case; plus %d models whose units are first moved around by a pre-history of 1-8 "
                       "public calls (addUnits incl. moves between models, removeUnits by index/name/object/equal-but-distinct object, removeAllUnits, "
                       "takeUnits, the three replaceUnits, setUnits, destroying another model), compared call by call with the extracted ownership model. non-trivial = some variable has an equivalence, or linkUnits or clean "
                       "changes the model; distinct by the dumped initial state" % (exh_len, n_exh, n_long, n_rand, n_hist))
    ctx.cov["samples"] = [cases[0][1][:400], cases[len(cases) // 2][1][:400], cases[-1][1][:400]]
    ctx.cov["input_distribution"] = hist
    ctx.cov["traces_validated_against_impl"] = len(cases)
    ctx.log("hist: %s" % json.dumps({k: v for k, v in hist.items() if not isinstance(v, dict)}))
    if nviol:
        ctx.notes.append("%d failing cases; %d of them are exactly the behaviour of the unrepaired early-exit loop (row 28, fixes/C19-interface-early-exit.diff) on a case where the two loops differ" % (nviol, n_unfixed_like))
        ctx.log(ctx.notes[-1])


def replay(ctx, path):
    r = json.load(open(path))
    build = vf.build_repo("plain")
    drv = vf.compile_driver(build, os.path.join(vf.ROOT, "harness/c19_driver.cpp"))
    mdl = vf.ocaml_driver("iface")
    impl, model = run_drivers(ctx, drv, mdl, [r["script"]], "replay")
    print("script:", r["script"].replace(";", "\n        "))
    for k, v in fields(impl[0]).items():
        print("impl  %-6s %s" % (k, v[:1500]))
    for part in model[0].split("\tUNFIXED "):
        for k, v in fields(part).items():
            print("model %-6s %s" % (k, v[:1500]))
    pr, hb, unf, _ = judge(impl[0], model[0], standard_names())
    print("problems:", pr)
